"""C01 — every program of a simulation set faces the identical emission scenario.

Lean: Props/C01.lean over Model/Heap.lean and the table Generated/Wiring.lean that
harness/extract/wiring.py rewrites from /repo on every run.
  cursor loop   activateSrc_spec, runSrc_spec, runProgram_eq, activate_complete, activation_day
  objects       C01_objects / C01_objects_any_two (deep-copy interpreter, ARBITRARY program behaviours that
                mutate the life-cycle fields of the emissions they hold), C01_needs_copy (consumption and
                mutation witnesses of the in-place interpreter), C01, C01_any_two (identity level)
  tables        wiring_ok, copy_hooks_ok, reduce_keeps_every_init_field, identity_fields_pickled,
                C01_current_code(_objects)
Tie
 (1) the wiring extractor;
 (2) source stage: real Source.activate_emissions driven day by day on random pending lists (sorted and
     unsorted) vs `drv_heap day`; for sorted lists also `drv_heap handout` (Lean `handedOutOn`) and the
     activation-day oracle (an emission is handed out exactly once, on day max(start, 0));
 (3) object stage: real Component + Source + emission objects; k "programs" (the real no-LDAR day loop:
     activate_emissions + update_emissions_state) run one after another on `copy.deepcopy` of the
     component, on a pickle round trip of it (what a pool worker receives), or in place, vs
     `drv_heap runo` (Lean `runScheduleO`); oracle: under both copies every program faces the pristine
     scenario (identity fields intact, life-cycle fields as generated) and the original is untouched;
 (4) whole simulations in debug mode and with process pools, permuted program order, 1 / 2 / 6 simulation
     numbers (6 crosses the batch-of-five boundary): the pickled scenario of every simulation number is
     read back, `drv_heap expectedfull` (whole identity incl. Theoretical End Date = start + nrd of
     repairable emissions) must equal the identity columns of every program's emissions_summary.csv.
Oracle: pairwise comparison of the identity columns across the programs of one simulation number, and
with the scenario.
"""
import copy
import json
import os
import pickle
from datetime import date, timedelta

from harness import core
from harness.core import LeanDriver

MANIFEST_ENTRY = {
    "text": "Lean theorems over an explicit model of the pending lists, the activation cursor and mutable emission objects: activateSrc_spec/runSrc_spec (one call of Source.activate_emissions hands out exactly the longest started prefix in pop order; N days hand out takeWhile(start <= last day), nothing skipped or duplicated, no sortedness needed), activate_complete (sorted scenario => every emission starting within the period, each once), activation_day (sorted => handed out exactly on day max(start,0)), C01_objects / C01_objects_any_two (store entries carry identity = id,start,rate,repairability,natural end and a mutable life-cycle field; programs have ARBITRARY, universally quantified behaviours that mutate every emission they hold every day; `copied` = run on deepcopy of the infrastructure object, `shared` = in place: under `copied`, for every program list, every partition over workers and every order, each program faces exactly the pristine emission objects of the scenario that start within the period - not definitional: proved through runProgramO_proj / facedBy_fst), C01_needs_copy (the in-place interpreter violates it: lists consumed, and a mutation witness where the second program faces the right identities already repaired by the first), table obligations wiring_ok, copy_hooks_ok (no __deepcopy__/__copy__/__reduce_ex__/__getstate__ in virtual_world/* and emission_types/*, no field dropped or misplaced by a __reduce__/reconstructor pair, _create_emission and its helpers touch no life-cycle attribute), reduce_keeps_every_init_field (recomputed in Lean from the raw tables), identity_fields_pickled, C01_current_code(_objects). Tied to the code by the extractor, by day-by-day correspondence with the real Source.activate_emissions, by real copy.deepcopy / pickle / in-place runs of real Component objects against the object-level interpreter, and by whole simulations (debug and pools, permuted program order, 1/2/6 simulation numbers) whose pickled scenarios are read back and compared, whole identity incl. Theoretical End Date, with every program's records. Layer 3 (every run): the methods of the four emission classes are translated from the current source to Lean (harness/extract/py2lean.py, emission_src.py -> Generated/EmissionSrc.lean) and Props/EmissionTie.lean + EmissionOnSource.lean are re-checked: each translated method equals the model's function through the abstraction, iterating them is Emission.run (run_tie), and the C02/C03/C04 statements hold of the translated code; a method outside the translated subset is a note, a failing tie theorem a broken obligation.",
    "design_ref": "DESIGN.md 5.1",
    "note": "trusted: Lean kernel + standard axioms; the syntactic wiring extractor (ast patterns, fails loudly when a pattern is missing); in the functional model `deepcopy` is provably the identity on values (deepcopy_eq) - that the real copy.deepcopy / pickle of the real classes is faithful and isolating is exercised by the object stage and the whole runs, and the __reduce__ tables are obligations, but it is not proved; OS process scheduling is exercised, not proved; sortedness of generated lists is C16's generate_sorted and is also measured here on every pickled scenario",
    "technique": "Lean 4 proofs over a pending-list/cursor/object model + tables extracted from the source + differential correspondence on real objects + whole-run oracle",
}
MODULE = "LdarModel.Props.C01"
FILE = "LdarModel/Props/C01.lean"


# ---------------------------------------------------------------------------------------------
# source stage: the cursor loop
# ---------------------------------------------------------------------------------------------
def _real_source(starts, nrd=5):
    from harness.adapters import emission as E
    from virtual_world.sources import Source

    ems = [E.make_emission(s, nrd, 0, True, False, 1, 0) for s in starts]
    for i, e in enumerate(ems):
        e._emissions_id = str(i)
    pend = list(reversed(ems))  # stored reversed: pop() yields pop order
    src = Source._reconstruct("S", True, True, 1, 0, True, {0: pend}, None, None, None, None, None, None, None, "repairable")
    return src, ems


def source_case(n, starts):
    """drives the real Source; returns (per-day id lists as strings, {id: [days handed out]})"""
    from harness.adapters import emission as E

    src, ems = _real_source(starts)
    impl, days = [], {}
    for d in range(n):
        got = src.activate_emissions(E.SIM_START + timedelta(days=d), 0)
        impl.append("[" + ",".join(e._emissions_id for e in got) + "]")
        for e in got:
            days.setdefault(int(e._emissions_id), []).append(d)
    return impl, days


def source_oracle(n, starts, days):
    """sorted pending list: every emission that starts within the period is handed out exactly once,
    on day max(start, 0); nothing else is"""
    out = []
    if starts != sorted(starts):
        return out
    for i, s in enumerate(starts):
        want = [max(s, 0)] if s <= n - 1 else []
        if days.get(i, []) != want:
            sig = "C01:activation-incomplete" if len(days.get(i, [])) != len(want) else "C01:activation-day"
            out.append((sig, f"emission {i} (start {s}) handed out on days {days.get(i, [])}, expected {want}"))
    return out


def source_stage(ctx):
    lines, cases = [], []
    for _ in range(ctx.pick(1500, 40000)):
        n = ctx.rng.randint(1, 8)
        k = ctx.rng.randint(0, 5)
        starts = [ctx.rng.randint(-4, n + 2) for _ in range(k)]
        if ctx.rng.random() < 0.7:
            starts.sort()
        cases.append((n, starts))
        lines.append("reset")
        lines.append("src [" + ",".join("[%d,%d]" % (i, s) for i, s in enumerate(starts)) + "]")
        lines += ["day %d" % d for d in range(n)]
        lines.append("reset")
        lines.append("src [" + ",".join("[%d,%d]" % (i, s) for i, s in enumerate(starts)) + "]")
        lines.append("handout %d" % n)
    out = LeanDriver("drv_heap").run(lines)
    pos = 0
    for (n, starts) in cases:
        pos += 2
        model = out[pos:pos + n]
        pos += n + 2
        handout = out[pos]
        pos += 1
        impl, days = source_case(n, starts)
        ctx.evaluations += 1
        ctx.traces += 1
        if impl != model:
            ctx.disagree("heap/Source.activate_emissions", {"n": n, "starts": starts}, model, impl)
        # Lean `handedOutOn` (the function `activation_day` is about) vs the real per-day hand-outs
        real_handout = "[" + ",".join(x for d in range(n) for x in
                                      ["%s@%d" % (i, d) for i in impl[d].strip("[]").split(",") if i]) + "]"
        if handout != real_handout:
            ctx.disagree("heap/handedOutOn", {"n": n, "starts": starts}, handout, real_handout)
        for sig, what in source_oracle(n, starts, days):
            ctx.violate(sig, "sorted pending list: " + what, {"n": n, "starts": starts, "activated": impl})
        if starts == sorted(starts):
            ctx.count("source_cases_sorted")
            if any(s < 0 for s in starts):
                ctx.count("source_cases_with_preexisting")
        ctx.nontrivial.add((n, tuple(starts)))
    ctx.sample({"pending_starts": cases[0][1], "days": cases[0][0]})


# ---------------------------------------------------------------------------------------------
# object stage: real copy.deepcopy / pickle / in place on real Component objects
# ---------------------------------------------------------------------------------------------
def object_case(n, groups, k, mode):
    """groups = per source [(start, nrd, repairable, rate1024)] sorted by start (emission ids restart at 0
    in every source, as in Source.generate_emissions); k programs = the real no-LDAR day loop on `mode` in
    {"deepcopy", "pickle", "shared"} of one real Component holding one real Source per group.
    returns (faced per program: per source [(id, active_days as found)], identity_ok, original_untouched)"""
    from harness.adapters import emission as E
    from file_processing.output_processing.output_utils import EmisInfo, TsEmisData
    from virtual_world.component import Component
    from virtual_world.sources import Source

    srcs, all_ems, want_ident = [], [], {}
    for gi, specs in enumerate(groups):
        ems = []
        for i, (st, nrd, rep, r) in enumerate(specs):
            e = E.make_emission(st, nrd, 0, rep, False, 1, 0, rate=r / 1024.0)
            e._emissions_id = str(i)
            e._verif_src = gi          # harness-side label; lives in __dict__, so every copy carries it
            ems.append(e)
            want_ident[(gi, i)] = (i, st, r, rep, nrd)
        all_ems += ems
        pend = sorted(ems, key=lambda e: e._start_date, reverse=True)
        srcs.append(Source._reconstruct(f"S{gi}", True, True, 1, 0, True, {0: pend}, None, None, None, None, None,
                                        None, None, "repairable"))
    comp = Component._reconstruct("comp", "comp_1", srcs, [], [], {})
    orig_pending = [[int(e._emissions_id) for e in s._generated_emissions[0]] for s in srcs]

    def ident(e):
        return (int(e._emissions_id), (e._start_date - E.SIM_START).days, int(e._rate * 1024), bool(e._repairable),
                int(e._nrd if e._repairable else e._duration))

    faced, identity_ok = [], True
    for p in range(k):
        if mode == "deepcopy":
            target = copy.deepcopy(comp)
        elif mode == "pickle":
            target = pickle.loads(pickle.dumps(comp))
        else:
            target = comp
        seen = [[] for _ in groups]
        for e in list(target._active_emissions) + list(target._inactive_emissions):
            seen[e._verif_src].append((int(e._emissions_id), e._active_days))
            identity_ok = identity_ok and ident(e) == want_ident[(e._verif_src, int(e._emissions_id))]
        for d in range(n):
            cur = E.SIM_START + timedelta(days=d)
            before = len(target._active_emissions)
            target.activate_emissions(cur, 0)
            for e in target._active_emissions[before:]:
                seen[e._verif_src].append((int(e._emissions_id), e._active_days))
                identity_ok = identity_ok and ident(e) == want_ident[(e._verif_src, int(e._emissions_id))]
            target.update_emissions_state(EmisInfo(), TsEmisData())
        faced.append([sorted(x) for x in seen])
    untouched = (not comp._active_emissions and not comp._inactive_emissions
                 and all(s._next_emission is None for s in srcs)
                 and [[int(e._emissions_id) for e in s._generated_emissions[0]] for s in srcs] == orig_pending
                 and all(e._active_days == 0 and e.get_status() == "inactive" for e in all_ems))
    return faced, identity_ok, untouched


def object_model_lines(n, groups, k, mode):
    return (["reset"]
            + ["src [" + ",".join("[%d,%d,%d,%d,%d]" % (i, st, r, int(rep), nrd) for i, (st, nrd, rep, r) in enumerate(specs)) + "]"
               for specs in groups]
            + ["runo %d %s %d" % (n, "shared" if mode == "shared" else "copied", k)])


def object_oracle(n, groups, k, mode, faced, identity_ok, untouched):
    out = []
    if mode == "shared":
        return out
    want = [sorted((i, 0) for i, (st, nrd, rep, r) in enumerate(specs) if st <= n - 1) for specs in groups]
    if not identity_ok:
        out.append(("C01:copy-not-faithful", f"{mode}: an identity field of an emission changed in the copy"))
    if not untouched:
        out.append(("C01:copy-not-isolating", f"{mode}: running a program on the copy changed the original object"))
    for p, f in enumerate(faced):
        if f != want:
            out.append(("C01:copy-not-pristine", f"{mode}: program {p} does not face the pristine scenario: {f} != {want}"))
            break
    return out


def _object_group(rng, n):
    specs = sorted(((rng.randint(-4, n + 1), rng.randint(1, 9), rng.random() < 0.7, rng.choice([256, 512, 1024, 2048]))
                    for _ in range(rng.randint(0, 4))), key=lambda x: x[0])
    # an emission generated `nrd` or more days before the start is outside the generator's range
    return [(st, max(nrd, 1 - st) if st < 0 else nrd, rep, r) for (st, nrd, rep, r) in specs]


def _canon_runo(s):
    """parse a `runo` reply into [(program, [per source sorted [(id, life)]])]"""
    res = []
    for part in s.split(" ") if s else []:
        p, body = part.split("=", 1)
        per_src = []
        for grp in body[1:-1].replace("],[", "]|[").split("|") if body not in ("[]", "") else []:
            per_src.append(sorted(tuple(int(v) for v in x.split("/")) for x in grp.strip("[]").split(",") if x))
        res.append((int(p), per_src))
    return res


def object_stage(ctx):
    lines, cases, pos = [], [], []
    for _ in range(ctx.pick(400, 8000)):
        n = ctx.rng.randint(1, 8)
        # one to three sources at the component; emission ids restart at 0 in each
        groups = [_object_group(ctx.rng, n) for _ in range(ctx.rng.choice([1, 2, 2, 3]))]
        k = ctx.rng.randint(1, 3)
        mode = ctx.rng.choice(["deepcopy", "pickle", "shared"])
        cases.append((n, groups, k, mode))
        lines += object_model_lines(n, groups, k, mode)
        pos.append(len(lines) - 1)

    canon = _canon_runo

    out = LeanDriver("drv_heap").run(lines)
    for (n, groups, k, mode), at in zip(cases, pos):
        ml = out[at]
        faced, identity_ok, untouched = object_case(n, groups, k, mode)
        impl = [(p, [[tuple(x) for x in src] for src in f]) for p, f in enumerate(faced)]
        ctx.evaluations += 1
        ctx.traces += 1
        inp = {"object_case": {"n": n, "groups": [[list(s) for s in g] for g in groups], "k": k, "mode": mode}}
        # model lists are in hand-out order, the real ones in list order: compared sorted by id
        if canon(ml) != impl:
            ctx.disagree("heap/objects-" + mode, inp, ml, str(impl))
        for sig, what in object_oracle(n, groups, k, mode, faced, identity_ok, untouched):
            ctx.violate(sig, what, inp)
        ctx.count("object_cases_" + mode)
        ids_coincide = len(groups) > 1 and any(
            {i for i, s in enumerate(groups[a]) if s[0] <= n - 1} & {i for i, s in enumerate(groups[b]) if s[0] <= n - 1}
            for a in range(len(groups)) for b in range(a + 1, len(groups)))
        if ids_coincide:
            ctx.count("object_cases_sibling_sources_with_coinciding_ids")
        if mode == "shared" and k > 1 and any(any(life > 0 for src in f for _, life in src) for f in faced[1:]):
            ctx.count("object_cases_shared_second_program_faces_mutated_objects")
        ctx.nontrivial.add(("obj", mode, k, n, repr(groups)))
    ctx.sample({"object_case": cases[0]})


# ---------------------------------------------------------------------------------------------
# program stage: programs that DO something (tag, repair) on copies of one real Component; what every
# program reports about every emission — the attributes the property names — must be the scenario's
# ---------------------------------------------------------------------------------------------
def program_case(n, groups, programs, mode):
    """groups: per source [(start, nrd, repairable, rate1024, repair_delay)] sorted by start, ids restart at 0 per
    source; programs: list of event lists [(day, company, reporting_delay)] (tag requests reaching the component on
    that day, issued through the real Component.tag_emissions; [] = the baseline).  Every program runs the real
    day loop (activate -> tag requests -> update) for n days on its own `copy.deepcopy` / pickle copy of ONE real
    Component holding one real Source per group.  Returns per program {(source, id): record}, record = what the
    emission's own `get_summary_dict` reports: (start day, rate1024, repairable, theoretical end day | None, status)."""
    from harness.adapters import emission as E
    from file_processing.output_processing.output_utils import EmisInfo, TsEmisData
    from scheduling.schedule_dataclasses import TaggingInfo
    from constants.output_file_constants import EMIS_DATA_COL_ACCESSORS as eca
    from virtual_world.component import Component
    from virtual_world.sources import Source

    srcs = []
    for gi, specs in enumerate(groups):
        ems = []
        for i, sp in enumerate(specs):
            st, nrd, rep, r, dl = sp[:5]
            inter, adur, idur = (sp[5], sp[6], sp[7]) if len(sp) > 5 else (False, 1, 0)
            e = E.make_emission(st, nrd, dl, rep, inter, adur, idur, rate=r / 1024.0)
            e._emissions_id = str(i)
            e._verif_src = gi
            ems.append(e)
        pend = sorted(ems, key=lambda e: e._start_date, reverse=True)
        srcs.append(Source._reconstruct(f"S{gi}", True, True, 1, 0, True, {0: pend}, None, None, None, None, None,
                                        None, None, "repairable"))
    comp = Component._reconstruct("comp", "comp_1", srcs, [], [], {})
    end = E.summary_end_date(n)
    out = []
    for evs in programs:
        target = copy.deepcopy(comp) if mode == "deepcopy" else pickle.loads(pickle.dumps(comp))
        for d in range(n):
            cur = E.SIM_START + timedelta(days=d)
            target.activate_emissions(cur, 0)
            for (ed, c, trd) in evs:
                if ed == d and target._active_emissions:
                    target.tag_emissions(TaggingInfo(2.0, cur, 5, f"c{c}", "1", trd))
            target.update_emissions_state(EmisInfo(), TsEmisData())
        recs = {}
        for e in list(target._active_emissions) + list(target._inactive_emissions):
            sd = e.get_summary_dict(end)
            recs[(e._verif_src, int(sd[eca.EMIS_ID]))] = (
                E.d2i(sd[eca.DATE_BEG]), int(round(sd[eca.T_RATE] * 1024)), bool(sd[eca.REPAIRABLE]),
                E.d2i(sd[eca.THEORY_DATE]), sd[eca.STATUS])
        out.append(recs)
    return out


def program_oracle(n, groups, programs, records):
    """every program reports, for exactly the scenario emissions that start within the period: the scenario's start
    date, rate and repairability; natural end date = start + natural repair delay for a repairable emission; and for
    a non-repairable one (no program can touch it) the same natural end date as the first program (the baseline)"""
    out = []
    want = {(gi, i): sp for gi, specs in enumerate(groups) for i, sp in enumerate(specs) if sp[0] <= n - 1}
    for p, recs in enumerate(records):
        if set(recs) != set(want):
            out.append(("C01:program-vs-scenario", f"program {p} reports emissions {sorted(recs)} but the scenario holds "
                                                   f"{sorted(want)} within the period"))
            continue
        for key, sp in sorted(want.items()):
            st, nrd, rep, r, dl = sp[:5]
            got = recs[key]
            if got[:3] != (st, r, rep):
                out.append(("C01:identity-vs-scenario", f"program {p}, emission {key}: (start, rate, repairable) = {got[:3]} "
                                                        f"but the scenario says {(st, r, rep)}"))
            elif rep and got[3] != st + nrd:
                out.append(("C01:natural-end-vs-scenario", f"program {p}, repairable emission {key}: natural end date "
                                                           f"{got[3]} but start + natural repair delay = {st + nrd}"))
            elif key in records[0] and got[3] != records[0][key][3]:
                out.append(("C01:natural-end-differs-between-programs",
                            f"emission {key}: natural end date {got[3]} in program {p} but {records[0][key][3]} in the "
                            f"baseline (status {got[4]} vs {records[0][key][4]})"))
    return out


def _program_world(rng):
    n = rng.randint(1, 8)
    groups = []
    for _ in range(rng.choice([1, 2, 2, 3])):
        rep_src = rng.random() < 0.6            # a source is repairable or not
        # ... and persistent or intermittent (on / off durations, also > 1: a program may end the emission in the
        # pause phase while the baseline ends it in the emitting phase)
        inter_kind = rng.choice([(False, 1, 0), (False, 1, 0), (True, 2, 5), (True, 1, 2), (True, 3, 3), (True, 2, 1)])
        specs = []
        for _ in range(rng.randint(0, 4)):
            nrd = rng.randint(1, 9)
            roll = rng.random()
            if roll < 0.2:
                st = -nrd                        # began exactly `duration` days before the period (oldest possible)
            elif roll < 0.45:
                st = n - nrd + rng.choice([-1, 0, 0, 1])   # natural end on / next to the last simulated day
            else:
                st = rng.randint(-nrd, n)
            specs.append((max(st, -nrd), nrd, rep_src, rng.choice([256, 512, 1024, 2048]), rng.choice([0, 0, 0, 1, 2]))
                         + inter_kind)
        groups.append(sorted(specs, key=lambda x: x[0]))
    programs = [[]]                              # program 0: the baseline
    for _ in range(rng.randint(1, 3)):
        evs = sorted((0 if rng.random() < 0.35 else rng.randrange(n), rng.randint(1, 3), rng.choice([0, 0, 0, 1, 2]))
                     for _ in range(rng.choice([1, 1, 2, 3])))
        programs.append(evs)
    return n, groups, programs, rng.choice(["deepcopy", "pickle"])


def program_stage(ctx):
    lines, cases, pos = [], [], []
    for _ in range(ctx.pick(1200, 25000)):
        n, groups, programs, mode = _program_world(ctx.rng)
        cases.append((n, groups, programs, mode))
        lines += ["reset"] + ["src [" + ",".join("[%d,%d,%d,%d,%d]" % (i, st, r, int(rep), nrd)
                                                 for i, (st, nrd, rep, r, dl, *_k) in enumerate(specs)) + "]" for specs in groups]
        lines.append("expectedfull %d" % n)
        pos.append(len(lines) - 1)
    out = LeanDriver("drv_heap").run(lines)
    for (n, groups, programs, mode), at in zip(cases, pos):
        records = program_case(n, groups, programs, mode)
        ctx.evaluations += 1
        ctx.traces += 1
        inp = {"program_case": {"n": n, "groups": [[list(x) for x in g] for g in groups],
                                "programs": [[list(e) for e in p] for p in programs], "mode": mode}}
        # the model's expectation (Lean `expected` + `EmId.theoEnd`) vs what every program reports for repairables
        model = []
        for part in out[at].split(";"):
            grp = []
            for item in [x for x in part.strip("[]").split(",") if x]:
                i, st, r, rep, nrd, te = item.split(":")
                grp.append((int(i), int(st), int(r), rep == "1", None if te == "-" else int(te)))
            model.append(sorted(grp))
        for p, recs in enumerate(records):
            impl = [sorted((i, v[0], v[1], v[2], v[3] if v[2] else None) for (gi, i), v in recs.items() if gi == g)
                    for g in range(len(groups))]
            if impl != model:
                ctx.disagree("heap/program-records", dict(inp, program=p), out[at], str(impl))
                break
        for sig, what in program_oracle(n, groups, programs, records):
            ctx.violate(sig, what, inp)
        ctx.count("program_cases")
        flat = [sp for g in groups for sp in g]
        if any(sp[0] == -sp[1] for sp in flat):
            ctx.count("program_cases_with_emission_begun_exactly_duration_days_before")
        if any(e[0] == 0 and e[2] == 0 for pr in programs for e in pr) and any(sp[4] == 0 for sp in flat):
            ctx.count("program_cases_tag_on_day0_zero_delays")
        if any(not sp[2] and sp[0] + sp[1] in (n - 1, n) for sp in flat) and sum(1 for sp in flat if sp[0] <= n - 1) > 1:
            ctx.count("program_cases_nonrepairable_expiring_on_last_days_among_several")
        if any(v[4] == "repaired" for recs in records[1:] for v in recs.values()):
            ctx.count("program_cases_with_repairs")
        if any(sp[5] for sp in flat):
            ctx.count("program_cases_with_intermittent_emissions")
        ctx.nontrivial.add(("prog", mode, n, repr(groups), repr(programs)))
    ctx.sample({"program_case": cases[0]})


# ---------------------------------------------------------------------------------------------
# history stage: consecutive simulation numbers on ONE real Component, colliding ids, both orders
# ---------------------------------------------------------------------------------------------
def _snapshot(scn):
    """deep value of a scenario dict {source id: [emission objects]} (ids, identity fields, life-cycle state)"""
    return {k: [(e._emissions_id, e._start_date, e._rate, e._repairable, e._active_days, e.get_status()) for e in v]
            for k, v in scn.items()}


def history_case(n, first, second, k, mode):
    """`first`, `second`: two scenarios (per source [(start, nrd, repairable, rate1024)], ids restart at 0 — so the
    ids of the two scenarios collide while starts / rates differ).  On ONE real Component:
    set_pregen_emissions(first, 0), k programs on copies, set_pregen_emissions(second, 1), k programs on copies.
    Returns (faced by the programs of the second scenario, the same on a fresh Component that never saw `first`,
    second-scenario input untouched?)"""
    from harness.adapters import emission as E
    from file_processing.output_processing.output_utils import EmisInfo, TsEmisData
    from virtual_world.component import Component
    from virtual_world.sources import Source

    ns = max(len(first), len(second))

    def scenario(groups, label):
        out = {}
        for gi in range(ns):
            ems = []
            for i, (st, nrd, rep, r) in enumerate(groups[gi] if gi < len(groups) else []):
                e = E.make_emission(st, nrd, 0, rep, False, 1, 0, rate=r / 1024.0)
                e._emissions_id = str(i)
                e._verif_src = gi
                e._verif_scn = label
                ems.append(e)
            out[f"S{gi}"] = sorted(ems, key=lambda e: e._start_date, reverse=True)
        return out

    def component():
        srcs = [Source._reconstruct(f"S{gi}", True, True, 1, 0, True, {}, None, None, None, None, None, None, None,
                                    "repairable") for gi in range(ns)]
        return Component._reconstruct("comp", "comp_1", srcs, [], [], {})

    def programs(comp, sim):
        faced = []
        for p in range(k):
            target = copy.deepcopy(comp) if mode == "deepcopy" else pickle.loads(pickle.dumps(comp))
            seen = [[] for _ in range(ns)]
            for e in list(target._active_emissions) + list(target._inactive_emissions):
                seen[e._verif_src].append((e._verif_scn, int(e._emissions_id), e._active_days))
            for d in range(n):
                before = len(target._active_emissions)
                target.activate_emissions(E.SIM_START + timedelta(days=d), sim)
                for e in target._active_emissions[before:]:
                    seen[e._verif_src].append((e._verif_scn, int(e._emissions_id), e._active_days))
                target.update_emissions_state(EmisInfo(), TsEmisData())
            faced.append([sorted(x) for x in seen])
        return faced

    comp = component()
    a, b = scenario(first, "first"), scenario(second, "second")
    comp.set_pregen_emissions(a, 0)
    programs(comp, 0)
    before = _snapshot(b)
    comp.set_pregen_emissions(b, 1)
    after_history = programs(comp, 1)
    untouched = _snapshot(b) == before
    alone_comp = component()
    b2 = scenario(second, "second")
    alone_comp.set_pregen_emissions(b2, 1)
    alone = programs(alone_comp, 1)
    return after_history, alone, untouched


def history_oracle(n, first, second, k, mode, after_history, alone, untouched):
    out = []
    ns = max(len(first), len(second))
    want = [sorted(("second", i, 0) for i, (st, nrd, rep, r) in enumerate(second[gi] if gi < len(second) else [])
                   if st <= n - 1) for gi in range(ns)]
    if after_history != alone:
        out.append(("C01:history-dependent", f"{mode}: what the programs of a simulation number face depends on the "
                                             f"simulation number that ran before on the same infrastructure object"))
    if any(f != want for f in after_history):
        out.append(("C01:history-not-pristine", f"{mode}: after an earlier simulation number a program does not face the "
                                                f"pristine scenario of its own simulation number"))
    if not untouched:
        out.append(("C01:copy-not-isolating", f"{mode}: running programs on copies changed the loaded scenario"))
    return out


def history_stage(ctx):
    lines, cases, pos = [], [], []
    for _ in range(ctx.pick(150, 3000)):
        n = ctx.rng.randint(1, 8)
        x = [_object_group(ctx.rng, n) for _ in range(ctx.rng.choice([1, 2]))]
        y = [_object_group(ctx.rng, n) for _ in range(ctx.rng.choice([1, 2]))]
        k = ctx.rng.randint(1, 2)
        mode = ctx.rng.choice(["deepcopy", "pickle"])
        for first, second in ((x, y), (y, x)):     # both orders
            cases.append((n, first, second, k, mode))
            ns = max(len(first), len(second))
            lines += object_model_lines(n, [second[gi] if gi < len(second) else [] for gi in range(ns)], k, mode)
            pos.append(len(lines) - 1)
    out = LeanDriver("drv_heap").run(lines)
    for (n, first, second, k, mode), at in zip(cases, pos):
        after_history, alone, untouched = history_case(n, first, second, k, mode)
        ctx.evaluations += 1
        ctx.traces += 1
        inp = {"history_case": {"n": n, "first": [[list(s) for s in g] for g in first],
                                "second": [[list(s) for s in g] for g in second], "k": k, "mode": mode}}
        # the model has no cross-case state: its answer for `second` alone
        model = [(p, per_src) for p, per_src in _canon_runo(out[at])]
        impl = [(p, [[(i, life) for _, i, life in src] for src in f]) for p, f in enumerate(after_history)]
        if model != impl:
            ctx.disagree("heap/history-" + mode, inp, out[at], str(impl))
        for sig, what in history_oracle(n, first, second, k, mode, after_history, alone, untouched):
            ctx.violate(sig, what, inp)
        ctx.count("history_cases_" + mode)
        ctx.nontrivial.add(("hist", mode, k, n, repr(first), repr(second)))
    ctx.sample({"history_case": cases[0]})


# ---------------------------------------------------------------------------------------------
# __reduce__ round trips of every class with a positional reconstructor (argument order!)
# ---------------------------------------------------------------------------------------------
def reduce_roundtrip_stage(ctx):
    """`cls._reconstruct(*sentinels).__reduce__()` must give back `(cls._reconstruct, sentinels)` in the same
    order: a swapped pair on either side garbles every object that is deep-copied or pickled to a worker"""
    import inspect
    from virtual_world.component import Component
    from virtual_world.equipment_groups import Equipment_Group
    from virtual_world.infrastructure import Infrastructure
    from virtual_world.sites import Site
    from virtual_world.sources import Source

    for cls in (Infrastructure, Site, Equipment_Group, Component, Source):
        ctx.evaluations += 1
        try:
            params = list(inspect.signature(cls._reconstruct).parameters)
            sent = tuple(f"<{cls.__name__}:{i}:{p}>" for i, p in enumerate(params))
            obj = cls._reconstruct(*sent)
            fn, args = obj.__reduce__()[:2]
            again = fn(*args)
            ok = tuple(args) == sent and again.__dict__ == obj.__dict__ and type(again) is cls
        except Exception as exc:  # an unexpected shape is a broken tie, not a harness error
            ctx.broke(f"__reduce__ round trip of {cls.__name__}", repr(exc))
            continue
        if not ok:
            ctx.disagree("heap/reduce-roundtrip", {"class": cls.__name__}, list(sent), [str(a) for a in args])
        ctx.count("reduce_roundtrips_checked")


# ---------------------------------------------------------------------------------------------
# whole-run stage
# ---------------------------------------------------------------------------------------------
IDENT = ["Site ID", "Equipment", "Component", "Repairable", "Emissions ID", "Date Began", '"True" Rate (g/s)',
         "Theoretical End Date"]


def scenario_rows(res, sim):
    """identity rows of the pickled scenario of one simulation number + per-source pop-order lists"""
    from harness import shim

    shim.install()
    path = os.path.join(res.root, "inputs", "generator", f"gen_infrastructure_emissions_{sim}.p")
    with open(path, "rb") as fh:
        emis = pickle.load(fh)[sim]
    rows, sources = [], []
    for site, eqgs in emis.items():
        for eqg, comps in eqgs.items():
            for comp, srcs in comps.items():
                for src, lst in srcs.items():
                    pop_order = list(reversed(lst))
                    sources.append(((str(site), str(eqg), str(comp), src), pop_order))
                    for e in lst:
                        rows.append((str(site), str(eqg), str(comp), bool(e._repairable), e._emissions_id, e._start_date,
                                     float(e._rate)))
    return rows, sources


def _nrd(e):
    return int(e._nrd) if e._repairable else int(e._duration)


def judge_simulation(ctx, res, cfg, mode, sim, record=True):
    """oracle + model comparison for one simulation number of one finished run; returns raised signatures"""
    raised = []

    def viol(sig, what, inp):
        raised.append(sig)
        if record:
            ctx.violate(sig, what, inp)

    end = res.end
    rows, sources = scenario_rows(res, sim)
    unsorted = [k for k, lst in sources if [e._start_date for e in lst] != sorted(e._start_date for e in lst)]
    if unsorted:
        viol("C01:scenario-list-not-sorted", "a generated pending list is not sorted by start date",
             {"cfg": cfg, "mode": mode, "sim": sim, "source": unsorted[0]})
    # the scenario's natural repair delay / duration is the one the CONFIGURATION gives that kind of emission
    want_dur = {True: int(cfg["rep"]["duration"]), False: int(cfg["nonrep"]["duration"])}
    off = next(((k, e._emissions_id, _nrd(e)) for k, lst in sources for e in lst if _nrd(e) != want_dur[bool(e._repairable)]), None)
    if off:
        viol("C01:scenario-vs-configuration", "a pre-generated emission's natural repair delay / duration is not the configured one",
             {"cfg": cfg, "mode": mode, "sim": sim, "source": off[0], "emission": off[1], "scenario": off[2], "configured": want_dur})
    want = sorted((r[0], r[1], r[2], str(r[3]), r[4], str(r[5]), r[6]) for r in rows if r[5] <= end)
    per_prog = {}
    for prog in res.programs:
        recs = res.emissions(prog, sim)
        if recs is None:
            viol("C01:records-missing", "a program of a finished run has no emissions_summary.csv for a simulation number",
                 {"cfg": cfg, "mode": mode, "sim": sim, "program": prog})
            recs = []
        per_prog[prog] = sorted(tuple(r[c] for c in IDENT) for r in recs)
        got = sorted((r["Site ID"], r["Equipment"], r["Component"], r["Repairable"], r["Emissions ID"],
                      r["Date Began"][:10], float(r['"True" Rate (g/s)'])) for r in recs)
        if record:
            ctx.evaluations += 1
        if len(set(got)) != len(got) and len(set(want)) == len(want):
            dup = sorted({x for x in got if got.count(x) > 1})[:3]
            viol("C01:emission-recorded-twice", "an emission of the scenario appears more than once in a program's records",
                 {"cfg": cfg, "mode": mode, "sim": sim, "program": prog, "twice": dup})
        if got != want:
            miss = [x for x in want if x not in got][:3]
            extra = [x for x in got if x not in want][:3]
            viol("C01:program-vs-scenario", "a program's emission records differ from the pre-generated scenario",
                 {"cfg": cfg, "mode": mode, "sim": sim, "program": prog, "missing": miss, "unexpected": extra})
    # the number of emissions that BECOME ACTIVE during each program's run (running on an uncopied, shared
    # infrastructure keeps the identity tuples of the records equal but not this number)
    for prog in res.programs:
        ts = res.timeseries(prog, sim)
        if ts is None:
            viol("C01:records-missing", "a program of a finished run has no timeseries.csv for a simulation number",
                 {"cfg": cfg, "mode": mode, "sim": sim, "program": prog})
            continue
        n_new = sum(int(float(r["New Leaks"])) for r in ts)
        if n_new != len(want):
            viol("C01:activated-count-vs-scenario",
                 "the emissions that became active during a program's run (sum of New Leaks) are not the scenario "
                 "emissions starting on or before the end date",
                 {"cfg": cfg, "mode": mode, "sim": sim, "program": prog, "sum_new_leaks": n_new, "scenario": len(want)})
    base = res.cfg["baseline"]
    for prog in res.programs:
        # Theoretical End Date of a non-repairable emission is its expiry date (empty until it expires) and
        # identical across programs by C03; compared here as part of the identity
        if per_prog[prog] != per_prog[base]:
            a, b = per_prog[prog], per_prog[base]
            diff = [x for x in a if x not in b][:3] + [x for x in b if x not in a][:3]
            viol("C01:programs-differ", "identity columns differ between two programs of one simulation",
                 {"cfg": cfg, "mode": mode, "sim": sim, "programs": [prog, base], "diff": diff})
    # ---- model: expected set, whole identity, from the pickled pending lists --------------------------
    lines = ["reset"]
    for _, lst in sources:
        lines.append("src [" + ",".join("[%d,%d,%d,%d,%d]" % (
            int(e._emissions_id), (e._start_date - res.start).days, int(round(float(e._rate) * 1024)),
            int(bool(e._repairable)), _nrd(e)) for e in lst) + "]")
    lines.append("expectedfull %d" % res.ndays)
    lines.append("run %d copied [[%s]]" % (res.ndays, ",".join(str(i) for i in range(len(res.programs)))))
    out = LeanDriver("drv_heap").run(lines)
    exp_full = out[-2].split(";") if sources else []
    runs = out[-1].split(" ")
    if record:
        ctx.traces += 1
    # expected identity tuples per (site, eqg, comp, repairable)
    model = {}
    for ((site, eqg, comp, src), lst), part in zip(sources, exp_full):
        for item in [x for x in part.strip("[]").split(",") if x]:
            i, st, r1024, rep, nrd, te = item.split(":")
            model.setdefault((site, eqg, comp, rep == "1"), []).append(
                (int(i), int(st), int(r1024), rep == "1", None if te == "-" else int(te)))
    exp_ids = json.dumps([[int(x.split(":")[0]) for x in part.strip("[]").split(",") if x] for part in exp_full])
    for i, prog in enumerate(res.programs):
        recs = res.emissions(prog, sim) or []
        got = {}
        for r in recs:
            rep = r["Repairable"] == "True"
            te = res.day_index(r["Theoretical End Date"]) if rep else None
            got.setdefault((r["Site ID"], r["Equipment"], r["Component"], rep), []).append(
                (int(r["Emissions ID"]), res.day_index(r["Date Began"]), int(round(float(r['"True" Rate (g/s)']) * 1024)),
                 rep, te))
        canon = lambda d: {k: sorted(v, key=lambda t: (t[0], t[1])) for k, v in d.items() if v}
        if canon(got) != canon(model):
            gk, mk = canon(got), canon(model)
            bad = next((k for k in sorted(set(gk) | set(mk)) if gk.get(k) != mk.get(k)), None)
            if record:
                ctx.disagree("heap/whole-run-expected", {"cfg": cfg, "mode": mode, "sim": sim, "program": prog,
                                                         "source": bad}, mk.get(bad), gk.get(bad))
            # the model's expectation is the scenario itself (theoretical end = start + natural repair delay):
            # a record that differs from it is a violation of the property, not only of the correspondence
            viol("C01:identity-vs-scenario",
                 "a program's records differ from the scenario in an identity field (id, start, rate, repairability, "
                 "theoretical end date = start + natural repair delay)",
                 {"cfg": cfg, "mode": mode, "sim": sim, "program": prog, "source": bad,
                  "scenario": mk.get(bad), "records": gk.get(bad)})
        if record and sorted(map(sorted, json.loads(runs[i].split("=", 1)[1]))) != sorted(map(sorted, json.loads(exp_ids))):
            ctx.disagree("heap/run-vs-expected", {"cfg": cfg, "mode": mode, "sim": sim}, runs[i], exp_ids)
    if record:
        ctx.nontrivial.add(("wr", mode["debug"], mode["processes"], tuple(res.programs), sim, len(want)))
        ctx.count("wholerun_simulations_checked")
        if sim >= 1:
            ctx.count("wholerun_simulations_checked_sim_ge_1")
        if sim >= 5:
            ctx.count("wholerun_simulations_checked_second_batch")
    return raised


def prev_of_kind(cfg, kind, seed=0):
    """`W.prev_variant` with the wanted `what_differs` (the shared helper draws the kind from its rng)"""
    import random as _r
    from harness import wholerun as W

    for k in range(400):
        prev, what = W.prev_variant(cfg, _r.Random(seed * 1009 + k))
        if what == kind:
            return prev, what
    return W.prev_variant(cfg, _r.Random(seed))


def whole_jobs(ctx):
    from harness import wholerun as W

    jobs = []
    for j in range(ctx.pick(2, 8)):
        if j == 0:
            # two simulation numbers; placeholder infrastructure whose components own a repairable AND a
            # non-repairable source, both productive with long-lived emissions: the emission ids of sibling
            # sources coincide (ids restart at 0 per source) and such emissions overlap in time
            cfg = W.make_config(ctx.rng, n_sims=2, granular=False, ndays=200, n_sites=5,
                                rep={"epr": 0.03125, "duration": 120, "multi": True},
                                nonrep={"epr": 0.015625, "duration": 90, "multi": True})
        elif j % 2 == 0:
            # two simulation numbers on a generated configuration
            cfg = W.make_config(ctx.rng, n_sims=2)
        else:
            # six simulation numbers (crosses the batch-of-five boundary) on a small configuration
            cfg = W.make_config(ctx.rng, n_sims=6, ndays=120, n_sites=4)
        if j % 2 == 1:
            # the six-simulation configuration runs three programs (cost: 6 x programs x 2 modes)
            cfg["programs"] = [p for p in cfg["programs"] if p["name"] != "P_fix"]
        elif len(cfg["programs"]) < 4:
            cfg["programs"].append({"name": "P_fix", "methods": ["FIX", "OGI_FU2"]})
        if j % 4 == 0:
            # sites file with `<method>_site_deployment` columns: the mobile component-level method OGI, the
            # mobile screening method AIR and the stationary method FIX are each NOT deployed at some sites
            # (valid input; "whatever methods a program deploys" — the baseline deploys nothing anywhere)
            ids = [st["id"] for st in cfg["sites"]]
            cfg["site_extra_cols"] = {
                "OGI_site_deployment": {i: ("False" if k % 3 == 0 else "True") for k, i in enumerate(ids)},
                "AIR_site_deployment": {i: ("False" if k % 3 == 1 else "True") for k, i in enumerate(ids)},
                "FIX_site_deployment": {i: ("False" if k % 2 == 1 else "True") for k, i in enumerate(ids)},
            }
        jobs.append((cfg, True, 1))
        cfg2 = dict(cfg)
        progs = list(cfg["programs"])
        ctx.rng.shuffle(progs)
        cfg2["programs"] = progs
        jobs.append((cfg2, False, ctx.rng.choice([2, 3, 4])))
        # more programs than 4 x pool processes: Pool.starmap then sends several program tasks to a
        # worker in one chunk, i.e. pickled together (they share one unpickled infrastructure object)
        cfg3 = dict(cfg)
        cfg3["n_sims"] = 1 if (j % 2 == 0 or ctx.quick) else 2
        cfg3["programs"] = list(cfg["programs"]) + [{"name": "P_OGIb", "methods": ["OGI"]},
                                                     {"name": "P_airb", "methods": ["AIR", "OGI_FU"]}]
        jobs.append((cfg3, False, 1))
    jobs = [(c, d, p, ("debug", "pool", "chunked")[i % 3]) for i, (c, d, p) in enumerate(jobs)]
    # boundary periods, put in on purpose (the oracle compares calendar dates of the records with the calendar
    # dates of the pickled scenario — no day-index arithmetic of the simulator is consulted): a period that
    # starts on Dec 30, straddles New Year, contains Feb 29 and ends on day-of-year 366; a 2-day period
    # Feb 28 -> Feb 29; a 1-day period on day-of-year 366; a 2-day period Dec 30 -> Dec 31 of a leap year.
    # (Periods whose end (month, day) lies before the start's — e.g. Dec 31 -> Jan 1 — are the shape in which
    # the survey planner crashes with KeyError <year>, recorded under C06; they are not generated here.)
    # Site ids: unsorted integers whose numeric and lexicographic orders differ; pre-existing emissions on,
    # both source kinds productive
    periods = [([2023, 12, 30], [2024, 12, 31]), ([2024, 2, 28], [2024, 2, 29]),
               ([2024, 12, 31], [2024, 12, 31]), ([2024, 12, 30], [2024, 12, 31])]
    odd_ids = [30, 4, 100, 7, 25, 12, 9, 1000, 2, 51]
    for j, (st, en) in enumerate(periods[:ctx.pick(2, 4)]):
        cfg = W.make_config(ctx.rng, n_sims=2, n_sites=4, start=st, end=en, granular=(j % 2 == 1),
                            rep={"epr": 0.03125, "duration": 60, "multi": j % 2 == 0},
                            nonrep={"epr": 0.015625, "duration": 45, "multi": True}, pre_sim_emissions=True)
        if len(cfg["programs"]) < 4:
            cfg["programs"].append({"name": "P_fix", "methods": ["FIX", "OGI_FU2"]})
        for k, site in enumerate(cfg["sites"]):
            site["id"] = odd_ids[k]
        jobs.append((cfg, True, 1, "debug"))
        if not ctx.quick:
            jobs.append((dict(cfg), False, 2, "pool"))
    # "wide" configurations (harness/wholerun.py `_wide_catalogue`): leaves and boundary values the base generator
    # never produces.  The oracle reads every leaf it depends on from the cfg: number of simulations (one scenario
    # file and one set of records per simulation number), emission durations (natural end = start + duration of the
    # CONFIGURATION), period; what the methods do (coverage 0, crew counts, workday, delays, frequencies, months,
    # years, weather, follow-up rules, repair delay 0) must not matter at all.
    WIDE_TAGS = ["durations", "repairs", "sims", "coverage", "crews", "workday", "delays", "freq", "months", "years",
                 "weather", "followup"]
    wide_plan = [["durations", "repairs", "sims"], True, ["coverage", "crews", "workday"], ["delays", "freq", "months", "years"],
                 ["weather", "followup"], WIDE_TAGS, ["sims"], ["durations"], ["repairs", "coverage"], True, ["sims-batch"],
                 ["fractional"]]
    for j, tags in enumerate(wide_plan[:ctx.pick(2, 12)]):
        cfg = W.make_config(ctx.rng, wide=tags, ndays=[120, 200][j % 2], n_sites=4 + j % 2, pre_sim_emissions=True)
        if j == 0:
            # whatever the catalogue drew: 1-/2-day emissions, repair delay 0, two simulation numbers
            cfg["rep"]["duration"], cfg["nonrep"]["duration"], cfg["repair_delay"], cfg["n_sims"] = 1 + j % 2, 1, [0], 2
            cfg["wide_applied"] = cfg.get("wide_applied", []) + [{"tag": "focus", "path": ["c", "rep", "duration"], "value": 1 + j % 2},
                                                                 {"tag": "focus", "path": ["c", "nonrep", "duration"], "value": 1},
                                                                 {"tag": "focus", "path": ["c", "repair_delay"], "value": [0]},
                                                                 {"tag": "focus", "path": ["c", "n_sims"], "value": 2}]
        if len(cfg["programs"]) < 4:
            cfg["programs"].append({"name": "P_fix", "methods": ["FIX", "OGI_FU2"]})
        cfg["wide_tags"] = "all" if tags is True else tags
        jobs.append((cfg, j % 3 != 2, 1 if j % 3 != 2 else 2, "debug" if j % 3 != 2 else "pool"))
        ctx.count("wholerun_wide_runs")
        for a in cfg.get("wide_applied", []):
            ctx.count("wholerun_wide_leaf:%s=%s" % ("/".join(str(x) for x in a["path"] if x not in ("m", "c")),
                                                    json.dumps(a["value"])[:40]))
    # intermittent sources: granular infrastructure whose sources file has persistent = FALSE with on / off durations
    # > 1 (a repairable and a non-repairable one), enough emissions, and an OGI program that tags and repairs them at
    # arbitrary phases of the emit / pause cycle; the "True" Rate of every record is compared with the scenario and
    # between all programs like every other identity column
    cfg = W.make_config(ctx.rng, n_sims=ctx.pick(1, 2), granular=True, ndays=150, n_sites=5, pre_sim_emissions=True,
                        consider_weather=False, daylight=None, repair_delay=[0, 3],
                        sources=[
                            {"component": "compA", "source": "sA", "repairable": True, "persistent": True, "active": 1, "inactive": 0},
                            {"component": "compB", "source": "sB", "repairable": False, "persistent": False, "active": 3, "inactive": 2},
                            {"component": "compB", "source": "sC", "repairable": True, "persistent": False, "active": 2, "inactive": 5}],
                        rep={"epr": 0.0625, "duration": 60, "multi": True},
                        nonrep={"epr": 0.015625, "duration": 45, "multi": True})
    cfg["methods"]["OGI"].update(reporting_delay=1, crew_count=2, survey_time=30, surveys_per_year=12,
                                 months=list(range(1, 13)), spatial=1.0, mdl=0.125, consider_daylight=False)
    cfg["programs"] = [p for p in cfg["programs"] if p["name"] in ("P_none", "P_OGI", "P_air")]
    # ... and site types that list an equipment group twice (`eq1;eq1;`): two same-named groups below one site share
    # one queue of generated emissions (the scenario dict is keyed by names); every emission of the scenario must
    # appear in exactly ONE component of every program's records, and the records must number the started emissions
    cfg["site_types"] = {"tA": ["eq1", "eq1"], "tB": ["eq2", "eq3", "eq2"]}
    cfg["intermittent_focus"] = True
    jobs.append((cfg, True, 1, "debug"))
    if not ctx.quick:
        jobs.append((dict(cfg), False, 2, "pool"))
    # "history" shape: an earlier configuration that differs in ONE defining leaf is run first in the same folder
    # (generator folder and outputs left as that run left them), then cfg; every oracle is applied to the second run
    kinds = ["period-start", "n-sims", "site-count", "rates", "duration", "pre-sim"]
    for j, kind in enumerate(kinds[:ctx.pick(1, 4)]):
        cfg = W.make_config(ctx.rng, n_sims=2, ndays=[150, 120][j % 2], n_sites=4, pre_sim_emissions=True)
        prev, what = prev_of_kind(cfg, kind, seed=j)
        cfg["history"] = what
        jobs.append((cfg, True, 1, "debug", prev))
        ctx.count("history:" + what)
    # zero repair and reporting delays + pre-simulation emissions at the exact boundary: single-emission repairable
    # sources with a high production rate, so that many sources carry an emission that began exactly `duration` days
    # before the first day (the oldest date the generator can produce); OGI visits every site on the first day
    # (monthly surveys, several crews, short surveys) and its tags are repaired in the same daily update.  Every
    # program's records are compared with the scenario and with every other program, natural end date included.
    cfg = W.make_config(ctx.rng, n_sims=ctx.pick(1, 2), granular=False, n_sites=5, start=[2024, 1, 1], end=[2024, 2, 29],
                        pre_sim_emissions=True, repair_delay=[0], consider_weather=False, daylight=None,
                        rep={"epr": 1.0, "duration": 30, "multi": False},   # split over the components of a group
                        nonrep={"epr": 0.0625, "duration": 20, "multi": True})
    cfg["methods"]["OGI"].update(reporting_delay=0, crew_count=4, survey_time=5, surveys_per_year=12,
                                 months=list(range(1, 13)), spatial=1.0, mdl=0.125, consider_daylight=False,
                                 t_bw_sites=[5.0])
    cfg["methods"]["OGI_FU"]["reporting_delay"] = 0
    cfg["programs"] = [p for p in cfg["programs"] if p["name"] in ("P_none", "P_OGI", "P_air")]
    cfg["zero_delay_boundary"] = True
    jobs.append((cfg, True, 1, "debug"))
    if not ctx.quick:
        jobs.append((dict(cfg), False, 2, "pool"))
    if not ctx.quick:
        # exactly one batch (5) and one batch plus two (7) simulation numbers
        for ns in (5, 7):
            cfg = W.make_config(ctx.rng, n_sims=ns, ndays=90, n_sites=4)
            jobs.append((cfg, True, 1, "debug"))
            jobs.append((dict(cfg), False, 2, "pool"))
    return jobs


def whole_stage(ctx):
    import concurrent.futures as cf
    from harness import wholerun as W

    jobs = whole_jobs(ctx)
    with cf.ThreadPoolExecutor(max_workers=8) as ex:
        results = list(ex.map(lambda j: (W.run_after(j[4], j[0], debug=j[1], processes=j[2], trace=False) if len(j) > 4
                                         else W.run_config(j[0], debug=j[1], processes=j[2], trace=False)), jobs))
    ok_modes = {"debug": 0, "pool": 0, "chunked": 0}
    last_log = ""
    crashed = []
    try:
        for k, (job, res) in enumerate(zip(jobs, results)):
            cfg, debug, procs, label = job[:4]
            mode = {"debug": debug, "processes": procs, "program_order": [p["name"] for p in cfg["programs"]],
                    "n_sims": cfg["n_sims"]}
            if len(job) > 4:
                mode["run_before_in_the_same_folder"] = job[4]
                if getattr(res, "prev_rc", 0) != 0:
                    ctx.count("history_first_run_stopped")
            sims = list(range(res.n_sims))
            if res.rc != 0:
                ctx.count("wholerun_config_crashed")
                ctx.note("whole run crashed: " + res.log.strip().splitlines()[-1][:200])
                last_log = res.log
                crashed.append((cfg, mode, res.log))
                # never a silent skip: the simulation numbers every program finished before the crash are judged
                sims = [sm for sm in sims
                        if os.path.exists(os.path.join(res.root, "inputs", "generator", f"gen_infrastructure_emissions_{sm}.p"))
                        and all(res.emissions(p, sm) is not None and res.timeseries(p, sm) is not None for p in res.programs)]
                ctx.count("wholerun_simulations_of_crashed_runs_judged", len(sims))
            else:
                ok_modes[label] += 1
            for sim in sims:
                judge_simulation(ctx, res, cfg, mode, sim)
            if res.rc != 0:
                continue
            if res.n_sims > 1:
                scen = [repr(sorted(scenario_rows(res, sm)[0])) for sm in sims]
                ctx.count("wholerun_runs_several_simulations")
                if len(set(scen)) == len(scen):
                    ctx.count("wholerun_runs_every_simulation_number_its_own_scenario")
                elif any(x != "[]" for x in scen):
                    ctx.count("wholerun_runs_with_two_simulation_numbers_sharing_a_scenario")
                    ctx.note("two simulation numbers of one run have the same non-empty scenario (C16's concern; not judged "
                             "here): period %s..%s, %s emissions per scenario, wide %s"
                             % (cfg["start"], cfg["end"], [len(scenario_rows(res, sm)[0]) for sm in sims], cfg.get("wide_tags")))
            ctx.sample({"whole_run": mode, "sites": cfg["n_sites"], "granular": cfg["granular"],
                        "period": [cfg["start"], cfg["end"]]}, cap=8)
            ctx.count("wholerun_runs")
            ctx.count("wholerun_runs_n_sims_%d" % cfg["n_sims"])
            if cfg.get("site_extra_cols"):
                ctx.count("wholerun_runs_with_site_deployment_columns")
            if any(len(set(v)) != len(v) for v in (cfg.get("site_types") or {}).values()) and cfg["granular"]:
                ctx.count("wholerun_runs_with_duplicate_equipment_groups")
            if cfg.get("intermittent_focus"):
                ctx.count("wholerun_runs_intermittent_focus")
                for sim in sims:
                    for prog in res.programs:
                        for r in res.emissions(prog, sim) or []:
                            if r["Component"].startswith("compB") and r["Repairable"] == "True":
                                ctx.count("wholerun_intermittent_repairable_records")
                                if r["Status"] == "repaired" and r["Tagged By"] not in ("natural", "", "None"):
                                    ctx.count("wholerun_intermittent_repairable_records_repaired_by_a_program")
            if cfg.get("zero_delay_boundary"):
                ctx.count("wholerun_runs_zero_delays")
                for sim in sims:
                    rows, _ = scenario_rows(res, sim)
                    ctx.count("wholerun_emissions_begun_exactly_duration_days_before_in_zero_delay_runs",
                              sum(1 for x in rows if x[3] and (res.start - x[5]).days == cfg["rep"]["duration"]))
            if res.ndays <= 2:
                ctx.count("wholerun_runs_period_of_1_or_2_days")
            if res.start.year != res.end.year:
                ctx.count("wholerun_runs_straddling_new_year")
            if any(date(y, 2, 29) >= res.start and date(y, 2, 29) <= res.end for y in (2020, 2024, 2028)):
                ctx.count("wholerun_runs_containing_feb_29")
            if [st["id"] for st in cfg["sites"]] != sorted(st["id"] for st in cfg["sites"]):
                ctx.count("wholerun_runs_unsorted_site_ids")
            if not cfg["granular"] and cfg["rep"]["epr"] > 0 and cfg["nonrep"]["epr"] > 0:
                ctx.count("wholerun_runs_components_with_two_productive_sources")
        # a crash that depends on HOW the programs are scheduled is a failing input of C01 ("in whatever order
        # or process the programs are simulated"): the same configuration completes when its programs are
        # simulated one after another in debug mode but not in the pool.  Any other crash of a generated, valid
        # configuration is a broken obligation of this check (the run it needs does not exist) — reported, with
        # the search for a failing input continuing on everything else.
        for cfg, mode, log in crashed:
            sig = None if mode["debug"] else crash_depends_on_schedule(cfg)
            if sig:
                ctx.violate(sig, "a configuration completes in debug mode but crashes when the same programs are "
                                 "simulated in a process pool: " + log.strip().splitlines()[-1][:200],
                            {"cfg": cfg, "mode": mode})
            else:
                ctx.broke("whole run of a generated configuration crashed (%s)" % ("debug" if mode["debug"] else "pool, and in debug"),
                          json.dumps({"mode": mode, "start": cfg["start"], "end": cfg["end"]}) + "\n" + log[-1500:])
        ctx.extra["wholerun_ok_by_mode"] = ok_modes
        # guard: the whole-run stage carries the tie of the non-interference half to the code; a run of
        # the check in which a mode never completed proves nothing about it
        dead = [m for m, n in ok_modes.items() if n == 0]
        if dead and not crashed:
            raise core.InfraError("no whole run was scheduled in mode(s) %s" % dead)
        if dead:
            ctx.broke("no whole run completed in mode(s) %s" % dead, last_log[-1500:])
    finally:
        for res in results:
            res.cleanup()


def crash_depends_on_schedule(cfg):
    """the configuration crashed in a pool; does it complete in debug mode?"""
    from harness import wholerun as W

    res = W.run_config(cfg, debug=True, processes=1, trace=False)
    try:
        return "C01:crash-depends-on-schedule" if res.rc == 0 else None
    finally:
        res.cleanup()


def run(ctx):
    from harness.extract import wiring

    ctx.rule = ("source stage: random pending lists (0-5 emissions, 70% sorted) x 1-8 days through the real "
                "Source.activate_emissions (+ Lean handedOutOn, activation-day oracle); object stage: real Components with "
                "0-4 emissions, 1-3 programs (real no-LDAR day loop) on copy.deepcopy / pickle round trip / in place vs the "
                "object-level interpreter; whole runs: generated configurations with 4 programs in debug mode and in pools "
                "of 2-4 processes with shuffled program order, 6 programs on a 1-process pool, with 1, 2 and 6 simulation "
                "numbers; distinct by list / object case / (mode, order, simulation number, #emissions)")
    try:
        facts = wiring.extract()
        wiring.write(facts)
        ctx.extra["wiring_table"] = {k: v for k, v in facts.items() if k not in ("reduceArgs", "initAttrs")}
        ctx.extra["wiring_reduce_classes"] = [c for c, _ in facts["reduceArgs"]]
    except (RuntimeError, SyntaxError, OSError, KeyError) as exc:
        # an unexpected shape of the source: the table obligations cannot be established for this tree.
        # Broken obligation (the stale table is NOT trusted), and the search for a failing input goes on.
        ctx.broke("wiring extractor (Generated/Wiring.lean could not be regenerated)", repr(exc))
    core.lean_stage(ctx, MODULE, FILE, drivers=["drv_heap"])
    from harness.props import _tie
    _tie.emission_tie(ctx)  # layer 3: calc_theory_date / update / activate of the emission classes, translated from the current source
    source_stage(ctx)
    object_stage(ctx)
    program_stage(ctx)
    history_stage(ctx)
    reduce_roundtrip_stage(ctx)
    whole_stage(ctx)


def _replay_whole(ctx, inp, mode, sig, W):
    if mode.get("run_before_in_the_same_folder"):
        res = W.run_after(mode["run_before_in_the_same_folder"], inp["cfg"], debug=mode["debug"],
                          processes=mode["processes"], trace=False)
    else:
        res = W.run_config(inp["cfg"], debug=mode["debug"], processes=mode["processes"], trace=False)
    try:

        if res.rc != 0:
            print("replay: the stored configuration crashes in the stored mode:\n" + res.log[-800:])
            if not mode["debug"] and crash_depends_on_schedule(inp["cfg"]):
                print("replay: ... and completes in debug mode: C01:crash-depends-on-schedule")
                print("replay:", "still fails" if sig in (None, "C01:crash-depends-on-schedule") else "fails differently")
                return 1
            return 2
        raised = []
        for sim in range(res.n_sims):
            raised += judge_simulation(ctx, res, inp["cfg"], mode, sim, record=False)
        print("replay: re-ran the stored configuration (debug=%s, processes=%s, %d simulation(s)); oracle raised: %s"
              % (mode["debug"], mode["processes"], res.n_sims, sorted(set(raised)) or "nothing"))
        still = (sig in raised) if sig else bool(raised)
        print("replay:", "still fails" if still else "no longer fails")
        return 1 if still else 0
    finally:
        res.cleanup()


def replay(ctx, data):
    """re-executes the stored input (the configuration with harness/wholerun.py in the stored mode, or the
    stored source / object case) and re-evaluates the oracle; exit 1 iff it still fails"""
    inp = data.get("input") or {}
    sig = data.get("signature")
    print(sig, "-", data.get("what"))
    if "cfg" in inp and "mode" in inp:
        from harness import wholerun as W

        mode = inp["mode"]
        # the generator seeds are drawn afresh for every input directory: a failure that needs a rare emission
        # (e.g. one that began exactly `duration` days before the period) may need more than one scenario
        for attempt in range(3):
            rc = _replay_whole(ctx, inp, mode, sig, W)
            if rc != 0:
                return rc
            print("replay: attempt %d did not fail%s" % (attempt + 1, "; drawing another scenario" if attempt < 2 else ""))
        return 0
    if "starts" in inp:
        impl, days = source_case(inp["n"], inp["starts"])
        raised = source_oracle(inp["n"], inp["starts"], days)
        print("real Source.activate_emissions per day:", impl)
        for s, what in raised:
            print("oracle:", s, "-", what)
        still = any(s == sig for s, _ in raised) if sig else bool(raised)
        print("replay:", "still fails" if still else "no longer fails")
        return 1 if still else 0
    if "object_case" in inp:
        c = inp["object_case"]
        groups = [[tuple(s) for s in g] for g in c["groups"]]
        faced, identity_ok, untouched = object_case(c["n"], groups, c["k"], c["mode"])
        raised = object_oracle(c["n"], groups, c["k"], c["mode"], faced, identity_ok, untouched)
        print("faced:", faced)
        for s, what in raised:
            print("oracle:", s, "-", what)
        still = any(s == sig for s, _ in raised) if sig else bool(raised)
        print("replay:", "still fails" if still else "no longer fails")
        return 1 if still else 0
    if "program_case" in inp:
        c = inp["program_case"]
        groups = [[tuple(x) for x in g] for g in c["groups"]]
        programs = [[tuple(e) for e in p] for p in c["programs"]]
        records = program_case(c["n"], groups, programs, c["mode"])
        raised = program_oracle(c["n"], groups, programs, records)
        for p, recs in enumerate(records):
            print("program", p, programs[p], "->", sorted(recs.items()))
        for s_, what in raised:
            print("oracle:", s_, "-", what)
        still = any(s_ == sig for s_, _ in raised) if sig else bool(raised)
        print("replay:", "still fails" if still else "no longer fails")
        return 1 if still else 0
    if "history_case" in inp:
        c = inp["history_case"]
        first = [[tuple(x) for x in g] for g in c["first"]]
        second = [[tuple(x) for x in g] for g in c["second"]]
        res = history_case(c["n"], first, second, c["k"], c["mode"])
        raised = history_oracle(c["n"], first, second, c["k"], c["mode"], *res)
        print("faced after history:", res[0], "\nfaced alone        :", res[1])
        for s_, what in raised:
            print("oracle:", s_, "-", what)
        still = any(s_ == sig for s_, _ in raised) if sig else bool(raised)
        print("replay:", "still fails" if still else "no longer fails")
        return 1 if still else 0
    print("replay: nothing executable in this file (broken-obligation record):")
    print(json.dumps(data, default=str)[:4000])
    return 1
