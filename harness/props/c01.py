"""C01 — every program of a simulation set faces the identical emission scenario.

Lean: Props/C01.lean (activateSrc_spec, runSrc_spec, runProgram_eq, activate_complete, C01,
C01_any_two, C01_needs_copy, wiring_ok, C01_current_code) over Model/Heap.lean and the table
Generated/Wiring.lean that harness/extract/wiring.py rewrites from /repo on every run.
Tie: (1) the wiring extractor (deep copy in simulate(), single read_in_emissions per simulation,
generation ignores life-cycle fields); (2) real Source.activate_emissions driven day by day on random
pending lists (sorted and unsorted) vs drv_heap; (3) whole simulations in debug mode and with process
pools, with permuted program order: the pickled scenario is read back and the model's `expected`
set must equal the identity columns of every program's emissions_summary.csv.
Oracle: pairwise comparison of the identity columns across the programs of one simulation number.
"""
import os
import pickle
from datetime import date, timedelta

from harness import core
from harness.core import LeanDriver

MANIFEST_ENTRY = {
    "text": "Lean theorems over an explicit model of the pending lists and the activation cursor: activateSrc_spec/runSrc_spec (one call of Source.activate_emissions hands out exactly the longest started prefix in pop order; N days hand out takeWhile(start <= last day), nothing skipped or duplicated, no sortedness needed), activate_complete (sorted scenario => every emission starting within the period, each once), C01 / C01_any_two (deep-copy interpreter: for every program list, every partition over workers and every order, each program is confronted with exactly the expected set), C01_needs_copy (the shared interpreter violates it), wiring_ok + C01_current_code (obligations over the table extracted from simulate(), _setup_programs and Source.generate_emissions on every run). Tied to the code by the extractor, by day-by-day correspondence with the real Source.activate_emissions and by whole simulations (debug and pools, permuted program order) whose pickled scenario is read back.",
    "design_ref": "DESIGN.md 5.1",
    "note": "trusted: Lean kernel + standard axioms; the syntactic wiring extractor (ast patterns, fails loudly when a pattern is missing); pickling fidelity of the emission classes' __reduce__ and OS process scheduling are exercised by the whole runs, not proved; sortedness of generated lists is C16's generate_sorted and is also measured here on every pickled scenario",
    "technique": "Lean 4 proofs over a pending-list/cursor model + table extracted from the source + differential correspondence + whole-run oracle",
}
MODULE = "LdarModel.Props.C01"
FILE = "LdarModel/Props/C01.lean"


def source_stage(ctx):
    from harness.adapters import emission as E
    from virtual_world.sources import Source

    lines, cases = [], []
    for _ in range(ctx.pick(1500, 40000)):
        n = ctx.rng.randint(1, 8)
        k = ctx.rng.randint(0, 5)
        starts = [ctx.rng.randint(-4, n + 2) for _ in range(k)]
        if ctx.rng.random() < 0.7:
            starts.sort()
        cases.append((n, starts))
        lines.append("reset")
        lines.append("src [" + ",".join("[%d,%d]" % (i, s) for i, s in enumerate(starts)) + "]")
        lines += ["day %d" % d for d in range(n)]
    out = LeanDriver("drv_heap").run(lines)
    pos = 0
    for (n, starts) in cases:
        pos += 2
        model = out[pos:pos + n]
        pos += n
        ems = [E.make_emission(s, 5, 0, True, False, 1, 0) for s in starts]
        for i, e in enumerate(ems):
            e._emissions_id = str(i)
        pend = list(reversed(ems))  # stored reversed: pop() yields pop order
        src = Source._reconstruct("S", True, True, 1, 0, True, {0: pend}, None, None, None, None, None, None, None, "repairable")
        impl = []
        for d in range(n):
            got = src.activate_emissions(E.SIM_START + timedelta(days=d), 0)
            impl.append("[" + ",".join(e._emissions_id for e in got) + "]")
        ctx.evaluations += 1
        ctx.traces += 1
        if impl != model:
            ctx.disagree("heap/Source.activate_emissions", {"n": n, "starts": starts}, model, impl)
        # oracle at this level: sorted list => everything that has started is activated exactly once
        if starts == sorted(starts):
            want = [str(i) for i, s in enumerate(starts) if s <= n - 1]
            flat = [x for d in impl for x in d.strip("[]").split(",") if x]
            if flat != want:
                ctx.violate("C01:activation-incomplete", "sorted pending list: activated set != emissions started within the period",
                            {"n": n, "starts": starts, "activated": impl})
        ctx.nontrivial.add((n, tuple(starts)))
    ctx.sample({"pending_starts": cases[0][1], "days": cases[0][0]})


IDENT = ["Site ID", "Equipment", "Component", "Repairable", "Emissions ID", "Date Began", '"True" Rate (g/s)',
         "Theoretical End Date"]


def scenario_rows(res, sim):
    """identity rows of the pickled scenario of one simulation number + per-source pop-order lists"""
    from harness import shim

    shim.install()
    path = os.path.join(res.root, "inputs", "generator", f"gen_infrastructure_emissions_{sim}.p")
    with open(path, "rb") as fh:
        emis = pickle.load(fh)[sim]
    rows, sources = [], []
    for site, eqgs in emis.items():
        for eqg, comps in eqgs.items():
            for comp, srcs in comps.items():
                for src, lst in srcs.items():
                    pop_order = list(reversed(lst))
                    sources.append(((str(site), str(eqg), str(comp), src), pop_order))
                    for e in lst:
                        rows.append((str(site), str(eqg), str(comp), bool(e._repairable), e._emissions_id, e._start_date,
                                     float(e._rate)))
    return rows, sources


def whole_stage(ctx):
    import concurrent.futures as cf
    from harness import wholerun as W

    jobs = []
    for _ in range(ctx.pick(2, 8)):
        cfg = W.make_config(ctx.rng)
        if len(cfg["programs"]) < 4:
            cfg["programs"].append({"name": "P_fix", "methods": ["FIX", "OGI_FU2"]})
        jobs.append((cfg, True, 1))
        cfg2 = dict(cfg)
        progs = list(cfg["programs"])
        ctx.rng.shuffle(progs)
        cfg2["programs"] = progs
        jobs.append((cfg2, False, ctx.rng.choice([2, 3, 4])))
        # more programs than 4 x pool processes: Pool.starmap then sends several program tasks to a
        # worker in one chunk, i.e. pickled together (they share one unpickled infrastructure object)
        cfg3 = dict(cfg)
        cfg3["programs"] = list(cfg["programs"]) + [{"name": "P_OGIb", "methods": ["OGI"]},
                                                     {"name": "P_airb", "methods": ["AIR", "OGI_FU"]}]
        jobs.append((cfg3, False, 1))
    with cf.ThreadPoolExecutor(max_workers=4) as ex:
        results = list(ex.map(lambda j: W.run_config(j[0], debug=j[1], processes=j[2], trace=False), jobs))
    try:
        for (cfg, debug, procs), res in zip(jobs, results):
            mode = {"debug": debug, "processes": procs, "program_order": [p["name"] for p in cfg["programs"]]}
            if res.rc != 0:
                ctx.count("wholerun_config_crashed")
                ctx.note("whole run crashed (skipped): " + res.log.strip().splitlines()[-1][:200])
                continue
            end = res.end
            for sim in range(res.n_sims):
                rows, sources = scenario_rows(res, sim)
                unsorted = [k for k, lst in sources if [e._start_date for e in lst] != sorted(e._start_date for e in lst)]
                if unsorted:
                    ctx.violate("C01:scenario-list-not-sorted", "a generated pending list is not sorted by start date",
                                {"cfg": cfg, "source": unsorted[0]})
                want = sorted((r[0], r[1], r[2], str(r[3]), r[4], str(r[5]), r[6]) for r in rows if r[5] <= end)
                per_prog = {}
                for prog in res.programs:
                    recs = res.emissions(prog, sim) or []
                    per_prog[prog] = sorted(tuple(r[c] for c in IDENT) for r in recs)
                    got = sorted((r["Site ID"], r["Equipment"], r["Component"], r["Repairable"], r["Emissions ID"],
                                  r["Date Began"][:10], float(r['"True" Rate (g/s)'])) for r in recs)
                    ctx.evaluations += 1
                    if got != want:
                        miss = [x for x in want if x not in got][:3]
                        extra = [x for x in got if x not in want][:3]
                        ctx.violate("C01:program-vs-scenario", "a program's emission records differ from the pre-generated scenario",
                                    {"cfg": cfg, "mode": mode, "sim": sim, "program": prog, "missing": miss, "unexpected": extra})
                base = res.cfg["baseline"]
                for prog in res.programs:
                    # Theoretical End Date of a non-repairable emission is its expiry date (empty until it
                    # expires) and identical across programs by C03; compared here as part of the identity
                    if per_prog[prog] != per_prog[base]:
                        a, b = per_prog[prog], per_prog[base]
                        diff = [x for x in a if x not in b][:3] + [x for x in b if x not in a][:3]
                        ctx.violate("C01:programs-differ", "identity columns differ between two programs of one simulation",
                                    {"cfg": cfg, "mode": mode, "sim": sim, "programs": [prog, base], "diff": diff})
                # model: expected set from the pickled pending lists
                lines = ["reset"] + ["src [" + ",".join("[%d,%d]" % (int(e._emissions_id), (e._start_date - res.start).days)
                                                         for e in lst) + "]" for _, lst in sources]
                lines.append("expected %d" % res.ndays)
                lines.append("run %d copied [[%s]]" % (res.ndays, ",".join(str(i) for i in range(len(res.programs)))))
                out = LeanDriver("drv_heap").run(lines)
                exp = out[-2]
                runs = out[-1].split(" ")
                ctx.traces += 1
                for i, prog in enumerate(res.programs):
                    recs = res.emissions(prog, sim) or []
                    per_src = []
                    for (site, eqg, comp, src), lst in sources:
                        rep = bool(lst[0]._repairable) if lst else None
                        ids = sorted(int(r["Emissions ID"]) for r in recs
                                     if (r["Site ID"], r["Equipment"], r["Component"]) == (site, eqg, comp)
                                     and (rep is None or r["Repairable"] == str(rep)))
                        per_src.append(ids if lst else [])
                    got = "[" + ",".join("[" + ",".join(str(x) for x in ids) + "]" for ids in per_src) + "]"
                    # model lists are in pop (= start) order; ids are issued in generation order, so sort both
                    def canon(s):
                        import json as _j
                        return [sorted(part) for part in _j.loads(s)]
                    if canon(got) != canon(exp) or canon(runs[i].split("=", 1)[1]) != canon(exp):
                        ctx.disagree("heap/whole-run-expected", {"cfg": cfg, "mode": mode, "sim": sim, "program": prog}, exp, got)
                ctx.nontrivial.add(("wr", debug, procs, tuple(res.programs), len(want)))
            ctx.sample({"whole_run": mode, "sites": cfg["n_sites"], "granular": cfg["granular"]}, cap=8)
            ctx.count("wholerun_runs")
    finally:
        for res in results:
            res.cleanup()


def run(ctx):
    from harness.extract import wiring

    ctx.rule = ("source stage: random pending lists (0-5 emissions, 70% sorted) x 1-8 days through the real "
                "Source.activate_emissions; whole runs: generated configurations with 4 programs in debug mode and "
                "in pools of 2-4 processes with shuffled program order; distinct by list / (mode, order, #emissions)")
    facts = wiring.extract()
    wiring.write(facts)
    ctx.extra["wiring_table"] = facts
    core.lean_stage(ctx, MODULE, FILE, drivers=["drv_heap"])
    source_stage(ctx)
    whole_stage(ctx)


def replay(ctx, data):
    print(data.get("signature"), "-", data.get("what"))
    print(str(data.get("input"))[:4000])
    print("replay: re-run input.cfg with harness.wholerun.run_config(cfg, debug=mode.debug, processes=mode.processes) "
          "and compare the identity columns of the programs' emissions_summary.csv")
    return 1
