"""C12 — seeded runs are reproducible and programs do not contaminate each other.

Lean: Model/Effects.lean (a program run as a transformer over private state, shared module state and
rng streams; workers; schedules), Props/C12.lean (noninterference by induction over the schedule, the
table obligations rng_all_seeded / no_shared_mutation / consumers_reseeded by `decide` over
Generated/Effects.lean), Driver/Effects.lean (drv_effects evaluates the model on small schedules).

Tie 1 (this property's translator): harness/extract/effects.py regenerates Generated/Effects.lean from
the working tree of the repo on every run (exit 2 when it cannot parse).
Tie 2 (differential whole runs of the REAL simulator): one configuration in which every stochastic
feature is multi-valued is run under many schedules on one persisted generator folder:
    same inputs twice (sequential and pool), pool sizes 1..n, debug vs pool, permuted program order,
    subsets of the programs.
Compared byte for byte: every file of every program folder and the three summary CSVs.
What is ignored, exactly:
  * everything under Logs/ (time stamps);
  * parameters.yaml: the lines `input_directory:` / `output_directory:` are always dropped (variants run on
    copies of the reference folder); otherwise compared byte for byte between two runs of the SAME schedule;
    between schedules that differ only in the worker count the line `processes_count: <n>` is dropped on
    both sides too; for permuted order / subsets it is not compared (it lists the programs in file order);
  * the three summary CSVs between DIFFERENT schedules are compared as header + sorted data rows (the row
    order follows os.scandir of the output folder, i.e. folder creation order, which is C14's subject);
    between two runs of the same sequential schedule they are compared byte for byte (two runs of the same
    POOL schedule: rows sorted, a pure row-order difference is reported under its own signature); for a
    subset run every data row must occur verbatim in the full run's summary.
Run-after stage (wholerun.prev_variant): the same configuration is run in a fresh folder and in a folder that starts
with the same two seed files and was used before by a configuration differing in ONE defining leaf (site count, per-site
cost, coverage, repair delay, durations, surveys per year, months, MDL, pre-simulation flag, n_sims, rates: every
per-program file and the summaries byte for byte; period start/end: the daily seed series is redrawn, so only the
scenario rows fixed by the emission seeds are compared with the fresh run, and the run is repeated on the folder and
must be byte-identical).
Simulation-count history: one generator folder, inputs unchanged except simulation_count n -> smaller -> n (repairable
source of distribution type, non-repairable of sample type): run 1 and run 3 byte for byte, every simulation.
The run-after stage always contains the variant "n-sims-grown" (the folder was used before with one simulation less).
History stage: period A is run, then on the SAME generator folder period B (A shifted by one non-leap year: same
number of days, other dates) is run twice; the two B runs must be byte-identical and the saved daily seed series must
cover exactly B's dates.
Tie 3 (observation-only monitor, harness/props/c12_monitor.py): per task the process-wide state is looked
at: module/class-level containers changed, stdlib `random` state moved, numpy global generator advanced
before the first re-seed.  Every observed effect must be in the extracted tables (else the extractor is
wrong: disagreement), and the hypotheses of the theorem (no draw before the first re-seed) are evaluated.
"""
from __future__ import annotations

import json
import os
import shutil
import subprocess
import tempfile
import time
from concurrent.futures import ThreadPoolExecutor

from harness import core
from harness import wholerun as W
from harness.extract import effects as EX

MANIFEST_ENTRY = {
    "text": "Lean theorem C12 (Props/C12.lean) proves, for every list of programs whose effects are among those listed in the extracted effect tables, every assignment of tasks to worker processes, every order inside a worker and every initial state of the random generators of each worker, that each task's output equals its output when run alone in a fresh process, hence that two runs from the same generator folder agree task by task (noninterference, induction over the schedule; the general form allows shared containers that no run reads). The hypotheses are discharged by `decide` over Generated/Effects.lean, which an ast pass regenerates from LDAR_Sim/src on every run: every random-number call site reachable from a simulation run draws from the numpy global generator (rng_all_seeded), no function mutates a module/class-level container (no_shared_mutation), the day loop re-seeds first (day_loop_reseeds, the used entry of consumers_reseeded; its emission-generation / infrastructure entries are side obligations about the set-up phase), nothing random is lexically reachable from what a task runs before its first re-seed (prologue_clean, name-based call graph from simulate() and the pre-loop part of run_simulation), every task works on a private deep copy of the infrastructure (private_copy: simulate() deep-copies and uses only the copy - own extraction and C01's Generated/Wiring.lean - and every __reduce__/__setstate__/__deepcopy__ hook of a reachable class keeps deep-copy semantics; the machine has an object-store channel that is shared between the tasks of a simulation iff this fails, C12_needs_private_copy), and every non-RNG nondeterminism source (set iteration, directory listing, wall clock, id/hash) is on a reviewed list with its reason (nondet_all_reviewed; a review list, not a proof). The real simulator is then run on one generated configuration with all stochastic features multi-valued under repeated, permuted, subset, sequential and pool schedules on a persisted generator folder and every per-program file and the three summaries are compared byte for byte; an observation-only monitor checks per task that no shared container changed, the stdlib generator was not used, nothing was drawn before the first re-seed and the pickled arguments of simulate() (infrastructure, weather, daylight, parameter dicts) are left untouched. The drv_effects-vs-Python-rendering stage validates the compiled machine only and is reported under coverage.model_machine_stage, outside evaluations.",
    "design_ref": "DESIGN.md 5.12",
    "note": "trusted: Lean kernel + propext/Classical.choice/Quot.sound; the syntactic extractor (reachability = import closure of ldar_sim_run under LDAR_Sim/src, every function of a reachable module counted; aliases through parameters/returns not seen, backed by the dynamic monitor and the differential runs); harness shims; OS scheduling, pickling through multiprocessing and float formatting are covered only by the differential runs; Logs/ ignored, parameters.yaml and summary row order compared as stated in harness/props/c12.py",
    "technique": "Lean 4 noninterference proof over an effect model + tables extracted from the source by an ast pass on every run + differential whole runs of the real simulator + observation-only effect monitor",
}

MODULE = "LdarModel.Props.C12"
FILE = "LdarModel/Props/C12.lean"
SUMMARIES = ("Cost Summary.csv", "Emissions Summary.csv", "Timeseries Summary.csv")
HOOK = "harness.props.c12_monitor:install"
QE_FILE = "qe_errors.csv"


# ------------------------------------------------------------------------------------------------
# configuration: every stochastic feature multi-valued
# ------------------------------------------------------------------------------------------------
# tags of harness/wholerun's "wide" catalogue that matter for C12: everything that changes how many random numbers a
# task consumes or what runs in the parent between tasks (sampled repair costs/delays, sampled travel times and the
# workday that bounds them, crews, follow-up rules, weather envelopes, cost blocks, per-program economics, n_sims)
WIDE_TAGS = ["sims", "crews", "followup", "weather", "cost", "repairs", "workday", "economics"]


DIST_SOURCE = {"dist": "lognorm", "scale": -1.79, "shape": 2.17, "max": 100000, "unit": "kilogram", "time": "hour"}


def c12_config(rng, ndays, n_sites, n_sims, four=True, keep_all=True, start=None, wide=None, dist=None):
    # start early enough in the year that the run stays inside one calendar year (make_config truncates
    # runs that would end in a trailing partial year, finding recorded under C06)
    # `start` given: boundary periods chosen on purpose (leap day inside, ending on Dec 31 = day-of-year 366, 1-2 days)
    start = W.date(*start) if start else W.date(rng.choice([2021, 2022, 2023]), rng.choice([1, 3, 5]), 1)
    end = start + W.timedelta(days=ndays - 1)
    cfg = W.make_config(rng, ndays=ndays, n_sites=n_sites, n_sims=n_sims,
                        start=[start.year, start.month, start.day], end=[end.year, end.month, end.day])
    allm = list(range(1, 13))
    cfg["consider_weather"] = rng.random() < 0.5
    cfg["weather_mode"] = "mixed"
    cfg["pre_sim_emissions"] = True
    cfg["repair_cost"] = [64.0, 128.0, 256.0, 512.0]          # sampled repair cost
    cfg["repair_delay"] = [2, 9, 16]                           # sampled repair delay
    cfg["rates"] = [0.0078125, 0.03125, 0.125, 0.5, 2.0, 8.0]  # small rates: probabilistic sensors matter
    cfg["rep"]["epr"] = rng.choice([0.015625, 0.03125])
    cfg["rep"]["duration"] = rng.choice([60, 120, 365])
    cfg["nonrep"]["epr"] = rng.choice([0.00390625, 0.015625])
    m = cfg["methods"]
    m["OGI"].update({"t_bw_sites": [15.0, 45.0, 90.0, 120.0], "months": allm, "surveys_per_year": rng.choice([6, 12]),
                     "survey_time": rng.choice([60, 120]), "crew_count": rng.choice([1, 2]), "spatial": 0.5,
                     "temporal": 0.75, "mdl": 0.015625, "qe": [0.0, 25.0], "qe_type": "default",
                     "sensor_type": rng.choice(["default", "OGI_camera_zim", "OGI_camera_rk"])})
    m["AIR"].update({"t_bw_sites": [5.0, 20.0, 35.0], "months": allm, "surveys_per_year": 12, "spatial": 0.75,
                     "temporal": 0.75, "mdl": 0.0625, "qe": [QE_FILE, "err_short"], "qe_type": "sample"})
    m["AIR"]["follow_up"].update({"threshold": 0.0, "proportion": rng.choice([1.0, 0.5]), "instant_threshold": None,
                                  "delay": rng.choice([0, 3])})
    m["OGI_FU"].update({"t_bw_sites": [10.0, 30.0, 50.0], "spatial": 0.75, "temporal": 0.75, "mdl": 0.015625,
                        "qe": [-50.0, 50.0], "qe_type": "uniform"})
    m["FIX"].update({"mdl": 0.0625, "temporal": 0.75, "spatial": 0.75, "qe": [0.0, 50.0], "qe_type": "default"})
    m["OGI_FU2"].update({"t_bw_sites": [10.0, 30.0, 50.0], "spatial": 0.5, "mdl": 0.015625,
                         "qe": [QE_FILE, "err"], "qe_type": "sample"})
    # AIR_L: a second screening method; P_air and P_airL SHARE the follow-up method label OGI_FU (spatial
    # coverage 0.75, sampled travel times), P_OGI and P_ogiB share the label OGI (spatial 0.5): state keyed by
    # method label that leaks from one program's copy of the infrastructure into another's shows up here
    m["AIR_L"] = json.loads(json.dumps(m["AIR"]))
    # sample-type quantification from ONE file with columns of different length (the short one padded with empty
    # cells): AIR reads the short column, AIR_L and OGI_FU2 (other programs) the long one - a cache of the file shared
    # between predictors, or any state keyed by the file, shows up as a dependence on program order / worker count
    m["AIR_L"].update({"mdl": 0.5, "spatial": 0.5, "surveys_per_year": 6, "t_bw_sites": [10.0, 25.0],
                       "qe": [QE_FILE, "err"], "qe_type": "sample"})
    m["AIR_L"]["follow_up"].update({"proportion": 1.0, "delay": rng.choice([0, 5])})
    if four == "three":
        progs = [("P_none", []), ("P_air", ["AIR", "OGI_FU"]), ("P_airL", ["AIR_L", "OGI_FU"])]
    elif four:
        progs = [("P_none", []), ("P_OGI", ["OGI"]), ("P_air", ["AIR", "OGI_FU"]), ("P_airL", ["AIR_L", "OGI_FU"]),
                 ("P_fix", ["FIX", "OGI_FU2"])]
    else:
        progs = [("P_none", []), ("P_OGI", ["OGI"]), ("P_ogiB", ["OGI"]), ("P_air", ["AIR", "OGI_FU"]),
                 ("P_airL", ["AIR_L", "OGI_FU"])]
    cfg["programs"] = [{"name": n, "methods": ms} for n, ms in progs]
    cfg["baseline"] = "P_none"
    # site ids: unsorted, non-contiguous integers (natural order != file order != 1..n)
    ids = rng.sample(range(2, 120), len(cfg["sites"]))
    for st_, i_ in zip(cfg["sites"], ids):
        st_["id"] = i_
    rng.shuffle(cfg["sites"])
    cfg["keep_all"] = keep_all
    # emission-rate sources: the repairable one of distribution type (a frozen scipy.stats distribution: it is pickled
    # with the infrastructure) in about half of the configurations, the non-repairable one always of sample type
    if dist if dist is not None else rng.random() < 0.5:
        cfg["dist_sources"] = {"rep_src": dict(DIST_SOURCE)}
    if wide:
        # applied LAST (after this generator's own overrides and the extra methods AIR_L), from the derived generator
        # of wholerun.apply_wide; every applied leaf is recorded in cfg["wide_applied"] and written by materialize
        keep_sims = cfg["n_sims"]
        # the catalogue is built from cfg["methods"]: offer it only the methods some program of this configuration uses
        all_methods = cfg["methods"]
        used = [x for p_ in cfg["programs"] for x in p_["methods"]]
        cfg["methods"] = {k: v for k, v in all_methods.items() if k in used}
        try:
            W.apply_wide(cfg, wide)
        finally:
            cfg["methods"] = all_methods
        if keep_sims >= 6:
            cfg["n_sims"] = keep_sims   # the batch-boundary configuration keeps its two batches
            cfg["wide_applied"] = [a for a in cfg["wide_applied"] if a["path"][-1] != "n_sims"]
    long_col, short_col = (-50, -25, 0, 25, 50, 100, 150, -90), (-75, 10, 200)
    rows = [f"{a},{short_col[i] if i < len(short_col) else ''}" for i, a in enumerate(long_col)]
    cfg["extra_inputs"] = {QE_FILE: "err,err_short\n" + "\n".join(rows) + "\n"}
    return cfg


def with_schedule(cfg, sched):
    """schedule = {"order": [program names], "debug": bool, "processes": int}"""
    by = {p["name"]: p for p in cfg["programs"]}
    c = dict(cfg)
    c["programs"] = [by[n] for n in sched["order"]]
    return c


# ------------------------------------------------------------------------------------------------
# one run of the real simulator (own copy of wholerun.run_config: adds the monitor hook + extra inputs)
# ------------------------------------------------------------------------------------------------
class Run:
    def __init__(self, sched, rc, log, files, monitor, wall):
        self.sched, self.rc, self.log, self.files, self.monitor, self.wall = sched, rc, log, files, monitor, wall


def run_schedule(cfg, sched, workdir, repo=None, timeout=1500):
    c = with_schedule(cfg, sched)
    c["processes"] = sched["processes"]
    files, in_dir, out_dir = W.materialize(c, workdir)
    for name, text in (cfg.get("extra_inputs") or {}).items():
        p = os.path.join(in_dir, name)
        if not os.path.exists(p):
            with open(p, "w") as fh:
                fh.write(text)
    mon_dir = os.path.join(workdir, "monitor.d")
    shutil.rmtree(mon_dir, ignore_errors=True)
    job = {"files": files, "debug": sched["debug"], "trace": False, "cfg": c,
           "trace_path": os.path.join(workdir, "trace.json"), "pre_run_hook": HOOK}
    job_path = os.path.join(workdir, "job.json")
    with open(job_path, "w") as fh:
        json.dump(job, fh)
    env = dict(os.environ)
    env["PYTHONPATH"] = W.VERIF + os.pathsep + env.get("PYTHONPATH", "")
    env["PYTHONDONTWRITEBYTECODE"] = "1"
    if repo:
        env["LDAR_REPO"] = repo
    t0 = time.time()
    p = subprocess.run([W.PY, "-m", "harness.wholerun_worker", job_path], cwd=W.VERIF, env=env,
                       stdout=subprocess.PIPE, stderr=subprocess.STDOUT, text=True, timeout=timeout)
    out = {}
    for r, _, fs in os.walk(out_dir):
        for f in fs:
            fp = os.path.join(r, f)
            with open(fp, "rb") as fh:
                out[os.path.relpath(fp, out_dir)] = fh.read()
    mon = {"tasks": [], "setup": []}
    if os.path.isdir(mon_dir):
        for f in sorted(os.listdir(mon_dir)):
            d = json.load(open(os.path.join(mon_dir, f)))
            (mon["setup"] if f.startswith("_setup_") else mon["tasks"]).append(d)
    return Run(sched, p.returncode, p.stdout, out, mon, time.time() - t0)


# ------------------------------------------------------------------------------------------------
# comparison
# ------------------------------------------------------------------------------------------------
def _first_diff(a, b):
    n = min(len(a), len(b))
    i = next((k for k in range(n) if a[k] != b[k]), n)
    lo = max(0, i - 60)
    return {"offset": i, "a": a[lo:i + 80].decode("utf-8", "replace"), "b": b[lo:i + 80].decode("utf-8", "replace"),
            "len_a": len(a), "len_b": len(b)}


def _kind(rel):
    if rel in SUMMARIES:
        return "summary-csv"
    if rel == "parameters.yaml":
        return "parameters-yaml"
    for k in ("timeseries", "emissions_summary", "estimated_emissions", "estimated_repaired_emissions_to_remove"):
        if rel.endswith(k + ".csv"):
            return k
    return "other-file"


def _rows(b):
    lines = b.split(b"\n")
    return lines[0], sorted(lines[1:])


def _strip_dirs(b):
    return b"\n".join(ln for ln in b.split(b"\n")
                      if not (ln.startswith(b"input_directory:") or ln.startswith(b"output_directory:")))


def _strip_proc(b):
    return b"\n".join(ln for ln in _strip_dirs(b).split(b"\n") if not ln.startswith(b"processes_count:"))


def compare(ra, rb, relation):
    """relation: 'same' (identical schedule), 'workers' (same program list, other debug/pool size),
    'order' (permuted), 'subset' (rb runs a subset of ra's programs).
    returns None or {"file", "kind", "diff"} for the first differing file in sorted order"""
    fa, fb = ra.files, rb.files
    progs_b = set(rb.sched["order"])

    def per_program(rel):
        return os.sep in rel and not rel.startswith("Logs" + os.sep)

    # per-program files first (sorted), then the summaries, then parameters.yaml / other top-level files
    names = sorted(set(fa) | set(fb), key=lambda r: (0 if per_program(r) else 1 if r in SUMMARIES else 2, r))
    for rel in names:
        if rel.startswith("Logs" + os.sep):
            continue
        a, b = fa.get(rel), fb.get(rel)
        if per_program(rel):
            if relation == "subset" and rel.split(os.sep)[0] not in progs_b:
                continue
            if a is None or b is None:
                return {"file": rel, "kind": "missing-file", "diff": {"in_a": a is not None, "in_b": b is not None}}
            if a != b:
                return {"file": rel, "kind": _kind(rel), "diff": _first_diff(a, b)}
            continue
        if rel == "parameters.yaml":
            if relation == "same" and _strip_dirs(a or b"") != _strip_dirs(b or b""):
                return {"file": rel, "kind": "parameters-yaml", "diff": _first_diff(_strip_dirs(a or b""), _strip_dirs(b or b""))}
            if relation == "workers" and _strip_proc(a or b"") != _strip_proc(b or b""):
                return {"file": rel, "kind": "parameters-yaml", "diff": _first_diff(_strip_proc(a or b""), _strip_proc(b or b""))}
            continue
        if rel in SUMMARIES:
            if a is None or b is None:
                return {"file": rel, "kind": "missing-file", "diff": {"in_a": a is not None, "in_b": b is not None}}
            if relation == "same" and ra.sched["debug"]:
                if a != b:
                    return {"file": rel, "kind": "summary-csv", "diff": _first_diff(a, b)}
            elif relation == "subset":
                ha, rows_a = _rows(a)
                hb, rows_b = _rows(b)
                missing = [r for r in rows_b if r and r not in set(rows_a)]
                if ha != hb or missing:
                    return {"file": rel, "kind": "summary-csv",
                            "diff": {"row_of_subset_run_not_in_full_run": (missing or [hb])[0].decode("utf-8", "replace"),
                                     "rows_of_full_run_with_the_same_program_and_simulation": [
                                         r.decode("utf-8", "replace") for r in rows_a
                                         if missing and r.split(b",")[:2] == missing[0].split(b",")[:2]]}}
            else:
                if _rows(a) != _rows(b):
                    ha, rows_a = _rows(a)
                    hb, rows_b = _rows(b)
                    return {"file": rel, "kind": "summary-csv",
                            "diff": _first_diff(b"\n".join([ha] + rows_a), b"\n".join([hb] + rows_b))}
                if relation == "same" and a != b:
                    return {"file": rel, "kind": "summary-row-order", "diff": _first_diff(a, b)}
            continue
        # any other top-level file
        if relation in ("same", "workers") and a != b:
            return {"file": rel, "kind": "other-file", "diff": _first_diff(a or b"", b or b"")}
    return None


def sched_str(s):
    return ("debug" if s["debug"] else f"pool{s['processes']}") + ":" + ",".join(s["order"])


# ------------------------------------------------------------------------------------------------
# feature coverage of the reference run (are the stochastic features really multi-valued?)
# ------------------------------------------------------------------------------------------------
def _csv(b):
    import csv
    import io

    return list(csv.DictReader(io.StringIO(b.decode("utf-8", "replace"))))


def features(run):
    feat = {}
    travel, costs, qe, tagged = set(), set(), 0, 0
    for rel, b in run.files.items():
        if rel.endswith("_timeseries.csv"):
            for r in _csv(b):
                for k, v in r.items():
                    if k.endswith("Travel Time (Minutes)") and v not in ("", "0", "0.0"):
                        sv = r.get(k.replace("Travel Time (Minutes)", "Sites Visited"), "")
                        travel.add((v, sv))
                v = r.get("Daily Repair Cost ($)")
                if v not in (None, "", "0", "0.0"):
                    costs.add(v)
        elif rel.endswith("_emissions_summary.csv"):
            for r in _csv(b):
                tr, mr = r.get('"True" Rate (g/s)'), r.get('"Measured" Rate (g/s)')
                if tr and mr and tr != mr and mr not in ("0", "0.0"):
                    qe += 1
                if r.get("Tagged") == "True":
                    tagged += 1
    feat["distinct_travel_time_days"] = len(travel)
    feat["distinct_daily_repair_costs"] = len(costs)
    feat["emissions_measured_ne_true"] = qe
    feat["tagged"] = tagged
    return feat


# ------------------------------------------------------------------------------------------------
# the schedule set
# ------------------------------------------------------------------------------------------------
def schedule_plan(ctx, progs, shared_later=None):
    """list of (label, relation, schedule, where) ; where = 'A' (sequentially in the reference folder) or
    'copy' (on a copy of the reference folder incl. its generator folder, run concurrently)"""
    n = len(progs)
    base = {"order": list(progs), "debug": True, "processes": 1}
    plan = [("rerun-debug", "same", dict(base), "A")]
    pools = list(range(1, n + 1)) if not ctx.quick else sorted({1, n} | ({ctx.rng.randint(2, n - 1)} if n >= 3 else set()))
    for k in pools:
        plan.append((f"pool{k}", "workers", {"order": list(progs), "debug": False, "processes": k}, "copy"))
    # permutations: reversed + random ones, sequential and pool
    perms = [list(reversed(progs))]
    for _ in range(ctx.pick(1 if n <= 4 else 0, 3)):   # quick: the reversed order only when there are 5 programs
        p = list(progs)
        ctx.rng.shuffle(p)
        if p != progs and p not in perms:
            perms.append(p)
    for i, p in enumerate(perms):
        plan.append((f"perm{i}-debug", "order", {"order": p, "debug": True, "processes": 1}, "copy"))
        if i == 0 or not ctx.quick:
            plan.append((f"perm{i}-pool", "order", {"order": p, "debug": False, "processes": ctx.rng.randint(1, n)}, "copy"))
    # subsets containing the baseline (the first program)
    others = progs[1:]
    subs = [[progs[0], o] for o in others]
    if not ctx.quick:
        subs.append([progs[0]])
        if len(others) >= 3:
            subs.append([progs[0]] + others[1:])
            subs.append([others[-1], progs[0], others[0]])
    elif len(subs) > 2:
        # prefer the programs that share a method label with an EARLIER program of the reference order: run
        # without that earlier program they show state leaking through label-keyed structures
        first = [[progs[0], o] for o in others if o in (shared_later or [])][:2]
        rest = [x for x in subs if x not in first]
        subs = first + ctx.rng.sample(rest, max(0, 2 - len(first)))
    for i, s in enumerate(subs):
        plan.append((f"subset{i}", "subset", {"order": s, "debug": True, "processes": 1}, "copy"))
    return base, plan


def copy_inputs(src_wd, dst_wd):
    """copy the reference work dir's inputs (with the generator folder); outputs are not copied"""
    shutil.copytree(os.path.join(src_wd, "inputs"), os.path.join(dst_wd, "inputs"))


def check_monitor(ctx, run, tables, label):
    """observed effects must be listed in the extracted tables; theorem hypotheses evaluated"""
    listed = {m["target"] for m in tables["sharedMutations"]}
    has_std = any(s["gen"] == "stdlibRandom" for s in tables["rngSites"])
    for t in run.monitor["tasks"]:
        ctx.count("monitor_tasks")
        for c in t["changed"]:
            ctx.count("monitor_container_changed")
            if c not in listed:
                ctx.disagree("effects-table:sharedMutations", {"schedule": sched_str(run.sched), "task": [t["prog"], t["sim"]], "container": c},
                             "not listed as mutated", "changed while the task ran")
        if t["stdlib_used"]:
            ctx.count("monitor_stdlib_used")
            if not has_std:
                ctx.disagree("effects-table:rngSites", {"schedule": sched_str(run.sched), "task": [t["prog"], t["sim"]]},
                             "no stdlibRandom site", "stdlib random state moved while the task ran")
        if t.get("infra_arg_mutated"):
            ctx.count("monitor_infra_arg_mutated")
            ctx.disagree("effects-model:private-state-is-a-fresh-copy", {"schedule": sched_str(run.sched), "task": [t["prog"], t["sim"]]},
                         "simulate() leaves its infrastructure argument untouched",
                         "the pickled infrastructure argument changed while the task ran (state shared between programs' copies)")
        elif t.get("infra_digest_ok"):
            ctx.count("hypothesis_infra_arg_untouched_hit")
        if t.get("other_args_mutated"):
            ctx.count("monitor_other_args_mutated")
            ctx.disagree("effects-model:private-state-is-a-fresh-copy", {"schedule": sched_str(run.sched), "task": [t["prog"], t["sim"]],
                                                                         "simulate_arg_positions": t["other_args_mutated"]},
                         "simulate() leaves its shared arguments untouched",
                         "a shared argument of simulate() (daylight/weather/parameter dicts/...) changed while the task ran")
        if t.get("none_seed_calls"):
            ctx.count("monitor_none_seed_calls", t["none_seed_calls"])
            ctx.disagree("effects-model:daily-seed-comes-from-the-generator-folder",
                         {"schedule": sched_str(run.sched), "task": [t["prog"], t["sim"]], "none_seed_calls": t["none_seed_calls"],
                          "seed_calls": t["seed_calls"]},
                         "every re-seed uses a seed stored in the generator folder",
                         "np.random.seed(None) was called while pre-seeding is on (re-seed from OS entropy)")
        else:
            ctx.count("hypothesis_all_seeds_from_folder_hit")
        if t["np_draw_before_seed"]:
            ctx.count("monitor_draw_before_seed")
            ctx.disagree("effects-model:no-draw-before-first-reseed", {"schedule": sched_str(run.sched), "task": [t["prog"], t["sim"]],
                                                                       "seed_calls": t["seed_calls"]},
                         "prologue draws nothing", "numpy global generator advanced before the first re-seed of the task")
        else:
            ctx.count("hypothesis_no_draw_before_seed_hit")
    for s in run.monitor["setup"]:
        for c in s["changed_in_setup"]:
            ctx.count("monitor_container_changed_in_setup")
            if c not in listed:
                ctx.disagree("effects-table:sharedMutations", {"schedule": sched_str(run.sched), "phase": "setup", "container": c},
                             "not listed as mutated", "changed during set-up")


def make_plan(ctx, cfg):
    """(base schedule, plan, programs sharing a label with an earlier program); uses ctx.rng: call in the main thread"""
    progs = [p["name"] for p in cfg["programs"]]
    seen_labels, shared_later = set(), []
    for p in cfg["programs"]:
        if any(l in seen_labels for l in p["methods"]):
            shared_later.append(p["name"])
        seen_labels.update(p["methods"])
    base, plan = schedule_plan(ctx, progs, shared_later)
    return base, plan, shared_later


def differential(ctx, cfg, tables, repo=None, label="cfg", planned=None):
    """ctx may be a per-configuration sub-context (configurations run concurrently; merged by the caller)"""
    progs = [p["name"] for p in cfg["programs"]]
    base, plan, shared_later = planned if planned is not None else make_plan(ctx, cfg)
    if shared_later:
        ctx.nontrivial.add("shared-method-label")
        ctx.count("configs_with_shared_method_label")
    wa = cfg.get("wide_applied") or []
    if wa:
        ctx.count("wide_configurations")
        for a in wa:
            ctx.count(f"wide:{a['tag']}")
            ctx.nontrivial.add("wide:" + a["tag"] + ":" + ".".join(str(x) for x in a["path"][-2:]))
    root = tempfile.mkdtemp(prefix="ldarverif_c12_")
    results = []
    try:
        # the reference run draws fresh seeds; a scenario on which the simulator itself raises (seen: TypeError in
        # calculate_volume_emitted, component-based estimation, a record without end date - not C12's subject) is
        # recorded and another fresh folder is tried
        for attempt in range(4):
            wd_a = os.path.join(root, f"A{attempt}" if attempt else "A")
            os.makedirs(wd_a)
            ref = run_schedule(cfg, base, wd_a, repo=repo)
            ctx.traces += 1
            if ref.rc == 0:
                break
            ctx.count("reference_run_crashed_on_fresh_scenario")
            ctx.extra.setdefault("fresh_run_failures", []).append({"config": label, "rc": ref.rc, "log_tail": ref.log[-1500:]})
            ctx.note(f"{label}: the simulator raised on a freshly seeded scenario (rc={ref.rc}); retried on a new folder")
        if ref.rc != 0:
            # not an infrastructure exit: recorded as a broken obligation, the other configurations go on
            ctx.broke(f"whole run of {label} (reference schedule) raised on 4 freshly seeded folders", ref.log[-3000:])
            return results
        check_monitor(ctx, ref, tables, "ref")
        feat = features(ref)
        ctx.extra.setdefault("features", []).append(feat)
        for k, v in feat.items():
            if v:
                ctx.nontrivial.add(f"feature:{k}")

        def do(item, wd):
            lab, rel, sched, where = item
            r = run_schedule(cfg, sched, wd, repo=repo)
            return item, r

        jobs = []
        with ThreadPoolExecutor(max_workers=ctx.pick(5, 5)) as ex:
            # copies first (they only need the generator folder of the reference run) ...
            for i, item in enumerate(plan):
                if item[3] == "copy":
                    wd = os.path.join(root, f"c{i}")
                    os.makedirs(wd)
                    copy_inputs(wd_a, wd)
                    jobs.append(ex.submit(do, item, wd))
            # sensitivity of the comparison: the same schedule on a FRESH folder (new seeds) must differ
            wd_f = os.path.join(root, "fresh")
            os.makedirs(wd_f)
            fresh_job = ex.submit(run_schedule, cfg, base, wd_f, repo)
            # ... while the same-folder reruns go sequentially through folder A
            seq = [do(item, wd_a) for item in plan if item[3] == "A"]
            done = seq + [j.result() for j in jobs]
            fresh = fresh_job.result()
        ctx.traces += 1
        if fresh.rc == 0 and compare(ref, fresh, "same") is not None:
            ctx.count("fresh_folder_differs")
            ctx.nontrivial.add("sensitivity:fresh-folder-differs")
        else:
            ctx.count("fresh_folder_identical_or_failed")
            if fresh.rc != 0:
                ctx.extra.setdefault("fresh_run_failures", []).append({"config": label, "rc": fresh.rc, "log_tail": fresh.log[-1500:]})
            ctx.note(f"{label}: a run on a fresh generator folder did not differ from the reference (rc={fresh.rc}): "
                     "the byte comparison of this configuration is not shown to be sensitive to the seeds")
        # pool rerun: same pool schedule twice in one folder (uses a copy folder sequentially)
        for (item, r) in done:
            lab, rel, sched, where = item
            ctx.traces += 1
            if r.rc != 0:
                # the reference schedule ran through on this very generator folder: a schedule that raises is a difference
                ctx.evaluations += 1
                ctx.violate(f"C12:{rel}:{'debug' if sched['debug'] else 'pool'}:run-crashed",
                            f"schedule [{sched_str(sched)}] raised (rc={r.rc}) on the generator folder on which [{sched_str(base)}] ran through",
                            {"cfg": cfg, "schedule_a": base, "schedule_b": sched, "relation": rel,
                             "first_difference": {"file": "<run crashed>", "kind": "run-crashed", "diff": {"log_tail": r.log[-1500:]}}})
                results.append((lab, rel, sched, {"file": "<run crashed>", "kind": "run-crashed"}))
                continue
            check_monitor(ctx, r, tables, lab)
            d = compare(ref, r, rel)
            ctx.evaluations += 1
            ctx.count(f"compared:{rel}")
            ctx.nontrivial.add(f"{rel}:{'debug' if sched['debug'] else 'pool'}:{len(sched['order'])}")
            results.append((lab, rel, sched, d))
            if d is not None:
                sig = f"C12:{rel}:{'debug' if sched['debug'] else 'pool'}:{d['kind']}"
                ctx.violate(sig, f"outputs differ between schedule [{sched_str(base)}] and [{sched_str(sched)}] "
                                 f"on the same generator folder: first differing file {d['file']}",
                            {"cfg": cfg, "schedule_a": base, "schedule_b": sched, "relation": rel,
                             "first_difference": d})
        # same pool schedule twice (rerun in pool mode) on the copy of the first pool run
        pool_items = [(i, it) for i, it in enumerate(plan) if it[1] == "workers"]
        if pool_items:
            i, it = pool_items[-1]
            wd = os.path.join(root, f"c{i}")
            first = next(r for (item, r) in done if item is it)
            again = run_schedule(cfg, it[2], wd, repo=repo) if first.rc == 0 else first
            ctx.traces += 1
            if again.rc != 0:
                d = None
                if first.rc == 0:
                    d = {"file": "<run crashed>", "kind": "run-crashed", "diff": {"log_tail": again.log[-1500:]}}
            else:
                d = compare(first, again, "same")
            ctx.evaluations += 1
            ctx.count("compared:same-pool")
            ctx.nontrivial.add("same:pool")
            if d is not None:
                sig = f"C12:same:pool:{d['kind']}"
                ctx.violate(sig, f"two runs of the same pool schedule [{sched_str(it[2])}] on one generator folder differ: {d['file']}",
                            {"cfg": cfg, "schedule_a": it[2], "schedule_b": it[2], "relation": "same", "first_difference": d})
        ctx.sample({"config": label, "programs": progs, "ndays": (W.date(*cfg["end"]) - W.date(*cfg["start"])).days + 1,
                    "n_sims": cfg["n_sims"], "features": feat,
                    "wide_applied": [[a["tag"], ".".join(str(x) for x in a["path"][1:]), a["value"] if not isinstance(a["value"], dict) else "<block>"]
                                     for a in wa],
                    "schedules": [sched_str(s) for (_, _, s, _) in results],
                    "differences": [[lab, d["file"]] for (lab, _, _, d) in results if d]})
    finally:
        shutil.rmtree(root, ignore_errors=True)
    return results


# ------------------------------------------------------------------------------------------------
# history stage: the generator folder still holds the daily seed series of ANOTHER period of the same length
# ------------------------------------------------------------------------------------------------
def history_configs(rng, full_year=False, after_leap_day=False):
    """period A and period B = A shifted by one year with the same number of days, disjoint dates"""
    if full_year:
        y = rng.choice([2021, 2022])
        cfg = c12_config(rng, 365, 3, 1, four="three", start=[y, 1, 1])
    elif after_leap_day:
        y = 2024
        cfg = c12_config(rng, 90, 4, 1, four=False, start=[y, 3, 1])
    else:
        cfg = c12_config(rng, rng.choice([60, 80]), 4, 1, four=False)
        y = rng.choice([2021, 2022])          # 2021, 2022, 2023 are not leap years
    st = W.date(y, cfg["start"][1], 1)
    n = (W.date(*cfg["end"]) - W.date(*cfg["start"])).days
    a, b = json.loads(json.dumps(cfg)), json.loads(json.dumps(cfg))
    for c, year in ((a, y), (b, y + 1)):
        s0 = W.date(year, st.month, 1)
        e0 = s0 + W.timedelta(days=n)
        c["start"], c["end"] = [s0.year, s0.month, s0.day], [e0.year, e0.month, e0.day]
    return a, b


def history_run(cfg_a, cfg_b, repo=None):
    """returns (difference or None, seed-series problem or None, the three runs); touches no shared state (runs in a
    worker thread next to the differential configurations)"""
    import pickle

    progs = [p["name"] for p in cfg_b["programs"]]
    base = {"order": progs, "debug": True, "processes": 1}
    root0 = tempfile.mkdtemp(prefix="ldarverif_c12h_")
    try:
        for attempt in range(4):
            # fresh seeds per attempt: a scenario on which the simulator itself raises is skipped (see differential)
            root = os.path.join(root0, f"h{attempt}")
            os.makedirs(root)
            ra = run_schedule(cfg_a, base, root, repo=repo)
            if ra.rc != 0:
                continue
            rb1 = run_schedule(cfg_b, base, root, repo=repo)
            if rb1.rc == 0:
                break
        if ra.rc != 0 or rb1.rc != 0:
            raise core.InfraError(f"history stage: simulator failed 4 times\n{(ra.log if ra.rc else rb1.log)[-3000:]}")
        series_problem = None
        pth = os.path.join(root, "inputs", "generator", "preseed.p")
        try:
            with open(pth, "rb") as fh:
                series = pickle.load(fh)
            s0, e0 = W.date(*cfg_b["start"]), W.date(*cfg_b["end"])
            want = {s0 + W.timedelta(days=i) for i in range((e0 - s0).days + 1)}
            have = set(series)
            if have != want:
                series_problem = {"saved_series_first": str(min(have)) if have else None, "saved_series_last": str(max(have)) if have else None,
                                  "saved_series_days": len(have), "period_b": [str(s0), str(e0)],
                                  "simulated_days_without_seed": len(want - have)}
        except Exception as e:
            series_problem = {"unreadable": repr(e)}
        rb2 = run_schedule(cfg_b, base, root, repo=repo)
        for r, lab in ((ra, "period A"), (rb1, "period B first run"), (rb2, "period B second run")):
            if r.rc != 0:
                raise core.InfraError(f"history stage: {lab} failed rc={r.rc}\n{r.log[-3000:]}")
        d = compare(rb1, rb2, "same")
        for r in (ra, rb1, rb2):
            r.files = {}   # outputs are not needed any more
        return d, series_problem, [ra, rb1, rb2]
    finally:
        shutil.rmtree(root0, ignore_errors=True)


def history_record(ctx, tables, cfg_a, cfg_b, result):
    d, sp, runs = result
    for r in runs:
        check_monitor(ctx, r, tables, "history")
    ctx.traces += 3
    ctx.evaluations += 2
    ctx.count("history:same-length-period")
    ctx.nontrivial.add("history:folder-holds-seed-series-of-another-period-of-equal-length")
    inp = {"history": {"cfg_a": cfg_a, "cfg_b": cfg_b}, "period_a": [cfg_a["start"], cfg_a["end"]],
           "period_b": [cfg_b["start"], cfg_b["end"]]}
    if sp is not None:
        ctx.violate("C12:history:seed-series-does-not-cover-period",
                    "after a run of period B on a generator folder that held the daily seed series of period A (same number of days), "
                    "the saved series does not cover exactly B's dates", dict(inp, seed_series=sp))
    if d is not None:
        ctx.violate(f"C12:history:same-length-period:rerun-differs:{d['kind']}",
                    f"generator folder written for period A, then the same inputs for period B (same length) run twice on it: outputs differ, "
                    f"first differing file {d['file']}", dict(inp, first_difference=d))
    ctx.sample({"history": "period A then period B twice on one generator folder", "period_a": inp["period_a"], "period_b": inp["period_b"],
                "difference": None if d is None else d["file"], "seed_series_problem": sp})


# ------------------------------------------------------------------------------------------------
# run-after stage: the SAME configuration in a fresh folder vs in a folder used before by a DIFFERENT configuration
# ------------------------------------------------------------------------------------------------
PRESEED_FILES = ("emis_preseed.p", "preseed.p")
SEEDS_REDRAWN = ("period-start", "period-end")   # the earlier run's period differs: the daily seed series is redrawn


def run_after_plan(ctx):
    """(cfg, [(cfg_prev, what_differs)]) - everything random drawn in the main thread"""
    cfg = c12_config(ctx.rng, ctx.pick(40, 60), 4, 2, four=ctx.rng.choice(["three", False]), dist=True)
    out, seen = [], set()
    want = ctx.pick(1, 5)
    # one variant whose PERIOD differs (the kind of history a narrowed generator-cache key gets wrong), the others of
    # pairwise different kinds
    for _ in range(200):
        if len(out) >= want:
            break
        prev, what = W.prev_variant(cfg, ctx.rng)
        if what in seen:
            continue
        if not out and what not in SEEDS_REDRAWN:
            continue
        if out and what in SEEDS_REDRAWN and any(w in SEEDS_REDRAWN for _, w in out) and ctx.quick:
            continue
        seen.add(what)
        out.append((prev, what))
    # the folder was used before with FEWER simulations: the added scenario is generated in a later process, from the
    # infrastructure unpickled from the generator folder, and must still be the one the persisted seeds define
    grown = json.loads(json.dumps(cfg))
    grown["n_sims"] = cfg["n_sims"] - 1
    grown.pop("wide_applied", None)
    out.append((grown, "n-sims-grown"))
    return cfg, out


def scenario_rows(run, baseline="P_none"):
    """what the emission seeds alone determine: the generated emissions of every simulation, read from the baseline
    program's records (id, place, start, true rate, repairable) - independent of the daily seed series"""
    keep = ("Emissions ID", "Site ID", "Equipment", "Component", "Date Began", '"True" Rate (g/s)', "Repairable")
    out = {}
    for rel, b in run.files.items():
        if rel.startswith(baseline + os.sep) and rel.endswith("_emissions_summary.csv"):
            out[rel] = sorted(tuple(r.get(k) for k in keep) for r in _csv(b))
    return out


def run_after_run(cfg, variants, repo=None):
    """reference: cfg in a fresh folder F1.  For every variant: a folder that starts with F1's two seed files only,
    cfg_prev is run in it, then cfg; the second run is compared with the reference.  Pure (no ctx)."""
    progs = [p["name"] for p in cfg["programs"]]
    base = {"order": progs, "debug": True, "processes": 1}
    root = tempfile.mkdtemp(prefix="ldarverif_c12a_")
    res = {"ref_rc": None, "items": [], "ref_log": ""}
    try:
        for attempt in range(4):
            f1 = os.path.join(root, f"F1_{attempt}")
            os.makedirs(f1)
            ref = run_schedule(cfg, base, f1, repo=repo)
            if ref.rc == 0:
                break
        res["ref_rc"], res["ref_log"] = ref.rc, ref.log[-2000:]
        if ref.rc != 0:
            return res
        ref_scen = scenario_rows(ref)

        def one(k, prev, what):
            wd = os.path.join(root, f"u{k}")
            gen = os.path.join(wd, "inputs", "generator")
            os.makedirs(gen)
            for f in PRESEED_FILES:
                shutil.copy(os.path.join(f1, "inputs", "generator", f), os.path.join(gen, f))
            r0 = run_schedule(prev, base, wd, repo=repo)
            r = run_schedule(cfg, base, wd, repo=repo)
            item = {"what": what, "prev_rc": r0.rc, "rc": r.rc, "monitor": r.monitor, "log": r.log[-1500:] if r.rc else "",
                    "diff": None, "compared": None}
            if r.rc == 0:
                if what in SEEDS_REDRAWN:
                    # the daily seed series was redrawn (twice): only the scenario fixed by the emission seeds must agree,
                    # and the run must be reproducible on the folder as it now is
                    item["compared"] = "scenario rows of the baseline program + rerun bytes"
                    sc = scenario_rows(r)
                    if sc != ref_scen:
                        bad = next(k_ for k_ in sorted(set(sc) | set(ref_scen)) if sc.get(k_) != ref_scen.get(k_))
                        item["diff"] = {"file": bad, "kind": "scenario", "diff": {"rows_fresh": len(ref_scen.get(bad, [])), "rows_after": len(sc.get(bad, []))}}
                    else:
                        r2 = run_schedule(cfg, base, wd, repo=repo)
                        item["diff"] = compare(r, r2, "same") if r2.rc == 0 else {"file": "<run crashed>", "kind": "run-crashed", "diff": {"log_tail": r2.log[-1500:]}}
                else:
                    item["compared"] = "every per-program file and the three summaries, byte for byte"
                    item["diff"] = compare(ref, r, "same")
            return item

        with ThreadPoolExecutor(max_workers=4) as ex:
            jobs = [ex.submit(one, k, prev, what) for k, (prev, what) in enumerate(variants)]
            res["items"] = [j.result() for j in jobs]
        return res
    finally:
        shutil.rmtree(root, ignore_errors=True)


def run_after_record(ctx, tables, cfg, variants, res):
    if res["ref_rc"] != 0:
        ctx.broke("run-after stage: the reference configuration raised on 4 freshly seeded folders", res["ref_log"])
        return
    ctx.traces += 1
    for (prev, what), it in zip(variants, res["items"]):
        ctx.traces += 2
        ctx.evaluations += 1
        ctx.count(f"history:{what}")
        ctx.nontrivial.add(f"run-after:{what}")
        if it["prev_rc"] != 0:
            ctx.count("history:earlier-run-stopped")   # a first run that stops does not stop the history
        inp = {"run_after": {"cfg": cfg, "cfg_prev": prev, "what_differs": what}}
        if it["rc"] != 0:
            ctx.violate(f"C12:run-after:{what}:run-crashed",
                        f"the configuration runs through in a fresh folder but raises in a folder used before by a configuration that differs in {what}",
                        dict(inp, first_difference={"file": "<run crashed>", "kind": "run-crashed", "diff": {"log_tail": it["log"]}}))
            continue
        fake = Run({"order": [p["name"] for p in cfg["programs"]], "debug": True, "processes": 1}, 0, "", {}, it["monitor"], 0)
        check_monitor(ctx, fake, tables, "run-after")
        if it["diff"] is not None:
            d = it["diff"]
            ctx.violate(f"C12:run-after:{what}:{d['kind']}",
                        f"same configuration, same seed files: outputs in a fresh folder and in a folder used before by a configuration that "
                        f"differs in {what} are not the same ({it['compared']}); first differing file {d['file']}",
                        dict(inp, first_difference=d))
    ctx.sample({"run_after": [[it["what"], it["compared"], None if it["diff"] is None else it["diff"]["file"]] for it in res["items"]]})


# ------------------------------------------------------------------------------------------------
# simulation-count history: n simulations, then fewer, then n again on ONE generator folder, inputs otherwise unchanged
# ------------------------------------------------------------------------------------------------
def counts_plan(ctx):
    out = []
    for (n, m) in ctx.pick([(3, ctx.rng.choice([1, 2]))], [(3, 2), (3, 1), (4, 2)]):
        cfg = c12_config(ctx.rng, ctx.pick(35, 60), 4, n, four=ctx.rng.choice(["three", False]), dist=True)
        out.append((cfg, m))
    return out


def counts_run(cfg, smaller, repo=None):
    """run 1 (n simulations), run 2 (`smaller` simulations), run 3 (n simulations) in one folder; returns the
    difference between run 1 and run 3 (every per-program file of every simulation and the summaries) or None"""
    progs = [p["name"] for p in cfg["programs"]]
    base = {"order": progs, "debug": True, "processes": 1}
    few = json.loads(json.dumps(cfg))
    few["n_sims"] = smaller
    root0 = tempfile.mkdtemp(prefix="ldarverif_c12n_")
    try:
        for attempt in range(4):
            root = os.path.join(root0, f"n{attempt}")
            os.makedirs(root)
            r1 = run_schedule(cfg, base, root, repo=repo)
            if r1.rc == 0:
                break
        if r1.rc != 0:
            return {"rc": [r1.rc], "diff": None, "log": r1.log[-2000:], "monitor": []}
        r2 = run_schedule(few, base, root, repo=repo)
        r3 = run_schedule(cfg, base, root, repo=repo)
        d = None
        if r2.rc != 0 or r3.rc != 0:
            bad = r2 if r2.rc != 0 else r3
            d = {"file": "<run crashed>", "kind": "run-crashed", "diff": {"log_tail": bad.log[-1500:]}}
        else:
            d = compare(r1, r3, "same")
        return {"rc": [r1.rc, r2.rc, r3.rc], "diff": d, "log": "", "monitor": [r1.monitor, r2.monitor, r3.monitor]}
    finally:
        shutil.rmtree(root0, ignore_errors=True)


def counts_record(ctx, tables, cfg, smaller, res):
    n = cfg["n_sims"]
    if res["rc"][0] != 0:
        ctx.broke("simulation-count history: the first run raised on 4 freshly seeded folders", res["log"])
        return
    ctx.traces += 3
    ctx.evaluations += 1
    ctx.count(f"history:sim-count:{n}-{smaller}-{n}")
    ctx.nontrivial.add(f"history:sim-count:{n}-{smaller}-{n}")
    sched = {"order": [p["name"] for p in cfg["programs"]], "debug": True, "processes": 1}
    for mon in res["monitor"]:
        check_monitor(ctx, Run(sched, 0, "", {}, mon, 0), tables, "sim-count-history")
    d = res["diff"]
    if d is not None:
        ctx.violate(f"C12:history:sim-count-n-smaller-n:{d['kind']}",
                    f"one generator folder, inputs unchanged except simulation_count {n} -> {smaller} -> {n}: the first and the third run differ, "
                    f"first differing file {d['file']}",
                    {"counts_history": {"cfg": cfg, "smaller": smaller}, "first_difference": d})
    ctx.sample({"sim_count_history": [n, smaller, n], "dist_sources": sorted(cfg.get("dist_sources") or {}),
                "difference": None if d is None else d["file"]})


# ------------------------------------------------------------------------------------------------
# the Lean model, executed (drv_effects) against an independent Python rendering of the same machine
# ------------------------------------------------------------------------------------------------
def _mix(a, x):
    return (a * 31 + x + 7) % 1000003


def _digest(lst):
    a = len(lst)
    for x in lst:
        a = _mix(a, x)
    return a


def py_exec(reseed, sa, sb, prog, sim, env, copies=True):
    """prog = (prologue, days, epilogue) of ops [tag,a,b]; env = {"sh": {c: [..]}, "rng": [np, std, oth], "objs": {(sim, o): [..]}}"""
    ops = list(prog[0])
    for d, b in enumerate(prog[1]):
        if reseed:
            ops.append([0, d, 0])
        ops += b
    ops += prog[2]
    acc, out = sim + 3, []
    shared_objs = env.setdefault("objs", {})
    own = {o: list(v) for (s_, o), v in shared_objs.items() if s_ == sim} if copies else None
    for tag, a, b in ops:
        if tag == 0:
            env["rng"][0] = sa * sim + a + sb
        elif tag == 1:
            s = (env["rng"][a] * 1103515245 + 12345) % 2147483648
            env["rng"][a] = s
            acc = _mix(acc, s)
        elif tag == 2:
            acc = _mix(acc, _digest(env["sh"].get(a, [])))
        elif tag == 3:
            env["sh"].setdefault(a, []).append(b)
        elif tag == 4:
            acc = _mix(acc, a)
        elif tag == 5:
            out.append(acc)
        elif tag == 6:
            if copies:
                own.setdefault(a, []).append(b)
            else:
                shared_objs.setdefault((sim, a), []).append(b)
        elif tag == 7:
            acc = _mix(acc, _digest(own.get(a, []) if copies else shared_objs.get((sim, a), [])))
    return out


def py_clean(prog):
    def ok(ops, allow_draw=True):
        for tag, a, b in ops:
            if tag == 3:
                return False
            if tag == 1 and (a != 0 or not allow_draw):
                return False
        return True

    return ok(prog[0], False) and all(ok(d) for d in prog[1]) and ok(prog[2], bool(prog[1]))


def _enc(x):
    return json.dumps(x, separators=(",", ":"))


def model_stage(ctx):
    drv = core.LeanDriver("drv_effects")
    if not drv.available():
        ctx.broke("driver drv_effects", "executable missing")
        return
    rng = ctx.rng
    n = ctx.pick(300, 3000)
    lines, cases = [], []

    def rand_ops(k, clean, in_loop):
        ops = []
        for _ in range(rng.randint(0, k)):
            r = rng.random()
            if r < 0.3 and (in_loop or not clean):
                ops.append([1, 0 if clean else rng.choice([0, 0, 1, 2]), 0])
            elif r < 0.45:
                ops.append([2, rng.randint(0, 2), 0])
            elif r < 0.55 and not clean:
                ops.append([3, rng.randint(0, 2), rng.randint(0, 9)])
            elif r < 0.65:
                ops.append([6, rng.randint(0, 2), rng.randint(0, 9)])
            elif r < 0.75:
                ops.append([7, rng.randint(0, 2), 0])
            elif r < 0.85:
                ops.append([4, rng.randint(0, 50), 0])
            else:
                ops.append([5, 0, 0])
        return ops

    for i in range(n):
        clean = rng.random() < 0.5
        progs = []
        for _ in range(rng.randint(1, 4)):
            days = [rand_ops(4, clean, True) for _ in range(rng.randint(1 if clean else 0, 3))]
            progs.append([rand_ops(3, clean, False), days, rand_ops(3, clean, True)])
        reseed = 1 if clean or rng.random() < 0.7 else 0
        workers = []
        for _ in range(rng.randint(1, 3)):
            tasks = [[rng.randrange(len(progs)), rng.randint(0, 2)] for _ in range(rng.randint(0, 4))]
            workers.append([rng.randint(0, 99), rng.randint(0, 99), rng.randint(0, 99), tasks])
        sa, sb = rng.randint(0, 200), rng.randint(0, 50)
        copies = 1 if clean or rng.random() < 0.5 else 0
        lines.append(f"run {reseed} {copies} {sa} {sb} {_enc(progs)} {_enc(workers)}")
        cases.append((reseed, copies, sa, sb, progs, workers, clean))
    replies = drv.run(lines)
    interfered = 0
    stats = {"cases": 0, "clean_schedules": 0, "clean_classes": set()}
    for (reseed, copies, sa, sb, progs, workers, clean), line, rep in zip(cases, lines, replies):
        outs, al = [], []
        for (np_, std, oth, tasks) in workers:
            env = {"sh": {}, "rng": [np_, std, oth]}
            outs.append([py_exec(reseed, sa, sb, progs[i], sim, env, bool(copies)) for i, sim in tasks])
            al.append([py_exec(reseed, sa, sb, progs[i], sim, {"sh": {}, "rng": [0, 0, 0]}, bool(copies)) for i, sim in tasks])
        cl = [1 if py_clean(p) else 0 for p in progs]
        want = f"{_enc(outs)} | {_enc(al)} | {_enc(cl)}"
        stats["cases"] += 1
        if rep != want:
            ctx.disagree("effects-machine", line, rep, want)
            continue
        if all(cl) and reseed and copies:
            stats["clean_schedules"] += 1
            stats["clean_classes"].add(f"{len(workers)}w:{sum(len(w[3]) for w in workers)}t")
            if outs != al:   # would contradict the theorem: report as disagreement of model and proof
                ctx.disagree("effects-machine:noninterference", line, rep, "outputs = alone outputs")
        elif outs != al:
            interfered += 1
    # this stage validates the compiled model against an independent rendering of the same abstract machine; it is
    # NOT a tie to /repo and is therefore reported under its own key, outside evaluations / distinct_nontrivial
    ctx.extra["model_machine_stage"] = {
        "what": "drv_effects (compiled Lean machine) vs Python rendering of the same machine on random programs/schedules; "
                "not counted in evaluations / distinct_nontrivial (it does not touch /repo)",
        "cases": stats["cases"], "clean_schedules_outputs_equal_alone": stats["clean_schedules"],
        "distinct_clean_shapes": len(stats["clean_classes"]), "unclean_schedules_with_interference": interfered}
    if not interfered:
        ctx.note("model stage: no interference observed in the unclean model schedules (sensitivity not shown)")


# ------------------------------------------------------------------------------------------------
# direct check on the real Equipment_Group helper (its whole-run trigger needs method-specific columns
# in the equipment file, which the generated configurations do not have)
# ------------------------------------------------------------------------------------------------
DIRECT_SNIPPET = r"""
import json, sys
from harness import shim
shim.install()
import pandas as pd
from virtual_world.equipment_groups import Equipment_Group
from constants.infrastructure_const import Infrastructure_Constants as IC
C = IC.Equipment_Group_File_Constants
before = list(C.PROPAGATING_PARAMETER_COLUMNS)
eg = Equipment_Group.__new__(Equipment_Group)
info = pd.Series({"equipment": "eq1", "compA": 2, "OGI_survey_time": 30, "AIR_survey_cost": 5.0, "repairable_duration": 10})
outs = [sorted(eg._clean_propagating_parameters_from_equipment_info(info).to_dict().items()) for _ in range(3)]
print(json.dumps({"before": before, "after": list(C.PROPAGATING_PARAMETER_COLUMNS), "outs": [[list(map(str, kv)) for kv in o] for o in outs]}))
"""


def direct_equipment_constant(ctx, repo=None):
    env = dict(os.environ)
    env["PYTHONPATH"] = W.VERIF + os.pathsep + env.get("PYTHONPATH", "")
    env["PYTHONDONTWRITEBYTECODE"] = "1"
    if repo:
        env["LDAR_REPO"] = repo
    p = subprocess.run([W.PY, "-c", DIRECT_SNIPPET], cwd=W.VERIF, env=env, stdout=subprocess.PIPE,
                       stderr=subprocess.PIPE, text=True, timeout=300)
    if p.returncode != 0:
        raise core.InfraError("direct equipment-constant check failed to run:\n" + p.stderr[-2000:])
    d = json.loads(p.stdout.strip().splitlines()[-1])
    ctx.evaluations += 1
    ctx.count("direct_equipment_constant")
    ctx.nontrivial.add("direct:equipment-constant")
    if d["before"] != d["after"]:
        tgt = "constants.infrastructure_const:Infrastructure_Constants.Equipment_Group_File_Constants.PROPAGATING_PARAMETER_COLUMNS"
        ctx.count("monitor_container_changed")
        ctx.extra.setdefault("direct_equipment_constant", {"len_before": len(d["before"]), "len_after": len(d["after"])})
        return tgt, d
    if d["outs"][0] != d["outs"][1] or d["outs"][1] != d["outs"][2]:
        ctx.violate("C12:direct:equipment-clean-up-depends-on-history",
                    "repeated _clean_propagating_parameters_from_equipment_info calls on the same row differ",
                    {"direct": "equipment_constant", "result": d})
    return None, d


# ------------------------------------------------------------------------------------------------
# check entry points
# ------------------------------------------------------------------------------------------------
def table_stage(ctx, repo=None):
    try:
        import warnings

        with warnings.catch_warnings():
            warnings.simplefilter("ignore")
            tables, changed = EX.regenerate(repo)
    except EX.ExtractError as e:
        raise core.InfraError(f"effects extractor: {e}")
    ctx.extra["effects_tables"] = {
        "repo": tables["repo"], "entry": tables["entry"], "reachable_modules": len(tables["reachable_modules"]),
        "excluded_modules": tables["excluded_modules"], "rng_sites": len(tables["rngSites"]),
        "seed_calls": len(tables["seedSites"]), "seed_points": tables["seedPoints"],
        "shared_mutations": tables["sharedMutations"], "table_rewritten": changed, "sha256": tables["sha256"],
        "rng_by_generator": {g: sum(1 for s in tables["rngSites"] if s["gen"] == g)
                             for g in ("numpyGlobal", "stdlibRandom", "other")},
    }
    bad = [s for s in tables["rngSites"] if s["gen"] != "numpyGlobal"]
    if bad:
        ctx.broke("table obligation rng_all_seeded", json.dumps(bad, indent=1))
    if tables["sharedMutations"]:
        ctx.broke("table obligation no_shared_mutation", json.dumps(tables["sharedMutations"], indent=1))
    ctx.extra["effects_tables"].update({
        "prologue_functions": tables["prologueFunctions"], "functions": tables["functions"],
        "prologue_rng_sites": tables["prologueRngSites"], "copy_wiring": tables["copyWiring"],
        "copy_hooks": [[h["cls"], h["hook"], h["deep"]] for h in tables["copyHooks"]],
        "nondet_sites": [[n["file"], n["line"], n["func"], n["kind"]] for n in tables["nondetSites"]],
    })
    if tables["patternErrors"]:
        ctx.broke("table obligation patterns_found (extractor pattern missing; affected entries take their failing default)",
                  json.dumps(tables["patternErrors"], indent=1))
    if tables["prologueRngSites"]:
        ctx.broke("table obligation prologue_clean", json.dumps(tables["prologueRngSites"], indent=1))
    flat = [h for h in tables["copyHooks"] if not h["deep"]]
    if flat or not (tables["copyWiring"]["deepCopies"] and tables["copyWiring"]["usesOnlyCopy"]):
        ctx.broke("table obligation private_copy", json.dumps({"hooks": flat, "wiring": tables["copyWiring"]}, indent=1))
    import re as _re

    lean_src = open(os.path.join(core.LEAN_DIR, FILE)).read()
    reviewed = set(_re.findall(r'\("([^"]+)",\s*"([^"]+)",\s*\.(\w+),', lean_src))
    unrev = [n for n in tables["nondetSites"] if (n["file"], n["func"], n["kind"]) not in reviewed]
    if unrev:
        ctx.broke("table obligation nondet_all_reviewed", json.dumps(unrev, indent=1))
    ctx.extra["side_obligations"] = ["consumers_reseeded: only its day-loop entry is used by theorem C12 (day_loop_reseeds); the emission-"
                                     "generation and infrastructure entries concern the set-up phase that produces the generator folder, "
                                     "which the machine takes as given (Folder)",
                                     "nondet_all_reviewed: a review list (file, function, kind, reason) in Props/C12.lean, not a proof of "
                                     "output-irrelevance; the byte comparison is the back-stop"]
    ctx.extra["effects_tables"]["seed_series_reuse"] = tables["seedSeriesReuse"]
    u = tables["seedSeriesReuse"]
    if not (u["checksLength"] and u["checksStart"] and u["checksEnd"]):
        ctx.broke("table obligation seed_series_reuse_checked", json.dumps(u, indent=1))
    ctx.extra["side_obligations"].append("seed_series_reuse_checked (+ reused_series_covers_period): justify that the machine's Folder.seed is "
                                         "defined for every simulated day; the set-up phase itself is outside the machine")
    unseeded = [p for p in tables["seedPoints"] if not p["seeded"]]
    if unseeded or sum(1 for p in tables["seedPoints"] if p["kind"] == "dayLoop") != 1:
        ctx.broke("table obligation consumers_reseeded", json.dumps(unseeded or tables["seedPoints"], indent=1))
    return tables


def config_plan(ctx):
    """(ndays, n_sites, n_sims, programs variant, keep all program outputs?, start date or None, wide)
    boundary periods are put in on purpose: a leap day inside, a period ending on Dec 31 of a leap year (day-of-year
    366), periods not starting on Jan 1, 1- and 2-day periods (New Year's Eve, Feb 28/29).
    wide: None | WIDE_TAGS (1-3 leaves of wholerun's wide catalogue with the tags relevant here) | True (all tags)"""
    T = WIDE_TAGS
    if ctx.quick:
        # third configuration: two batches of simulations (n_sims = 6) with keep_all False - the merge of the
        # summary files across batches and the clearing of program outputs run in the parent between tasks
        return [(70, 5, 1, True, True, [2024, 2, 1], T), (60, 5, 2, False, True, [2024, 11, 2], True),
                (25, 4, 6, "three", False, None, T), (2, 4, 1, False, True, [2024, 2, 28], None)]
    return [(150, 6, 2, True, True, None, T), (140, 6, 1, True, True, [2024, 1, 15], True), (110, 5, 2, False, True, None, T),
            (120, 6, 3, False, True, [2024, 6, 15], T), (100, 5, 1, True, True, None, True), (80, 5, 6, "three", True, None, T),
            (80, 4, 7, "three", False, None, T), (90, 5, 5, False, True, None, None),
            (1, 4, 2, True, True, [2024, 12, 31], None), (2, 4, 1, False, True, [2024, 12, 30], T), (2, 4, 2, True, True, [2023, 2, 28], None)]


def run(ctx):
    ctx.rule = ("whole runs of the real simulator: per configuration (all stochastic features multi-valued: travel-time "
                "lists, repair cost/delay lists, sampling/uniform/normal quantification error, spatial and temporal "
                "coverage < 1, probabilistic OGI sensors, weather) one reference run creates the generator folder, then "
                "the schedules {same inputs again (sequential, and the same pool schedule twice), pool sizes, permuted "
                "program order (sequential and pool), subsets containing the baseline} run on that folder / copies of it; "
                "one evaluation = one byte comparison of all per-program files + 3 summaries of a schedule against the "
                "reference; non-trivial = distinct (relation, mode, #programs) classes, stochastic features seen active "
                "in the reference outputs, and distinct clean model schedules (drv_effects vs Python rendering)")
    repo = os.environ.get("LDAR_REPO") or None
    t_stage = {"t0": time.time()}

    def lap(name):
        now = time.time()
        ctx.extra.setdefault("stage_seconds", {})[name] = round(now - t_stage["t0"], 1)
        t_stage["t0"] = now

    extractor_selftest(ctx)
    tables = table_stage(ctx, repo)
    lap("extractor")
    try:
        core.lean_stage(ctx, MODULE, FILE, drivers=["drv_effects"])
    finally:
        if repo and os.path.abspath(repo) != "/repo":
            # the table file is shared: after a run against a scratch copy put the real tree's table back
            try:
                EX.regenerate("/repo")
            except Exception:
                pass
    lap("lean")
    model_stage(ctx)
    tgt, d = direct_equipment_constant(ctx, repo)
    lap("model+direct")
    if tgt is not None and tgt not in {m["target"] for m in tables["sharedMutations"]}:
        ctx.disagree("effects-table:sharedMutations", {"direct": "equipment_constant", "container": tgt},
                     "not listed as mutated", f"grew from {len(d['before'])} to {len(d['after'])} entries in three calls")
    hist_cfgs = history_plan(ctx)
    ra_cfg, ra_variants = run_after_plan(ctx)
    cnt_plan = counts_plan(ctx)
    # everything random is drawn here, in the main thread; the runs then go concurrently (own folders, own
    # sub-context each) and are merged in a fixed order
    todo = []
    for i, (ndays, n_sites, n_sims, four, keep_all, start, wide) in enumerate(config_plan(ctx)):
        cfg = c12_config(ctx.rng, ndays, n_sites, n_sims, four, keep_all, start, wide)
        todo.append((f"cfg{i}", cfg, make_plan(ctx, cfg), core.Ctx(ctx.prop, ctx.tier, ctx.seed)))
    with ThreadPoolExecutor(max_workers=ctx.pick(4, 3)) as cex, ThreadPoolExecutor(max_workers=3) as hex_:
        hist_jobs = [hex_.submit(history_run, a, b, repo) for a, b in hist_cfgs]
        ra_job = hex_.submit(run_after_run, ra_cfg, ra_variants, repo)
        cnt_jobs = [hex_.submit(counts_run, c, m, repo) for c, m in cnt_plan]
        jobs = [cex.submit(differential, sub, cfg, tables, repo, lab, planned) for (lab, cfg, planned, sub) in todo]
        errs = []
        for (lab, cfg, planned, sub), j in zip(todo, jobs):
            try:
                j.result()
            except subprocess.TimeoutExpired:
                raise
            except Exception as e:   # a harness-side failure in one configuration does not hide the others
                errs.append((lab, e))
                sub.broke(f"differential stage of {lab} failed in the harness", repr(e))
            merge_ctx(ctx, sub)
            ctx.extra.setdefault("stage_seconds", {})[lab] = round(time.time() - t_stage["t0"], 1)
        for (a, b), j in zip(hist_cfgs, hist_jobs):
            history_record(ctx, tables, a, b, j.result())
        run_after_record(ctx, tables, ra_cfg, ra_variants, ra_job.result())
        for (c, m), j in zip(cnt_plan, cnt_jobs):
            counts_record(ctx, tables, c, m, j.result())
        lap("whole runs (configurations and history concurrently)")
    ctx.assumptions.append("C12: effect analysis is syntactic (import-closure reachability, aliases through parameters not seen); "
                           "OS scheduling, multiprocessing pickling and float formatting are covered by the differential runs only")
    ctx.extra["ignored_in_comparison"] = ["Logs/*", "parameters.yaml: input_directory/output_directory lines always, processes_count line "
                                          "between different worker counts, whole file for permuted order and subsets",
                                          "row order of the three summary CSVs between different schedules and between two pool runs"]


def merge_ctx(ctx, sub):
    ctx.evaluations += sub.evaluations
    ctx.traces += sub.traces
    ctx.nontrivial |= sub.nontrivial
    for k, v in sub.counts.items():
        ctx.count(k, v)
    ctx.violations += sub.violations
    ctx.disagreements += sub.disagreements
    ctx.broken += sub.broken
    ctx.notes += sub.notes
    for x in sub.samples:
        ctx.sample(x, cap=12)
    for k, v in sub.extra.items():
        if isinstance(v, list):
            ctx.extra.setdefault(k, []).extend(v)
        else:
            ctx.extra[k] = v


def history_plan(ctx):
    """(cfg_a, cfg_b) pairs: B = A shifted by exactly one year with the same number of days"""
    out = [history_configs(ctx.rng)]
    if not ctx.quick:
        out.append(history_configs(ctx.rng, full_year=True))      # one whole non-leap year, then the next one
        out.append(history_configs(ctx.rng, after_leap_day=True))  # 2024-03-01.. and 2025-03-01..: a leap year, same length
    return out


def replay(ctx, data):
    inp = data.get("input", {})
    repo = os.environ.get("LDAR_REPO") or None
    if inp.get("direct") == "equipment_constant":
        tgt, d = direct_equipment_constant(ctx, repo)
        print("direct equipment constant:", "MUTATED" if tgt else "unchanged", d["outs"][0])
        return 1 if (tgt or ctx.violations) else 0
    if "counts_history" in inp:
        ch = inp["counts_history"]
        res = counts_run(ch["cfg"], ch["smaller"], repo)
        n = ch["cfg"]["n_sims"]
        print(f"one generator folder, simulation_count {n} -> {ch['smaller']} -> {n}; return codes", res["rc"])
        if res["diff"] is None:
            print("run 1 and run 3 are byte-identical" if len(res["rc"]) == 3 else "first run failed: " + res["log"][-800:])
            return 0 if len(res["rc"]) == 3 else 1
        print("first differing file between run 1 and run 3:", res["diff"]["file"], "kind:", res["diff"]["kind"])
        print(json.dumps(res["diff"]["diff"], indent=1))
        return 1
    if "run_after" in inp:
        ra = inp["run_after"]
        res = run_after_run(ra["cfg"], [(ra["cfg_prev"], ra["what_differs"])], repo)
        it = res["items"][0] if res["items"] else None
        print("same configuration in a fresh folder vs in a folder used before by a configuration that differs in", ra["what_differs"])
        if it is None:
            print("reference run failed:", res["ref_log"][-800:])
            return 1
        if it["rc"] != 0:
            print("the run in the used folder raised:", it["log"])
            return 1
        print("compared:", it["compared"])
        if it["diff"] is None:
            print("no difference")
            return 0
        print("first differing file:", it["diff"]["file"], "kind:", it["diff"]["kind"])
        print(json.dumps(it["diff"]["diff"], indent=1))
        return 1
    if "history" in inp:
        d, sp, _ = history_run(inp["history"]["cfg_a"], inp["history"]["cfg_b"], repo)
        print("period A", inp["period_a"], "then period B", inp["period_b"], "twice on the same generator folder")
        print("saved seed series vs period B:", "covers exactly B" if sp is None else json.dumps(sp))
        if d is None:
            print("the two runs of period B are byte-identical")
        else:
            print("first differing file:", d["file"], "kind:", d["kind"])
            print(json.dumps(d["diff"], indent=1))
        return 1 if (d is not None or sp is not None) else 0
    if "cfg" not in inp:
        print("replay: broken obligation / correspondence:", json.dumps(data.get("broken_obligations"), indent=1)[:3000],
              json.dumps(data.get("correspondence_disagreements"), indent=1)[:3000])
        return 1
    cfg, sa, sb, rel = inp["cfg"], inp["schedule_a"], inp["schedule_b"], inp["relation"]
    root = tempfile.mkdtemp(prefix="ldarverif_c12r_")
    try:
        wa = os.path.join(root, "A")
        os.makedirs(wa)
        ra = run_schedule(cfg, sa, wa, repo=repo)
        if rel == "same":
            if not sa["debug"]:
                ra = run_schedule(cfg, sa, wa, repo=repo)  # first run created the folder; compare 2nd and 3rd
            rb = run_schedule(cfg, sb, wa, repo=repo)
        else:
            wb = os.path.join(root, "B")
            os.makedirs(wb)
            copy_inputs(wa, wb)
            rb = run_schedule(cfg, sb, wb, repo=repo)
        print("schedule a:", sched_str(sa), "rc", ra.rc)
        print("schedule b:", sched_str(sb), "rc", rb.rc)
        if ra.rc == 0 and rb.rc != 0:
            print("schedule b raised on the generator folder on which schedule a ran through:")
            print(rb.log[-1500:])
            return 1
        d = compare(ra, rb, rel)
        if d is None:
            print("no difference (every per-program file and the three summaries equal)")
            return 0
        print("first differing file:", d["file"], "kind:", d["kind"])
        print(json.dumps(d["diff"], indent=1))
        return 1
    finally:
        shutil.rmtree(root, ignore_errors=True)


# ------------------------------------------------------------------------------------------------
# extractor self-test: a synthetic source tree with one instance of every pattern the extractor claims to see
# ------------------------------------------------------------------------------------------------
SELFTEST_FILES = {
    "ldar_sim_run.py": "from simulation_stub import go\nimport ldar_sim\nfrom initialization import initialize_emissions, initialize_infrastructure\nfrom simulation.simulation_helpers import simulate\n",
    "ldar_sim.py": (
        "import numpy as np\n"
        "class LdarSim:\n"
        "    def run_simulation(self):\n"
        "        while not self.done():\n"
        "            if self._preseed:\n"
        "                np.random.seed(1)\n"
        "            self.step()\n"),
    "initialization/__init__.py": "",
    "initialization/initialize_emissions.py": (
        "import numpy as np\n"
        "def initialize_emissions(n, infra, preseed):\n"
        "    for i in range(n):\n"
        "        infra.generate_emissions(i)\n"          # NOT seeded first -> seeded false
        "    for i in range(n):\n"
        "        if preseed:\n"
        "            np.random.seed(i)\n"
        "        infra.generate_emissions(i)\n"
        "    for i in range(n):\n"
        "        if preseed:\n"
        "            np.random.seed(preseed.get(i))\n"      # may be None -> seeded false
        "        infra.generate_emissions(i)\n"),
    "initialization/preseed.py": (
        "def gen_seed_timeseries(sim_start_date, sim_end_date, gen_dir, force_remake=False):\n"
        "    seed_ts_dict = load(gen_dir)\n"
        "    n_days = (sim_end_date - sim_start_date).days + 1\n"
        "    if len(seed_ts_dict) == n_days and sim_end_date in seed_ts_dict:\n"   # start test missing
        "        return seed_ts_dict\n"
        "    return {}\n"),
    "initialization/initialize_infrastructure.py": (
        "import numpy as np\n"
        "from worldstub import Infrastructure\n"
        "def initialize_infrastructure(p):\n"
        "    if p:\n"
        "        np.random.seed(0)\n"
        "        infra = Infrastructure(1)\n"
        "    else:\n"
        "        infra = Infrastructure(2)\n"
        "    return infra\n"),
    "worldstub.py": "class Infrastructure:\n    def __init__(self, x):\n        self.x = x\n",
    "consts.py": (
        "COLS = ['a']\n"
        "NAME = 'x'\n"
        "class K:\n"
        "    D = {'a': 1}\n"
        "    class Inner:\n"
        "        L = [1]\n"),
    "simulation_stub.py": (
        "import random\n"
        "import random as rnd\n"
        "from random import choice as pick\n"
        "import numpy as np\n"
        "import numpy\n"
        "from numpy import random as nr\n"
        "from numpy.random import binomial\n"
        "from scipy import stats\n"
        "import consts\n"
        "from consts import COLS, K as KK\n"
        "COUNTER = 0\n"
        "CACHE = {}\n"
        "def go(df, dist):\n"
        "    a = random.random()\n"                      # stdlib
        "    b = rnd.randint(1, 2)\n"                    # stdlib
        "    c = pick([1, 2])\n"                         # stdlib
        "    d = np.random.normal()\n"                   # numpy
        "    e = numpy.random.rand()\n"                  # numpy
        "    f = nr.choice([1])\n"                       # numpy
        "    g = binomial(1, 0.5)\n"                     # numpy
        "    h = dist.rvs()\n"                           # numpy (scipy)
        "    i = df.sample(2)\n"                         # numpy (pandas)
        "    j = df.sample(2, random_state=3)\n"         # other
        "    k = np.random.default_rng(1)\n"             # other
        "    l = random.Random(2)\n"                     # other
        "    return a\n"
        "def mutate(x=[]):\n"
        "    global COUNTER\n"
        "    COUNTER += 1\n"                             # global+=
        "    COLS.append('b')\n"                         # imported module-level list
        "    consts.K.D['z'] = 1\n"                      # class-level dict through module attribute
        "    KK.Inner.L.extend([2])\n"                   # nested class through alias
        "    cols = consts.COLS\n"
        "    cols.insert(0, 'c')\n"                      # local alias
        "    del CACHE['q']\n"                           # del on module-level dict
        "    x.append(1)\n"                              # mutable default
        "    local = []\n"
        "    local.append(1)\n"                          # NOT shared
        "    consts.NAME = 'y'\n"                        # module attribute rebinding
        "class Comp:\n"
        "    SHARED = {}\n"
        "    def setup(self, m):\n"
        "        self.d = KK.D\n"
        "        self.d.update(m)\n"                     # self alias of a class-level dict
        "    def other(self):\n"
        "        self.SHARED.clear()\n"                  # class-level through self
        "        self.own = {}\n"
        "        self.own.update({1: 2})\n"              # NOT shared
        "    @classmethod\n"
        "    def cm(cls):\n"
        "        cls.SHARED['k'] = 1\n"
        "from dataclasses import dataclass, field\n"
        "@dataclass\n"
        "class Rep:\n"
        "    items: list = field(default_factory=list)\n"
        "    HID = []\n"
        "    def __post_init__(self):\n"
        "        self.HID = []\n"
        "    def add(self, x):\n"
        "        self.items.append(x)\n"                # NOT shared (dataclass field)
        "        self.HID.append(x)\n"),                # NOT shared (instance attribute hides the class-level list)
    "unreachable_mod.py": "import random\nX = []\ndef f():\n    X.append(random.random())\n",
    "simulation/__init__.py": "",
    "simulation/simulation_helpers.py": (
        "import copy\n"
        "from ldar_sim import LdarSim\n"
        "from progstub import Program\n"
        "def simulate(weather, infrastructure, lock):\n"
        "    infra = copy.deepcopy(infrastructure)\n"
        "    program = Program(infra)\n"
        "    simulation = LdarSim()\n"
        "    simulation.run_simulation()\n"),
    "progstub.py": (
        "import numpy as np\n"
        "import os, datetime\n"
        "SHARED = {}\n"
        "class Program:\n"
        "    def __init__(self, infra):\n"
        "        self.cfg = {}\n"
        "        self.cfg.update({1: 2})\n"              # builtin receiver: NOT linked to Other.update
        "        self.roll = helper()\n"
        "    def daily(self):\n"
        "        return np.random.rand()  #@daily\n"     # reachable only from the day loop: not prologue
        "class Other:\n"
        "    def update(self, x):\n"
        "        return np.random.normal()  #@other\n"   # not prologue (dict.update is not Other.update)
        "def helper():\n"
        "    return np.random.binomial(1, 0.5)  #@helper\n"   # prologue
        "class Flat:\n"
        "    def __deepcopy__(self, memo):  #@flat\n"
        "        return self\n"
        "class Closed:\n"
        "    def __reduce__(self):  #@closed\n"
        "        return (self.__class__._rebuild, (self.a,))\n"
        "    @classmethod\n"
        "    def _rebuild(cls, a):\n"
        "        o = cls.__new__(cls)\n"
        "        o.a = a\n"
        "        return o\n"
        "class Leaky:\n"
        "    def __reduce__(self):  #@leaky\n"
        "        return (self.__class__._rebuild, (self.a,))\n"
        "    @classmethod\n"
        "    def _rebuild(cls, a):\n"
        "        o = cls.__new__(cls)\n"
        "        o.a = SHARED\n"
        "        return o\n"
        "from functools import lru_cache\n"
        "@lru_cache(maxsize=None)\n"
        "def cached(x):  #@memo\n"                       # process-wide memo cache: listed as shared state
        "    return x\n"
        "def nd(p):\n"
        "    for x in set(p):  #@nd1\n"
        "        pass\n"
        "    s = {1, 2}\n"
        "    y = list(s)  #@nd2\n"
        "    z = sorted(set(p))\n"                        # order-free: not listed
        "    os.listdir('.')  #@nd3\n"
        "    datetime.datetime.now()  #@nd4\n"
        "    return id(p)  #@nd5\n"),
}

SELFTEST_EXPECT = {
    "rng": sorted([("simulation_stub.py", 14, "stdlibRandom"), ("simulation_stub.py", 15, "stdlibRandom"),
                   ("simulation_stub.py", 16, "stdlibRandom"), ("simulation_stub.py", 17, "numpyGlobal"),
                   ("simulation_stub.py", 18, "numpyGlobal"), ("simulation_stub.py", 19, "numpyGlobal"),
                   ("simulation_stub.py", 20, "numpyGlobal"), ("simulation_stub.py", 21, "numpyGlobal"),
                   ("simulation_stub.py", 22, "numpyGlobal"), ("simulation_stub.py", 23, "other"),
                   ("simulation_stub.py", 24, "other"), ("simulation_stub.py", 25, "other")]),
    "mut": sorted([("simulation_stub.py", 29, "simulation_stub:COUNTER", "global+="),
                   ("simulation_stub.py", 30, "consts:COLS", ".append"),
                   ("simulation_stub.py", 31, "consts:K.D", "[]="),
                   ("simulation_stub.py", 32, "consts:K.Inner.L", ".extend"),
                   ("simulation_stub.py", 34, "consts:COLS", ".insert"),
                   ("simulation_stub.py", 35, "simulation_stub:CACHE", "del[]"),
                   ("simulation_stub.py", 36, "simulation_stub:mutate(<default x>)", ".append"),
                   ("simulation_stub.py", 39, "consts:NAME", "attr="),
                   ("simulation_stub.py", 44, "consts:K.D", ".update"),
                   ("simulation_stub.py", 46, "simulation_stub:Comp.SHARED", ".clear"),
                   ("simulation_stub.py", 51, "simulation_stub:Comp.SHARED", "[]=")]),
    "points": sorted([("ldar_sim.py", "dayLoop", True), ("initialization/initialize_emissions.py", "emissionLoop", False),
                      ("initialization/initialize_emissions.py", "emissionLoop", False),
                      ("initialization/initialize_emissions.py", "emissionLoop", True),
                      ("initialization/initialize_infrastructure.py", "infrastructure", True),
                      ("initialization/initialize_infrastructure.py", "infrastructure", False)]),
}


def extractor_selftest(ctx):
    root = tempfile.mkdtemp(prefix="ldarverif_c12x_")
    try:
        src = os.path.join(root, "LDAR_Sim", "src")
        for rel, text in SELFTEST_FILES.items():
            p = os.path.join(src, rel)
            os.makedirs(os.path.dirname(p), exist_ok=True)
            with open(p, "w") as fh:
                fh.write(text)
        t = EX.Extractor(root).run().tables()
        def ln(tag):
            return 1 + next(i for i, l in enumerate(SELFTEST_FILES["progstub.py"].split("\n")) if l.endswith("#@" + tag))

        exp2 = {
            "prologue": [("progstub.py", ln("helper"))],
            "hooks": sorted([("Flat", "__deepcopy__", False), ("Closed", "__reduce__", True), ("Leaky", "__reduce__", False)]),
            "wiring": (True, True),
            "reuse": (True, False, True),
            "none_arg": ["preseed.get(i)"],
            "nondet": sorted([(ln("nd1"), "setIteration"), (ln("nd2"), "setIteration"), (ln("nd3"), "dirListing"),
                              (ln("nd4"), "wallClock"), (ln("nd5"), "identity")]),
        }
        got2 = {
            "prologue": [(r["file"], r["line"]) for r in t["prologueRngSites"]],
            "hooks": sorted((h["cls"], h["hook"], h["deep"]) for h in t["copyHooks"]),
            "wiring": (t["copyWiring"]["deepCopies"], t["copyWiring"]["usesOnlyCopy"]),
            "reuse": (t["seedSeriesReuse"]["checksLength"], t["seedSeriesReuse"]["checksStart"], t["seedSeriesReuse"]["checksEnd"]),
            "none_arg": [p["arg"] for p in t["seedPoints"] if p["argMayBeNone"]],
            "nondet": sorted((n["line"], n["kind"]) for n in t["nondetSites"] if n["file"] == "progstub.py"),
        }
        exp2["memo"] = [("progstub.py", ln("memo"), "progstub:cached.<memo cache>", "@lru_cache")]
        got2["memo"] = [(m["file"], m["line"], m["target"], m["op"]) for m in t["sharedMutations"] if m["file"] == "progstub.py"]
        t["sharedMutations"] = [m for m in t["sharedMutations"] if m["file"] != "progstub.py"]
        t["rngSites"] = [r for r in t["rngSites"] if r["file"] != "progstub.py"]
        got = {
            "rng": sorted((r["file"], r["line"], r["gen"]) for r in t["rngSites"]),
            "mut": sorted((m["file"], m["line"], m["target"], m["op"]) for m in t["sharedMutations"]),
            "points": sorted((p["file"], p["kind"], p["seeded"]) for p in t["seedPoints"]),
        }
        ok = True
        for k in exp2:
            if got2[k] != exp2[k]:
                ok = False
                ctx.broke(f"extractor self-test ({k})", json.dumps({"expected": exp2[k], "got": got2[k]}, indent=1, default=str))
        for k in ("rng", "mut", "points"):
            exp = [tuple(x) for x in SELFTEST_EXPECT[k]]
            if got[k] != exp:
                ok = False
                ctx.broke(f"extractor self-test ({k})", json.dumps({"missing": [x for x in exp if x not in got[k]],
                                                                    "unexpected": [x for x in got[k] if x not in exp]}, indent=1))
        if "unreachable_mod" in t["reachable_modules"]:
            ok = False
            ctx.broke("extractor self-test (reachability)", "unreachable_mod counted as reachable")
        # an unparsable file must be a loud failure
        with open(os.path.join(src, "broken.py"), "w") as fh:
            fh.write("x = (\n")
        try:
            EX.Extractor(root)
            ok = False
            ctx.broke("extractor self-test (parse failure)", "unparsable file did not raise")
        except EX.ExtractError:
            pass
        ctx.evaluations += 1
        ctx.count("extractor_selftest_ok" if ok else "extractor_selftest_failed")
        if ok:
            ctx.nontrivial.add("extractor-selftest")
    finally:
        shutil.rmtree(root, ignore_errors=True)
