"""C11 — the daily timeseries and the per-emission records tell the same story.

Lean: Props/C11.lean (ledger, emis_split, emis_active, C11_partial / C11_during_partial,
C11_counterexample / C11_during_counterexample / f4bWitness_day1, counts, reconstruct_em,
reconstruct_new, reconstruct_ended, reconstruct, reconstruct_row, emitting_conventions,
daysEmitting_step).  Model: Model/World.lean.

Tie
 (1) component stage: small random worlds driven through real Component/Source objects (several
     emissions of all four classes per component, tag + detection-only events).  Per day the row the
     real `activate_emissions`/`update_emissions_state` accumulate vs `drv_world rows`; the records the
     real objects produce (`gen_emis_data` order: active then inactive list) vs `drv_world recs`; the
     reconstruction of all eight columns from those records (Python, independent) vs `drv_world recrows`
     (Lean `recRow (records w N)`); the two "emitting" sums (real `is_emitting()` after the update /
     `days_emitting` increments) vs `drv_world emit`.
 (2) whole simulations: the rows of timeseries.csv vs `drv_world` fed with the run's own records and
     logged events; one configuration of every run is forced to have intermittent sources
     (a repairable and a non-repairable one).

Oracles (independent of the model)
 * accumulators on real objects: `EmisInfo.leaks_repaired / leaks_nat_repaired / emis_expired`,
   the activation count and `TsEmisData.active_leaks` of every day equal the status transitions of
   the emission objects the harness observes; active / inactive lists hold each activated emission
   exactly once.
 * ledger and split on the real rows; every column of every row equals the reconstruction from the
   records (start date, end date, end kind, rate, repairability).
 * "active and emitting" (general, discrepancy based): the row's emission sum is compared with the
   sum over active emissions with `is_emitting()` after the update.  Equal: fine.  The difference
   equals the summed rates of active, not emitting *intermittent* emissions: the known finding F4b
   (signature C11:emissions:intermittent-not-emitting).  Anything else: VIOLATION C11:emissions:other.
 * on the two output files alone: ledger per day, per-day New Leaks / Leaks Repaired / Leaks Naturally
   Repaired / Active Leaks from the records, the emission sums with the same discrepancy rule (the
   emitting state of an intermittent record is a function of its activation day and the source's
   on/off durations — validated against the real objects in the component stage), totals.

End-of-day convention.  "Emitting at the end of day n" is read as `is_emitting()` at the moment the
row of day n is written, i.e. *after* the toggle of that day's update (Lean `emittingAfter`).  The
other natural reading, "emitted during day n" (the flag the update finds, which is what
`days_emitting` counts; Lean `emittingDuring`), is one day apart (`emitting_conventions`).  Both are
evaluated; the stored witness (on 1 / off 2, rate 1, day 1) violates both: the emission neither
emitted during day 1 (days_emitting unchanged) nor is it emitting at its end, and the row shows 86.4.
"""
import concurrent.futures as cf
import json
from datetime import timedelta
from fractions import Fraction

from harness import core
from harness.core import LeanDriver
from harness.props import _emission_common as EC

MANIFEST_ENTRY = {
    "text": "Lean theorems over any list of emissions with arbitrary event schedules: ledger (active = previous active + new - repaired - naturally repaired - expired, every day incl. day 0), emis_split and emis_active (daily emissions = summed rates of emissions active at the end of the day, split into mitigable/non-mitigable), counts (new/repaired/naturally repaired/expired summed over the run = record counts, by telescoping), reconstruct_row (the COMPLETE row of every day - new, active, repaired, naturally repaired, expired, the three emission sums - is the function recRow of the records' start date, end date, end kind, rate, repairability; from reconstruct_em, reconstruct_new, reconstruct_ended, proved from the emission invariants, frozen-after-end and monotone-active-days lemmas). The 'active AND emitting' clause is stated under both readings of 'emitting at the end of the day' (flag after the update = is_emitting() when the row is written; flag during the day = what days_emitting counts; emitting_conventions, daysEmitting_step), proved for persistent sources (C11_partial, C11_during_partial) and refuted for intermittent ones on one witness that violates both readings (f4bWitness_day1, C11_counterexample, C11_during_counterexample; known finding F4b). Tied to the code by per-day correspondence on real Component/Source objects (rows, records, Lean-side reconstruction, emitting sums) and by whole-run conformance of timeseries.csv with the model fed by the run's own records and logged events; the oracles check the real accumulators against observed status transitions, recompute every count column of every day from the two output files alone, and judge the emitting clause by its discrepancy. Layer 3 (every run): the methods of the four emission classes are translated from the current source to Lean (harness/extract/py2lean.py, emission_src.py -> Generated/EmissionSrc.lean) and Props/EmissionTie.lean + EmissionOnSource.lean are re-checked: each translated method equals the model's function through the abstraction, iterating them is Emission.run (run_tie), and the C02/C03/C04 statements hold of the translated code; a method outside the translated subset is a note, a failing tie theorem a broken obligation.",
    "design_ref": "DESIGN.md 5.11",
    "note": "trusted: Lean kernel + standard axioms; model tied by sampled correspondence; timeseries.csv writes floats with 5 decimals, so daily emission sums are compared with the exact rational 86.4 x sum(rate) within 2e-5 (rates dyadic); 'expired' has no timeseries column and is derived from the records; the model has no counters (rows are sums of transition indicators), the accumulator code is covered by the accumulator oracle on real objects only",
    "technique": "Lean 4 proofs (per-emission step lemmas summed over the world, telescoping, invariant-based reconstruction) + differential correspondence + direct oracles on real objects and on the two output files",
}
MODULE = "LdarModel.Props.C11"
FILE = "LdarModel/Props/C11.lean"
F4B = "C11:emissions:intermittent-not-emitting"

KINDS = [  # (repairable, intermittent, activeDur, inactiveDur)
    (True, False, 1, 0), (False, False, 1, 0),
    (True, True, 1, 1), (True, True, 2, 1), (True, True, 1, 2), (True, True, 2, 3),
    (False, True, 1, 1), (False, True, 2, 3), (False, True, 1, 2),
    (True, True, 1, 0), (True, True, 0, 1), (False, True, 0, 0),      # zero on / off durations
]
# first simulated days put in on purpose (the model is calendar free: the real date arithmetic — start dates,
# repair / expiry dates, days active before the simulation — must not depend on where the period sits):
# the default of the adapter, two days before New Year of a leap year, Feb 27 of a leap year (the period crosses
# Feb 29), day-of-year 366, Feb 28 of a common year
SIM_STARTS = [None, (2023, 12, 30), (2024, 2, 27), (2024, 12, 31), (2023, 2, 28)]


def small_world(rng):
    """(n_days, [(emissions, events)]) — 1-3 real Components x 1-4 emissions of any kind;
    emission = (start, nrd, delay, repairable, intermittent, activeDur, inactiveDur, rate x 1024);
    event = (day, company, reporting delay) tag request | (day, company, 0, 1) detection only"""
    n = rng.randint(1, 10)
    comps = []
    for _ in range(rng.randint(1, 3)):
        ems = []
        for _ in range(rng.choice([0, 1, 1, 2, 2, 3, 4])):       # 0: a component without any emission
            rep, inter, ad, idur = rng.choice(KINDS)
            nrd = rng.randint(1, 9)
            ems.append((rng.randint(-nrd, n), nrd, rng.randint(0, 3), rep, inter, ad, idur, rng.choice([256, 512, 1024, 2048])))
        evs = []
        for _ in range(rng.choice([0, 1, 1, 2, 3])):
            day = n - 1 if rng.random() < 0.15 else rng.randrange(n)
            if rng.random() < 0.3:
                evs.append((day, rng.randint(4, 5), 0, 1))
            else:
                evs.append((day, rng.randint(1, 3), rng.choice([0, 0, 1, 2])))
        evs.sort(key=lambda e: e[0])
        comps.append((ems, evs))
    return n, comps


# ---------------------------------------------------------------------------------------------
# reconstruction of a row from records alone (Python twin of Lean `recRow`)
# ---------------------------------------------------------------------------------------------
def emitting_pattern(a0, adur, idur, n):
    """(emitting during day n, emitting after the update of day n) of an intermittent emission that
    was activated on day a0 and is still active after day n.  Closed form of IntermittencyMixin:
    on for max(adur,1) days starting with the activation day, off for max(idur,1) days, ..."""
    ad, idr = max(adur, 1), max(idur, 1)
    k = n - a0
    return (k % (ad + idr)) < ad, ((k + 1) % (ad + idr)) < ad


def rec_row(recs, n):
    """all eight columns of day n from records = dicts(start, endDate, kind, rate1024, repairable);
    kind: None (no end) | 'repaired' | 'natural' | 'expired'"""
    new = act = rp = nt = ex = s_all = s_mit = s_non = 0
    for r in recs:
        a0 = max(r["start"], 0)
        if a0 == n:
            new += 1
        if a0 <= n and (r["endDate"] is None or n + 1 < r["endDate"]):
            act += 1
            s_all += r["rate1024"]
            if r["repairable"]:
                s_mit += r["rate1024"]
            else:
                s_non += r["rate1024"]
        if r["endDate"] == n + 1:
            if r["kind"] == "repaired":
                rp += 1
            elif r["kind"] == "natural":
                nt += 1
            elif r["kind"] == "expired":
                ex += 1
    return (new, act, rp, nt, ex, s_all, s_mit, s_non)


def rec_emitting_sums(recs, n):
    """(sum emitting after, sum emitting during, sum of active intermittent records not emitting after,
    mitigable part of the first, non-mitigable part of the first)"""
    s_after = s_during = s_quiet = a_mit = a_non = 0
    for r in recs:
        a0 = max(r["start"], 0)
        if a0 <= n and (r["endDate"] is None or n + 1 < r["endDate"]):
            if r.get("intermittent"):
                during, after = emitting_pattern(a0, r["adur"], r["idur"], n)
            else:
                during = after = True
            if after:
                s_after += r["rate1024"]
                if r["repairable"]:
                    a_mit += r["rate1024"]
                else:
                    a_non += r["rate1024"]
            else:
                s_quiet += r["rate1024"]
            if during:
                s_during += r["rate1024"]
    return s_after, s_during, s_quiet, a_mit, a_non


def judge_emitting(row_sum, s_after, s_quiet_intermittent):
    """the discrepancy rule: None (clause holds) | F4B | 'C11:emissions:other'"""
    if row_sum == s_after:
        return None
    if s_quiet_intermittent > 0 and row_sum - s_after == s_quiet_intermittent:
        return F4B
    return "C11:emissions:other"


# ---------------------------------------------------------------------------------------------
# component-level stage
# ---------------------------------------------------------------------------------------------
def _sc(x):
    # 86.4 is not a dyadic number: the float sum of rate*86.4 is within rounding error of the exact
    # value; rates are multiples of 1/4 g/s, so the nearest multiple is unambiguous
    f = Fraction(x) * 1024 * 10 / 864
    k = round(f)
    if abs(f - k) >= Fraction(1, 1000):
        raise ArithmeticError(x)
    return int(k)


def drive(world, sim_start=None):
    """`sim_start` (y, m, d): first simulated day (the adapter's module constant is switched for the duration
    of the call — every date of the adapter is derived from it at call time)"""
    from harness.adapters import emission as E
    from datetime import date as _date

    if sim_start is None:
        return _drive(world)
    saved = E.SIM_START
    E.SIM_START = _date(*sim_start)
    try:
        return _drive(world)
    finally:
        E.SIM_START = saved


def _drive(world):
    """runs the world on real Components; returns dict(rows, obs, recs, lists_ok)
    rows: per day the 8 integers the real accumulators show
    obs : per day what the harness itself observes on the emission objects
    recs: the records in gen_emis_data order, with the index of the emission in model order"""
    from harness.adapters import emission as E
    from file_processing.output_processing.output_utils import EmisInfo, TsEmisData
    from scheduling.schedule_dataclasses import TaggingInfo
    from constants.output_file_constants import EMIS_DATA_COL_ACCESSORS as eca

    n, comps = world
    real, allobjs, spec_of = [], [], {}
    for ems, evs in comps:
        objs = [E.make_emission(st, nrd, dl, rep, inter, ad, idur, rate=r / 1024.0)
                for (st, nrd, dl, rep, inter, ad, idur, r) in ems]
        for o, sp in zip(objs, ems):
            spec_of[id(o)] = sp
            allobjs.append(o)
        real.append((E.make_component(objs), evs, objs))
    rows, obs = [], []
    lists_bad = None
    for dn in range(n):
        cur = E.SIM_START + timedelta(days=dn)
        s0 = [o.get_status() for o in allobjs]
        new = 0
        for comp, evs, _ in real:
            new += comp.activate_emissions(cur, 0)
        s1 = [o.get_status() for o in allobjs]
        n_ev = 0
        for comp, evs, _ in real:
            for ev in evs:
                if ev[0] != dn:
                    continue
                n_ev += 1
                if len(ev) > 3 and ev[3] == 1:
                    for e_ in comp._active_emissions:
                        e_.update_detection_records(company=f"c{ev[1]}", detect_date=cur)
                elif comp._active_emissions:
                    comp.tag_emissions(TaggingInfo(2.0, cur, 5, f"c{ev[1]}", "1", ev[2]))
        de0 = [o.get_days_emitting() for o in allobjs]
        info, data = EmisInfo(), TsEmisData()
        for comp, _, _ in real:
            comp.update_emissions_state(info, data)
        s2 = [o.get_status() for o in allobjs]
        rows.append((new, data.active_leaks, info.leaks_repaired, info.leaks_nat_repaired, info.emis_expired,
                     _sc(data.daily_emis), _sc(data.daily_emis_mit), _sc(data.daily_emis_non_mit)))
        ob = {"new": 0, "active": 0, "rep": 0, "nat": 0, "exp": 0, "s_all": 0, "s_after": 0, "s_during": 0,
              "s_quiet_interm": 0, "events": n_ev, "closed_form_ok": True}
        for o, a, b, c, d0 in zip(allobjs, s0, s1, s2, de0):
            sp = spec_of[id(o)]
            r1024, inter = sp[7], sp[4]
            if a == "inactive" and b == "active":
                ob["new"] += 1
            if b == "active" and c == "repaired":
                if getattr(o, "_tagged_by_company", None) == "natural":
                    ob["nat"] += 1
                else:
                    ob["rep"] += 1
            if b == "active" and c == "expired":
                ob["exp"] += 1
            if c == "active":
                ob["active"] += 1
                ob["s_all"] += r1024
                emitted_today = (o.get_days_emitting() - d0) == 1
                if o.is_emitting():
                    ob["s_after"] += r1024
                elif inter:
                    ob["s_quiet_interm"] += r1024
                if emitted_today:
                    ob["s_during"] += r1024
                if inter:
                    during, after = emitting_pattern(max(sp[0], 0), sp[5], sp[6], dn)
                    if (during, after) != (emitted_today, bool(o.is_emitting())):
                        ob["closed_form_ok"] = False
        obs.append(ob)
        # every activated emission sits in exactly one of the two lists of its component
        for comp, _, objs in real:
            act_ids = [id(x) for x in comp._active_emissions]
            ina_ids = [id(x) for x in comp._inactive_emissions]
            want_act = sorted(id(o) for o in objs if o.get_status() == "active")
            want_ina = sorted(id(o) for o in objs if o.get_status() in ("repaired", "expired"))
            if sorted(act_ids) != want_act or sorted(ina_ids) != want_ina:
                lists_bad = lists_bad if lists_bad is not None else dn
    # the records, as Component.gen_emis_data lists them
    end = E.summary_end_date(n)
    index = {id(o): i for i, o in enumerate(allobjs)}
    recs = []
    for comp, _, _ in real:
        for o in list(comp._active_emissions) + list(comp._inactive_emissions):
            sd = o.get_summary_dict(end)
            rep = bool(sd[eca.REPAIRABLE])
            by = sd[eca.TAGGED_BY] if rep else sd[eca.RECORDED_BY]
            status = sd[eca.STATUS]
            kind = None
            if status == "repaired":
                kind = "natural" if by == "natural" else "repaired"
            elif status == "expired":
                kind = "expired"
            sp = spec_of[id(o)]
            recs.append({"i": index[id(o)], "start": E.d2i(sd[eca.DATE_BEG]), "endDate": E.d2i(sd[eca.DATE_REP_EXP]),
                         "kind": kind, "status": status, "by": by, "rate1024": _sc(sd[eca.T_RATE] * 86.4),
                         "repairable": rep, "intermittent": sp[4], "adur": sp[5], "idur": sp[6]})
    return {"rows": rows, "obs": obs, "recs": recs, "lists_bad_day": lists_bad, "n_objs": len(allobjs)}


def fmt_rows(rows):
    return ";".join(":".join(str(x) for x in r) for r in rows)


def model_lines(world, ops=("rows",)):
    n, comps = world
    lines = ["world %d" % n]
    for ems, evs in comps:
        evs_s = "[" + ",".join("[" + ",".join(str(x) for x in e) + "]" for e in evs) + "]"
        for (st, nrd, dl, rep, inter, ad, idur, r) in ems:
            lines.append("em %d %d %d %d %d %d %d %d %s" % (st, nrd, dl, int(rep), int(inter), ad, idur, r, evs_s))
    lines += list(ops)
    return lines


def impl_rows(world):
    return fmt_rows(drive(world)["rows"])


def _by_str(by):
    if by in (None, "", "N/A"):
        return "-"
    if by == "natural":
        return "natural"
    if by == "expired":
        return "expire"
    return str(by)


def judge_world(ctx, w, d, m_rows, m_recrows, m_recs, m_emit, record=True):
    """correspondence + oracles for one driven world; returns the list of (signature, what) raised"""
    raised = []

    def viol(sig, what, extra=None):
        raised.append((sig, what))
        if record:
            ctx.violate(sig, what, dict({"world": w, "rows": fmt_rows(d["rows"])}, **(extra or {})))

    n = w[0]
    il = fmt_rows(d["rows"])
    if m_rows is not None and il != m_rows and record:
        ctx.disagree("world/component-rows", {"world": w}, m_rows, il)
    # --- records of the real objects vs Lean recOf --------------------------------------------
    recs = d["recs"]
    if m_recs is not None and record:
        by_i = {r["i"]: r for r in recs}
        want = []
        for i in range(d["n_objs"]):
            r = by_i.get(i)
            want.append(None if r is None else "1:%d:%s:%d:%d:%s:%s" % (
                r["start"], "-" if r["endDate"] is None else r["endDate"], r["rate1024"], int(r["repairable"]),
                r["status"], _by_str(r["by"])))
        got = m_recs.split(";") if m_recs else []
        ok = len(got) == len(want) and all((g.startswith("0:") if x is None else g == x) for g, x in zip(got, want))
        if not ok:
            ctx.disagree("world/records", {"world": w}, m_recs, want)
    # --- Lean recRow vs the Python reconstruction from the REAL records ----------------------
    py_rec = [rec_row(recs, k) for k in range(n)]
    if m_recrows is not None and fmt_rows(py_rec) != m_recrows and record:
        ctx.disagree("world/recrows", {"world": w}, m_recrows, fmt_rows(py_rec))
    # --- emitting sums vs Lean --------------------------------------------------------------
    if m_emit is not None and record:
        real_emit = ";".join("%d:%d" % (o["s_after"], o["s_during"]) for o in d["obs"])
        if real_emit != m_emit:
            ctx.disagree("world/emitting-sums", {"world": w}, m_emit, real_emit)
    # --- oracles ------------------------------------------------------------------------------
    if d["lists_bad_day"] is not None:
        viol("C11:lists", "an emission is missing from / duplicated in the component's active or inactive list",
             {"day": d["lists_bad_day"]})
    prev = 0
    cols = ("new", "active", "repaired", "natural", "expired", "emissions", "mitigable", "non-mitigable")
    for k, (r, ob, pr) in enumerate(zip(d["rows"], d["obs"], py_rec)):
        new, act, rep, nat, exp, em, mit, non = r
        if act != prev + new - rep - nat - exp:
            viol("C11:ledger:component", "ledger fails on real Component objects", {"day": k})
        if em != mit + non:
            viol("C11:split:component", "daily emissions != mitigable + non-mitigable", {"day": k})
        prev = act
        # accumulators vs transitions observed on the objects
        for name, acc, seen in (("new", new, ob["new"]), ("active", act, ob["active"]), ("repaired", rep, ob["rep"]),
                                ("natural", nat, ob["nat"]), ("expired", exp, ob["exp"])):
            if acc != seen:
                viol("C11:accumulator:" + name,
                     f"the day's '{name}' counter differs from the status transitions of the emission objects",
                     {"day": k, "counter": acc, "observed": seen})
        # reconstruction of every column from the records
        for name, a, b in zip(cols, r, pr):
            if a != b:
                viol("C11:reconstruct:component:" + name,
                     f"column '{name}' of a day cannot be reconstructed from the emission records",
                     {"day": k, "row": a, "from_records": b})
        # active and emitting
        if not ob["closed_form_ok"] and record:
            ctx.disagree("world/intermittency-closed-form", {"world": w, "day": k}, None, None)
        sig = judge_emitting(em, ob["s_after"], ob["s_quiet_interm"])
        if record:
            ctx.count("emitting_clause_days_checked")
            if em != ob["s_during"]:
                ctx.count("emitting_clause_days_failing_days_emitting_reading")
        if sig == F4B:
            if record:
                ctx.count("emitting_clause_days_failing_known_F4b")
            viol(F4B, "daily emissions include active intermittent emissions that are not emitting",
                 {"day": k, "row_sum_x1024": em, "emitting_only_sum_x1024": ob["s_after"]})
        elif sig:
            viol(sig, "daily emissions differ from the summed rates of the active and emitting emissions by "
                      "something other than the not-emitting intermittent ones",
                 {"day": k, "row_sum_x1024": em, "emitting_only_sum_x1024": ob["s_after"],
                  "not_emitting_intermittent_x1024": ob["s_quiet_interm"]})
    return raised


def component_stage(ctx):
    worlds = [small_world(ctx.rng) for _ in range(ctx.pick(1500, 30000))]
    lines, idx = [], []
    for w in worlds:
        lines += model_lines(w, ("rows", "recrows", "recs", "emit"))
        idx.append(len(lines) - 4)
    out = LeanDriver("drv_world").run(lines)
    starts = [SIM_STARTS[k % len(SIM_STARTS)] if k % 2 else None for k in range(len(worlds))]
    first_pass = {}
    for k, (w, i) in enumerate(zip(worlds, idx)):
        ctx.evaluations += 1
        ctx.traces += 1
        try:
            d = drive(w, starts[k])
        except ArithmeticError as exc:
            # daily emission float sum not on the exact grid: the rows cannot be compared — not a silent skip
            ctx.disagree("world/inexact-sum", {"world": w}, None, repr(exc))
            continue
        if starts[k] is not None:
            ctx.count("component_worlds_boundary_sim_start")
        if k % 10 == 0:
            first_pass[k] = (fmt_rows(d["rows"]), sorted((r["i"], r["start"], r["endDate"], r["kind"]) for r in d["recs"]))
        judge_world(ctx, w, d, out[i], out[i + 1], out[i + 2], out[i + 3])
        rows = d["rows"]
        if any(e[0] == w[0] - 1 for _, evs in w[1] for e in evs):
            ctx.count("component_worlds_with_event_on_last_day")
        if rows and rows[0][0] > 0 and any(e[0] < 0 for ems, _ in w[1] for e in ems):
            ctx.count("component_worlds_with_preexisting_emissions_on_day0")
        ctx.count("component_days_with_expiry", sum(1 for r in rows if r[4] > 0))
        ctx.count("component_days_with_program_repair", sum(1 for r in rows if r[2] > 0))
        ctx.count("component_days_with_natural_repair", sum(1 for r in rows if r[3] > 0))
        if any(e[4] for ems, _ in w[1] for e in ems):
            ctx.count("component_worlds_with_intermittent")
        ctx.nontrivial.add(("cw", len(rows), sum(r[0] for r in rows), sum(r[2] for r in rows), sum(r[3] for r in rows),
                            sum(r[4] for r in rows)))
    # same-process history: every tenth world is driven again at the end, in REVERSE order (so each now follows
    # other predecessors; all emission ids collide anyway — make_emission numbers every emission 1) and with another
    # first simulated day; rows and records must be what they were the first time
    for k in sorted(first_pass, reverse=True):
        alt = SIM_STARTS[(k // 10) % len(SIM_STARTS)]
        try:
            d = drive(worlds[k], alt)
        except ArithmeticError:
            continue
        again = (fmt_rows(d["rows"]), sorted((r["i"], r["start"], r["endDate"], r["kind"]) for r in d["recs"]))
        ctx.count("component_worlds_rerun_in_reverse_order")
        if again != first_pass[k]:
            ctx.violate("C11:history-dependent",
                        "rows / records of a world depend on the worlds driven before it in the same process or on the "
                        "calendar position of the first simulated day",
                        {"world": worlds[k], "first": first_pass[k][0], "again": again[0], "sim_start_again": alt})
    ctx.sample({"world": worlds[0], "impl_rows": impl_rows(worlds[0])})


# ---------------------------------------------------------------------------------------------
# scale stage: thousands of simultaneously active emissions with NON-dyadic rates
# ---------------------------------------------------------------------------------------------
def scale_case(seed, n_emis, n_comps, days=2):
    """`n_emis` real emissions (repairable and non-repairable, persistent, long-lived, begun on or before day 0)
    spread over `n_comps` real Components; rates are NOT dyadic (k/1000 + 1/7-like values), so neither rate x 86.4
    nor its decimal rounding is exact.  Returns per day (n_active, {column: (float the accumulators show, exact
    rational 86.4 x sum of the float true rates)}).  Everything is a function of the arguments (replayable)."""
    import random as _r
    from harness.adapters import emission as E
    from file_processing.output_processing.output_utils import EmisInfo, TsEmisData

    rng = _r.Random(seed)
    comps, per_comp = [], [[] for _ in range(n_comps)]
    for i in range(n_emis):
        rate = float(Fraction(rng.randint(1, 9000), 1000) + Fraction(1, rng.choice([3, 7, 11, 13])))
        rep = rng.random() < 0.6
        e = E.make_emission(-rng.randint(0, 5), 400 + rng.randint(0, 50), 0, rep, False, 1, 0, rate=rate)
        per_comp[rng.randrange(n_comps)].append(e)
    comps = [E.make_component(ems) for ems in per_comp]
    out = []
    for d in range(days):
        cur = E.SIM_START + timedelta(days=d)
        for c in comps:
            c.activate_emissions(cur, 0)
        info, data = EmisInfo(), TsEmisData()
        for c in comps:
            c.update_emissions_state(info, data)
        act = [e for c in comps for e in c._active_emissions]
        k = Fraction(864, 10)
        exact = {"emissions": k * sum(Fraction(e._rate) for e in act),
                 "mitigable": k * sum(Fraction(e._rate) for e in act if e._repairable),
                 "non-mitigable": k * sum(Fraction(e._rate) for e in act if not e._repairable)}
        got = {"emissions": data.daily_emis, "mitigable": data.daily_emis_mit, "non-mitigable": data.daily_emis_non_mit}
        out.append((data.active_leaks, len(act), {c: (got[c], exact[c]) for c in got}))
    return out


def scale_oracle(case_out):
    """the day's emissions = 86.4 x summed true rates, up to what float summation itself can lose: every term
    rate x 86.4 and every one of the n additions has a relative rounding error <= 2^-53, so
    |float total - exact| <= 2 (n + 2) 2^-53 x exact  (about 2e-12 relative for n = 4000: some 3e-7 kg on a total
    of 1.5e5 kg, far below the 1e-5 resolution of the output files)"""
    raised = []
    for d, (active_leaks, n_act, cols) in enumerate(case_out):
        if active_leaks != n_act:
            raised.append(("C11:accumulator:active", d, "Active Leaks differs from the number of active emission objects", None))
        for c, (got, exact) in cols.items():
            tol = 2 * (n_act + 2) * Fraction(1, 2 ** 53) * exact
            err = abs(Fraction(got) - exact)
            if err > tol:
                raised.append(("C11:emissions:scale", d,
                               "daily %s differ from 86.4 x the summed true rates of %d active emissions by %.3g kg "
                               "(float summation can lose at most %.3g kg)" % (c, n_act, float(err), float(tol)), c))
    return raised


def scale_stage(ctx):
    for j in range(ctx.pick(1, 6)):
        seed = ctx.rng.randrange(1 << 30)
        n_emis, n_comps = ctx.rng.randint(2000, 5000), ctx.rng.randint(3, 12)
        out = scale_case(seed, n_emis, n_comps)
        ctx.evaluations += 1
        ctx.count("scale_cases")
        ctx.count("scale_case_active_emissions", out[-1][1])
        ctx.nontrivial.add(("scale", n_emis, n_comps, out[-1][1]))
        seen = set()
        for sig, d, what, col in scale_oracle(out):
            if sig not in seen:
                seen.add(sig)
                ctx.violate(sig, what, {"scale_case": {"seed": seed, "n_emis": n_emis, "n_comps": n_comps}, "day": d, "column": col})


# ---------------------------------------------------------------------------------------------
# whole-run stage
# ---------------------------------------------------------------------------------------------
TS = {"new": "New Leaks", "active": "Active Leaks", "rep": "Leaks Repaired", "nat": "Leaks Naturally Repaired",
      "emis": "Daily Emissions (Kg Methane)", "mit": "Daily Mitigable Emissions (Kg Methane)",
      "non": "Daily Non-Mitigable Emissions (Kg Methane)"}

FORCED = dict(
    granular=True,
    sources=[
        {"component": "compA", "source": "sA", "repairable": True, "persistent": True, "active": 1, "inactive": 0},
        {"component": "compB", "source": "sB", "repairable": False, "persistent": False, "active": 2, "inactive": 1},
        {"component": "compB", "source": "sC", "repairable": True, "persistent": False, "active": 1, "inactive": 2},
    ],
    rep={"epr": 0.03125, "duration": 60, "multi": True},
    nonrep={"epr": 0.015625, "duration": 45, "multi": True},
    pre_sim_emissions=True,
    ndays=200,
    n_sites=5,
)


DUPLICATE_GROUPS = {"tA": ["eq1", "eq1"], "tB": ["eq2", "eq3", "eq2"]}


def has_duplicate_groups(cfg):
    return any(len(set(v)) != len(v) for v in (cfg.get("site_types") or {}).values())


def close(file_val, scaled_sum):
    """file value (5 decimals) vs exact 86.4 * sum(rate), rates given x1024"""
    exact = Fraction(864, 10) * Fraction(scaled_sum, 1024)
    return abs(Fraction(file_val) - exact) <= Fraction(1, 50000)


def file_records(recs):
    out = []
    for r in recs:
        kind = None
        if r["status"] == "repaired":
            kind = "natural" if r["by"] == "natural" else "repaired"
        elif r["status"] == "expired":
            kind = "expired"
        out.append({"start": r["start"], "endDate": r["endDate"], "kind": kind,
                    "rate1024": int(Fraction(r["rate"]) * 1024), "repairable": r["repairable"],
                    "intermittent": r["intermittent"], "adur": r["adur"], "idur": r["idur"]})
    return out


def file_oracle(ts, recs, N, start=None):
    """the property evaluated on the two output files alone; returns [(signature, day, what)] (first
    failing day per signature) and the per-day expired counts derived from the records"""
    frecs = file_records(recs)
    exp_on = [0] * N
    for r in frecs:
        if r["kind"] == "expired" and r["endDate"] is not None and 1 <= r["endDate"] <= N:
            exp_on[r["endDate"] - 1] += 1
    bad = {}

    def flag(sig, n, what):
        bad.setdefault(sig, (sig, n, what))

    prev = 0
    stats = {"f4b_days": 0, "during_reading_fail_days": 0, "days": 0}
    for n, row in enumerate(ts):
        # the row of day n carries the calendar date start + n (read with the calendar, not with an index)
        if start is not None and str(row.get("Date", ""))[:10] != (start + timedelta(days=n)).isoformat():
            flag("C11:timeseries-dates", n, "the Date of a timeseries row is not first day + row number")
        act, new = int(row[TS["active"]]), int(row[TS["new"]])
        rp, nt = int(row[TS["rep"]]), int(row[TS["nat"]])
        if act != prev + new - rp - nt - exp_on[n]:
            flag("C11:ledger", n, "active != previous active + new - repaired - naturally repaired - expired")
        prev = act
        r_new, r_act, r_rp, r_nt, _r_ex, s_all, s_mit, s_non = rec_row(frecs, n)
        if r_act != act:
            flag("C11:reconstruct:active-count", n, "Active Leaks differs from the records active at the end of the day")
        if r_new != new:
            flag("C11:reconstruct:new", n, "New Leaks differs from the number of records with max(start, 0) = day")
        if r_rp != rp:
            flag("C11:reconstruct:repaired", n, "Leaks Repaired differs from the records repaired (not naturally) with end date day+1")
        if r_nt != nt:
            flag("C11:reconstruct:natural", n, "Leaks Naturally Repaired differs from the records naturally repaired with end date day+1")
        # split: the three file values are each rounded to 5 decimals
        if abs(Fraction(row[TS["emis"]]) - Fraction(row[TS["mit"]]) - Fraction(row[TS["non"]])) > Fraction(3, 100000):
            flag("C11:split", n, "daily emissions != mitigable + non-mitigable")
        # mitigable / non-mitigable parts are sums over ALL active records in the code as it stands;
        # they are judged together with the total by the discrepancy rule below
        s_after, s_during, s_quiet, a_mit, a_non = rec_emitting_sums(frecs, n)
        stats["days"] += 1
        if close(row[TS["emis"]], s_after):
            # the clause holds on this day; the parts must be those of the emitting records
            if not (close(row[TS["mit"]], a_mit) and close(row[TS["non"]], a_non)) and \
                    not (s_quiet == 0 and close(row[TS["mit"]], s_mit) and close(row[TS["non"]], s_non)):
                flag("C11:reconstruct:emissions-parts", n, "mitigable / non-mitigable parts differ from the records")
        elif s_quiet > 0 and close(row[TS["emis"]], s_after + s_quiet):
            stats["f4b_days"] += 1
            flag(F4B, n, "daily emissions include active intermittent emissions that are not emitting")
            if not (close(row[TS["mit"]], s_mit) and close(row[TS["non"]], s_non)):
                flag("C11:reconstruct:emissions-parts", n, "mitigable / non-mitigable parts differ from the records")
        else:
            flag("C11:reconstruct:emissions", n,
                 "daily emissions differ from the summed rates of the active and emitting records by something "
                 "other than the not-emitting intermittent ones")
        if not close(row[TS["emis"]], s_during):
            stats["during_reading_fail_days"] += 1
    tot = lambda k: sum(int(r[TS[k]]) for r in ts)
    if tot("new") != len(recs):
        flag("C11:counts:new", None, "sum of New Leaks != number of emission records")
    if tot("rep") != sum(1 for r in frecs if r["kind"] == "repaired"):
        flag("C11:counts:repaired", None, "sum of Leaks Repaired != records repaired by the program")
    if tot("nat") != sum(1 for r in frecs if r["kind"] == "natural"):
        flag("C11:counts:natural", None, "sum of Leaks Naturally Repaired != records naturally repaired")
    return list(bad.values()), exp_on, stats


def prev_of_kind(cfg, kind, seed=0):
    """`W.prev_variant` with the wanted `what_differs` (the shared helper draws the kind from its rng)"""
    import random as _r
    from harness import wholerun as W

    for k in range(400):
        prev, what = W.prev_variant(cfg, _r.Random(seed * 1009 + k))
        if what == kind and prev != {x: cfg[x] for x in prev}:
            return prev, what
    return W.prev_variant(cfg, _r.Random(seed))


PARTIAL = []   # crashed runs of the current check run (their completed programs are judged on the files alone)


def run_whole_configs(ctx, n):
    """n generated configurations (the first one forced to contain intermittent sources, a repairable
    and a non-repairable one) run by the real simulator in parallel"""
    from harness import wholerun as W

    # the forced configuration also lists an equipment group TWICE in each site type (`eq1;eq1;`): two same-named
    # groups below one site — the nested dict of generated emissions is keyed by names, both groups' sources are
    # handed one common queue, and every emission must still be activated, counted and recorded exactly once
    cfgs = [W.make_config(ctx.rng, **dict(FORCED, site_types=DUPLICATE_GROUPS))] + \
           [W.make_config(ctx.rng) for _ in range(max(0, n - 1))]
    # boundary periods put in on purpose (first day with pre-existing emissions and last day included): a period
    # of more than a year that starts on Dec 30, straddles New Year, contains Feb 29 and ends on day-of-year 366;
    # a 2-day period Feb 28 -> Feb 29; a 1-day period on day-of-year 366.  (Periods whose end (month, day) lies
    # before the start's are the shape in which the survey planner crashes, recorded under C06 — not generated.)
    periods = [([2024, 2, 28], [2024, 2, 29]), ([2024, 12, 31], [2024, 12, 31]), ([2023, 12, 30], [2024, 12, 31])]
    for j, (st, en) in enumerate(periods[:ctx.pick(2, 3)]):
        cfgs.append(W.make_config(ctx.rng, **dict(FORCED, start=st, end=en, n_sites=4,
                                                  rep={"epr": 0.0625, "duration": 30, "multi": True})))
    # "wide" configurations (harness/wholerun.py `_wide_catalogue`: leaves of the parameter space and boundary values
    # the base generator never produces).  Every leaf is read back from the cfg by the oracles (durations, repair
    # delays, reporting delays, number of simulations, coverage); cfg["wide_applied"] is counted in the evidence.
    WIDE_TAGS = ["durations", "repairs", "sims", "coverage", "crews", "workday", "delays", "freq", "months", "years",
                 "weather", "followup", "fractional"]
    wide_plan = [["durations", "repairs", "sims"], True, ["coverage"], ["fractional"], ["repairs", "delays"], ["sims", "crews", "workday"],
                 ["freq", "months", "years"], ["weather", "followup"], WIDE_TAGS, ["durations", "coverage", "sims"], ["sims-batch"],
                 ["durations"]]
    for j, tags in enumerate(wide_plan[:ctx.pick(4, 12)]):
        c = W.make_config(ctx.rng, wide=tags, ndays=[120, 200][j % 2], n_sites=4 + j % 2, pre_sim_emissions=True)
        if j == 0:
            # the short-lived focus, whatever the catalogue drew: emissions that begin and end within two rows of the
            # daily series, repaired the day after the tag, one timeseries file per program and simulation
            forced = {("c", "rep", "duration"): [1, 2][ctx.rng.randrange(2)], ("c", "nonrep", "duration"): 1,
                      ("c", "repair_delay"): [0], ("c", "n_sims"): 2}
            for path, v in forced.items():
                d = c
                for k in path[1:-1]:
                    d = d[k]
                d[path[-1]] = v
                c["wide_applied"] = [a for a in c.get("wide_applied", []) if tuple(a["path"]) != path]
                c["wide_applied"].append({"tag": "focus", "path": list(path), "value": v})
            c["methods"]["OGI"].update(reporting_delay=0, months=list(range(1, 13)), surveys_per_year=12)
        if tags == ["coverage"]:
            # zero coverage on purpose: every screening / survey method of every program sees nothing
            for m, d in c["methods"].items():
                if not d["is_follow_up"]:
                    d["spatial"] = 0.0
                    c.setdefault("wide_applied", []).append({"tag": "coverage", "path": ["m", m, "spatial"], "value": 0.0})
                    if d["deployment_type"] == "stationary" and j % 2 == 0:
                        d["follow_up"]["rolling"]["small_window_threshold"] = 1.0
        c["wide_tags"] = "all" if tags is True else tags
        cfgs.append(c)
        ctx.count("wholerun_wide_runs")
        for a in c.get("wide_applied", []):
            ctx.count("wholerun_wide_leaf:%s=%s" % ("/".join(str(x) for x in a["path"] if x not in ("m", "c")),
                                                    json.dumps(a["value"])[:40]))
    jobs = [(c, True, 1) for c in cfgs]
    # one pool-mode job per run: 6 programs on a 1-process pool, so that Pool.starmap sends several program
    # tasks to the worker in one chunk (pickled together) — the ledger / counts / reconstruction oracles then
    # also see outputs produced by the multiprocessing path of the simulator
    pool_cfg = dict(cfgs[0])
    pool_cfg["n_sims"] = 2          # two simulation numbers through one worker
    have = {p["name"] for p in pool_cfg["programs"]}
    pool_cfg["programs"] = list(pool_cfg["programs"]) + [p for p in (
        {"name": "P_fix", "methods": ["FIX", "OGI_FU2"]}, {"name": "P_OGIb", "methods": ["OGI"]},
        {"name": "P_airb", "methods": ["AIR", "OGI_FU"]}) if p["name"] not in have]
    jobs.append((pool_cfg, False, 1))
    jobs = [j + (None,) for j in jobs]
    # "history" shape: the property must hold for the run the user asked for WHATEVER was run in that folder
    # before.  An earlier configuration that differs in ONE defining leaf is run first, then cfg in the same folder
    # (generator folder and outputs left as the first run left them); all oracles and the trace conformance are
    # applied to the second run against cfg.
    kinds = ["period-start", "duration", "pre-sim", "rates", "period-end", "n-sims"]
    for j, kind in enumerate(kinds[:ctx.pick(1, 4)]):
        c = W.make_config(ctx.rng, **dict(FORCED, ndays=[150, 120][j % 2], n_sites=4))
        prev, what = prev_of_kind(c, kind, seed=j)
        c["history"] = what
        jobs.append((c, True, 1, prev))
        ctx.count("history:" + what)

    def _run(j):
        if j[3] is not None:
            return W.run_after(j[3], j[0], debug=j[1], processes=j[2], trace=True)
        return W.run_config(j[0], debug=j[1], processes=j[2], trace=True)

    with cf.ThreadPoolExecutor(max_workers=min(8, max(1, len(jobs)))) as ex:
        results = list(ex.map(_run, jobs))
    for (c, dbg, procs, prev), r in zip(jobs, results):
        r.pool_mode = not dbg
        r.prev_cfg = prev
        if prev is not None and getattr(r, "prev_rc", 0) != 0:
            ctx.count("history_first_run_stopped")
    good, last = [], ""
    for k, r in enumerate(results):
        r.crashed = r.rc != 0
        if r.rc != 0:
            ctx.count("wholerun_config_crashed")
            ctx.note("whole run crashed (the crash is judged by the property that owns it; the (program, simulation) "
                     "pairs that wrote both output files before it are still judged here): "
                     + r.log.strip().splitlines()[-1][:200])
            last = r.log
            PARTIAL.append(r)
            ctx.broke("whole run of a generated configuration crashed (%s mode)" % ("pool" if r.pool_mode else "debug"),
                      json.dumps({"start": r.cfg["start"], "end": r.cfg["end"], "granular": r.cfg["granular"]})
                      + "\n" + r.log[-1500:])
            if k == 0:
                ctx.note("the forced intermittent configuration crashed")
            if r.pool_mode:
                ctx.count("wholerun_pool_job_crashed")
            continue
        good.append(r)
    if not good and results:
        ctx.broke("every whole run crashed", last[-2000:])
    return good


def judge_program_run(ctx, res, recs_all, prog, sim, method_ids, delays, record=True, conform=True):
    """oracle + model conformance for one (program, simulation); returns raised signatures"""
    ts = res.timeseries(prog, sim)
    recs = [r for r in recs_all if r["prog"] == prog and r["sim"] == sim]
    inp = {"cfg": res.cfg, "prog": prog, "sim": sim, "pool_mode": bool(getattr(res, "pool_mode", False)),
           "run_crashed_later": bool(getattr(res, "crashed", False))}
    if getattr(res, "prev_cfg", None) is not None:
        inp["run_before_in_the_same_folder"] = res.prev_cfg
    N = res.ndays
    raised = []
    if ts is None or len(ts) != N:
        raised.append("C11:timeseries-length")
        if record:
            ctx.violate("C11:timeseries-length", "timeseries does not have one row per simulated day", inp)
        return raised
    bad, exp_on, stats = file_oracle(ts, recs, N, res.start)
    for sig, day, what in bad:
        raised.append(sig)
        if record:
            ctx.violate(sig, what + (f" (day {day})" if day is not None else ""), dict(inp, day=day))
    if not record:
        return raised
    has_interm = any(r["intermittent"] for r in recs)
    if has_interm:
        ctx.count("wholerun_program_with_intermittent_sources")
        if any(r["intermittent"] and not r["repairable"] for r in recs):
            ctx.count("wholerun_program_with_intermittent_nonrepairable_records")
        ctx.count("wholerun_days_failing_known_F4b", stats["f4b_days"])
        ctx.count("wholerun_days_failing_days_emitting_reading", stats["during_reading_fail_days"])
    ctx.count("wholerun_days_checked", stats["days"])
    ctx.count("wholerun_days_with_expiry", sum(1 for x in exp_on if x))
    if ts and int(ts[0][TS["new"]]) > 0 and any(r["start"] < 0 for r in recs):
        ctx.count("wholerun_program_with_preexisting_emissions_on_day0")
    if any(e[1] == N - 1 for r in recs for e in r["tags"]):
        ctx.count("wholerun_program_with_event_on_last_day")
    if not conform:
        ctx.count("wholerun_program_runs_of_crashed_configs_judged_on_files")
        return raised
    if has_duplicate_groups(res.cfg):
        ctx.count("wholerun_program_runs_with_duplicate_equipment_groups")
        # each record must be one emission of the scenario, once: no (site, group, component, repairable, id) twice
        keys = [r["key"] for r in recs]
        if len(set(keys)) != len(keys):
            ctx.violate("C11:record-listed-twice", "an emission is written to the records more than once", inp)
        # the logged tagging calls carry names only: with two same-named groups a call cannot be attributed to one of
        # the two components, so the per-record model conformance is not applicable (the file oracle above is)
        ctx.count("conformance_skipped:duplicate-equipment-group-names")
        tot = lambda k: sum(int(r[TS[k]]) for r in ts)
        ctx.nontrivial.add(("wr-dup", prog, len(recs), tot("new"), tot("rep"), tot("nat")))
        ctx.count("wholerun_program_runs")
        return raised
    # ---- conformance with the model ------------------------------------------------------------
    lines = ["world %d" % N]
    # the sampled repair delay is the configured value that reproduces the record (one driver call
    # for all records and candidate delays)
    cand_lines, owner = [], []
    for k, r in enumerate(recs):
        for dl in (delays if r["repairable"] else delays[:1]):
            cand_lines.append(EC.model_line_for_record(r, dl, N, method_ids))
            owner.append((k, dl))
    outs = LeanDriver("drv_emission").run(cand_lines)
    pick = {}
    for (k, dl), o in zip(owner, outs):
        if k not in pick and o.split(" | ")[0] == EC.record_summary(recs[k], method_ids):
            pick[k] = dl
    for k, r in enumerate(recs):
        if k not in pick:
            ctx.disagree("world/record-not-reproduced", inp, None, None)
            return raised
        evs = [(e[1], method_ids[e[5]], e[6]) if e[0] == "tag" else (e[1], method_ids[e[5]], 0, 1) for e in r["tags"]]
        evs_s = "[" + ",".join("[" + ",".join(str(x) for x in e) + "]" for e in evs) + "]"
        lines.append("em %d %d %d %d %d %d %d %d %s" % (
            r["start"], r["nrd"], pick[k], int(r["repairable"]), int(r["intermittent"]), r["adur"], r["idur"],
            int(Fraction(r["rate"]) * 1024), evs_s))
    lines += ["rows", "recrows"]
    out = LeanDriver("drv_world").run(lines)
    m_rows, m_rec = out[-2].split(";"), out[-1]
    ctx.evaluations += 1
    ctx.traces += 1
    for n, (row, mr) in enumerate(zip(ts, m_rows)):
        new, act, rp, nt, ex, em, mit, non = (int(x) for x in mr.split(":"))
        same = (new == int(row[TS["new"]]) and act == int(row[TS["active"]]) and rp == int(row[TS["rep"]])
                and nt == int(row[TS["nat"]]) and ex == exp_on[n] and close(row[TS["emis"]], em)
                and close(row[TS["mit"]], mit) and close(row[TS["non"]], non))
        if not same:
            ctx.disagree("world/whole-run-row", dict(inp, day=n), mr, {k: row[v] for k, v in TS.items()})
            break
    # Lean's reconstruction (recRow of the model's records) vs the Python reconstruction from the FILE records
    py = fmt_rows([rec_row(file_records(recs), n) for n in range(N)])
    if py != m_rec:
        ctx.disagree("world/whole-run-recrows", inp, m_rec[:2000], py[:2000])
    tot = lambda k: sum(int(r[TS[k]]) for r in ts)
    ctx.nontrivial.add(("wr", prog, len(recs), tot("new"), tot("rep"), tot("nat")))
    ctx.count("wholerun_program_runs")
    return raised


def config_delays(cfg):
    """the configured repair delays in whole days: a leak is repaired in the first daily update in which
    days-since-tagged >= delay + reporting delay, so a fractional delay acts as its ceiling"""
    import math

    return sorted({int(math.ceil(float(x))) for x in cfg["repair_delay"]})


def blind_programs(cfg):
    """programs that cannot detect anything according to the CONFIGURATION: they deploy at least one method and every
    method that is not a follow-up has spatial coverage 0 or temporal coverage 0 (follow-ups are only triggered by
    the flags of the others)"""
    def blind(m):
        d = cfg["methods"][m]
        if not (d["spatial"] == 0 or d["temporal"] == 0):
            return False
        if d["deployment_type"] == "stationary":
            # the stationary work practice makes every monitored site a candidate and follows up when the rolling
            # average is >= small_window_threshold: with a threshold of 0 a measured rate of 0 qualifies, so such a
            # program is NOT blind (SiteLevelMethod.update_candidates_for_flags / should_follow_up; instant flags need
            # rate >= instant_threshold, the long window needs a non-zero average)
            fu = d.get("follow_up") or {}
            inst = fu.get("instant_threshold")
            return fu.get("rolling", {}).get("small_window_threshold", 0.0) > 0 and (inst is None or inst > 0)
        # mobile screening: a flag needs a non-zero measured rate (or rate >= instant_threshold > 0)
        inst = (d.get("follow_up") or {}).get("instant_threshold")
        return inst is None or inst > 0

    out = []
    for p in cfg["programs"]:
        prim = [m for m in p["methods"] if not cfg["methods"][m]["is_follow_up"]]
        if p["methods"] and prim and all(blind(m) for m in prim):
            out.append(p["name"])
    return out


def zero_coverage_oracle(ctx, res, record=True):
    """a program with zero coverage tags nothing and repairs nothing: its daily series (counts and emissions) and
    its emission records' end dates must be the baseline's, day by day"""
    raised = []
    base = res.cfg["baseline"]
    for prog in blind_programs(res.cfg):
        for sim in range(res.n_sims):
            a, b = res.timeseries(prog, sim), res.timeseries(base, sim)
            if a is None or b is None:
                if record:
                    ctx.count("zero_coverage_skipped:timeseries-missing")
                continue
            if record:
                ctx.count("zero_coverage_program_runs_checked")
            bad = next((n for n, (x, y) in enumerate(zip(a, b)) if any(x[c] != y[c] for c in TS.values())), None)
            if bad is not None or len(a) != len(b):
                raised.append("C11:zero-coverage-differs-from-baseline")
                if record:
                    ctx.violate("C11:zero-coverage-differs-from-baseline",
                                "a program whose methods have zero spatial / temporal coverage shows a daily series that "
                                "differs from the baseline's (day %s)" % bad,
                                {"cfg": res.cfg, "prog": prog, "sim": sim, "day": bad,
                                 "pool_mode": bool(getattr(res, "pool_mode", False))})
    return raised


def reporting_delay_leaf(ctx, res):
    """the reporting delay every logged tagging call carries is the one the configuration gives its method"""
    for t in res.trace:
        for e in t["events"]:
            if e[0] == "tag":
                ctx.count("tag_events_reporting_delay_checked")
                want = res.cfg["methods"].get(e[5], {}).get("reporting_delay")
                if want is None or int(e[6]) != int(want):
                    ctx.disagree("world/tag-reporting-delay-vs-configuration",
                                 {"cfg": res.cfg, "prog": t["prog"], "sim": t["sim"], "event": e}, want, e[6])
                    return


def wholerun(ctx):
    results = run_whole_configs(ctx, ctx.pick(2, 10))
    try:
        for res in results:
            recs_all = list(EC.records(res))
            method_ids = {m: i + 1 for i, m in enumerate(sorted(res.cfg["methods"]))}
            delays = config_delays(res.cfg)
            for sim in range(res.n_sims):
                for prog in res.programs:
                    judge_program_run(ctx, res, recs_all, prog, sim, method_ids, delays)
                    if getattr(res, "pool_mode", False):
                        ctx.count("wholerun_program_runs_pool_mode")
            zero_coverage_oracle(ctx, res)
            reporting_delay_leaf(ctx, res)
            if res.cfg["rep"]["duration"] <= 2 or res.cfg["nonrep"]["duration"] <= 2:
                ctx.count("wholerun_runs_emission_duration_1_or_2_days")
            if 0 in config_delays(res.cfg):
                ctx.count("wholerun_runs_with_repair_delay_0")
            if res.n_sims > 1:
                ctx.count("wholerun_runs_with_several_simulations")
            if res.ndays <= 2:
                ctx.count("wholerun_runs_period_of_1_or_2_days")
            if res.start.year != res.end.year:
                ctx.count("wholerun_runs_straddling_new_year")
            ctx.sample({"whole_run": {k: res.cfg[k] for k in ("granular", "start", "end", "n_sites")},
                        "programs": res.programs,
                        "intermittent_sources": [s["source"] for s in res.cfg.get("sources", []) if not s["persistent"]]},
                       cap=8)
        for res in PARTIAL:
            recs_all = list(EC.records(res))
            for sim in range(res.n_sims):
                for prog in res.programs:
                    if res.timeseries(prog, sim) is None or res.emissions(prog, sim) is None:
                        continue
                    judge_program_run(ctx, res, recs_all, prog, sim, {}, [], conform=False)
        if not ctx.counts.get("wholerun_program_with_intermittent_sources"):
            ctx.note("no whole run with intermittent sources in this run (forced configuration crashed?)")
    finally:
        for res in results + PARTIAL:
            res.cleanup()
        del PARTIAL[:]


WITNESS = (4, [([(0, 10, 0, True, True, 1, 2, 1024)], [])])


def intermittent_witness(ctx):
    """replay of the Lean witness `f4bWitness` (Props/C11.lean: f4bWitness_day1, C11_counterexample,
    C11_during_counterexample) on the real classes: intermittent, on 1 day / off 2 days, rate 1 g/s.
    On day 1 it is active, `days_emitting` does not move, `is_emitting()` is False after the update —
    and the row shows 86.4.  Judged by the general discrepancy oracle (no dedicated signature)."""
    d = drive(WITNESS)
    out = LeanDriver("drv_world").run(model_lines(WITNESS, ("rows", "recrows", "recs", "emit")))
    raised = judge_world(ctx, WITNESS, d, out[-4], out[-3], out[-2], out[-1])
    ob = d["obs"][1]
    ok = (d["rows"][1][1] == 1 and d["rows"][1][5] == 1024 and ob["s_after"] == 0 and ob["s_during"] == 0)
    ctx.count("lean_witness_reproduced_on_real_classes", 1 if ok and any(s == F4B for s, _ in raised) else 0)
    if not ok:
        ctx.note("the Lean F4b witness (on 1 / off 2, day 1) no longer reproduces on the real classes")


def run(ctx):
    ctx.rule = ("component stage: random worlds of 1-3 real Components x 1-4 emissions (all 9 kinds), 1-10 days, "
                "tag + detection-only events (15% on the last day): rows, records, Lean-side reconstruction and emitting "
                "sums compared; accumulator / list / ledger / reconstruction / emitting oracles per day; whole-run stage: "
                "every (program, simulation) of generated configurations, the first one forced to have a repairable and a "
                "non-repairable intermittent source; non-trivial/distinct by (#days, #new, #repaired, #natural, #expired)")
    core.lean_stage(ctx, MODULE, FILE, drivers=["drv_world", "drv_emission"])
    EC.tie_stage(ctx)  # layer 3: the emission methods, translated from the current source, are the model's functions
    component_stage(ctx)
    scale_stage(ctx)
    intermittent_witness(ctx)
    wholerun(ctx)


def replay(ctx, data):
    """re-executes the stored input and re-evaluates the oracle; exit 1 iff it still fails"""
    inp = data.get("input", {})
    sig = data.get("signature")
    if "scale_case" in inp:
        c = inp["scale_case"]
        raised = scale_oracle(scale_case(c["seed"], c["n_emis"], c["n_comps"]))
        for s_, d, what, col in raised[:6]:
            print("oracle:", s_, "day", d, "-", what)
        still = any(s_ == sig for s_, _, _, _ in raised) if sig else bool(raised)
        print("replay:", "still fails" if still else "no longer fails")
        return 1 if still else 0
    if "world" in inp:
        w = inp["world"]
        world = (w[0], [([tuple(e) for e in c[0]], [tuple(e) for e in c[1]]) for c in w[1]])
        d = drive(world)
        out = LeanDriver("drv_world").run(model_lines(world, ("rows", "recrows", "recs", "emit")))
        print("implementation rows:", fmt_rows(d["rows"]))
        print("model rows         :", out[-4])
        print("from records (Lean):", out[-3])
        raised = judge_world(ctx, world, d, out[-4], out[-3], out[-2], out[-1], record=False)
        for s, what in raised:
            print("oracle:", s, "-", what)
        still = any(s == sig for s, _ in raised) if sig else bool(raised) or fmt_rows(d["rows"]) != out[-4]
        print("replay:", "still fails" if still else "no longer fails")
        return 1 if still else 0
    if "cfg" in inp:
        from harness import wholerun as W

        pool = bool(inp.get("pool_mode"))
        if inp.get("run_before_in_the_same_folder"):
            res = W.run_after(inp["run_before_in_the_same_folder"], inp["cfg"], debug=not pool, processes=1, trace=True)
        else:
            res = W.run_config(inp["cfg"], debug=not pool, processes=1, trace=True)
        res.pool_mode = pool
        try:
            partial = res.rc != 0
            if partial:
                print("replay: the stored configuration crashes: " + res.log.strip().splitlines()[-1][:200])
                if res.timeseries(inp["prog"], inp["sim"]) is None or res.emissions(inp["prog"], inp["sim"]) is None:
                    print("replay: ... before the stored program wrote its two output files")
                    return 2
            recs_all = list(EC.records(res))
            method_ids = {m: i + 1 for i, m in enumerate(sorted(res.cfg["methods"]))}
            delays = config_delays(res.cfg)
            raised = judge_program_run(ctx, res, recs_all, inp["prog"], inp["sim"], method_ids, delays, record=False,
                                       conform=False)
            raised += zero_coverage_oracle(ctx, res, record=False)
            for s in raised:
                print("oracle:", s)
            still = (sig in raised) if sig else bool(raised)
            print("replay:", "still fails" if still else "no longer fails")
            return 1 if still else 0
        finally:
            res.cleanup()
    print("replay: nothing executable in this file (broken-obligation record)")
    print(json.dumps(data, default=str)[:3000])
    return 1
