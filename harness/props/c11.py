"""C11 — the daily timeseries and the per-emission records tell the same story.

Lean: Props/C11.lean (ledger, emis_split, emis_active, emis_active_emitting_partial, C11_partial,
C11_counterexample, counts, reconstruct_em, reconstruct).  Model: Model/World.lean.
Tie: (1) small random worlds driven through real Component/Source objects (several emissions of all
four classes per component, tag + detection-only events) — per-day row of the real
update_emissions_state/activate_emissions vs drv_world; (2) whole simulations: the rows of
timeseries.csv vs drv_world fed with the run's own records and logged events.
Oracle (independent of the model): ledger on the file's rows, run counts vs record counts,
reconstruction of every row from the records' start/end dates and rates.
"""
from datetime import timedelta
from fractions import Fraction

from harness import core
from harness.core import LeanDriver
from harness.props import _emission_common as EC

MANIFEST_ENTRY = {
    "text": "Lean theorems over any list of emissions with arbitrary event schedules: ledger (active = previous active + new - repaired - naturally repaired - expired, every day incl. day 0), emis_split and emis_active (daily emissions = summed rates of emissions active at the end of the day, split into mitigable/non-mitigable), counts (new/repaired/naturally repaired/expired summed over the run = record counts, by telescoping), reconstruct (every row is a function of the records' start date, end date, rate, repairability; proved from the emission invariants, frozen-after-end and monotone-active-days lemmas). The 'active AND emitting' clause is proved for persistent sources (C11_partial) and refuted for intermittent ones (C11_counterexample, known finding F4b). Tied to the code by per-day correspondence on real Component/Source objects and by whole-run conformance of timeseries.csv with the model fed by the run's own records and logged events; the oracle recomputes ledger, counts and reconstruction from the two output files alone.",
    "design_ref": "DESIGN.md 5.11",
    "note": "trusted: Lean kernel + standard axioms; model tied by sampled correspondence; timeseries.csv writes floats with 5 decimals, so daily emission sums are compared with the exact rational 86.4 x sum(rate) within 1e-5 (rates dyadic); 'expired' has no timeseries column and is derived from the records",
    "technique": "Lean 4 proofs (per-emission step lemmas summed over the world, telescoping, invariant-based reconstruction) + differential correspondence + direct oracle on the two output files",
}
MODULE = "LdarModel.Props.C11"
FILE = "LdarModel/Props/C11.lean"


# ---------------------------------------------------------------------------------------------
# component-level correspondence
# ---------------------------------------------------------------------------------------------
small_world = EC.small_world


def impl_rows(world):
    from harness.adapters import emission as E
    from file_processing.output_processing.output_utils import EmisInfo, TsEmisData
    from scheduling.schedule_dataclasses import TaggingInfo

    n, comps = world
    real = []
    for ems, evs in comps:
        objs = [E.make_emission(st, nrd, dl, rep, inter, ad, idur, rate=r / 1024.0) for (st, nrd, dl, rep, inter, ad, idur, r) in ems]
        real.append((E.make_component(objs), evs))
    rows = []
    for dn in range(n):
        cur = E.SIM_START + timedelta(days=dn)
        new = 0
        for comp, evs in real:
            new += comp.activate_emissions(cur, 0)
        for comp, evs in real:
            for ev in evs:
                if ev[0] != dn:
                    continue
                if len(ev) > 3 and ev[3] == 1:
                    for e_ in comp._active_emissions:
                        e_.update_detection_records(company=f"c{ev[1]}", detect_date=cur)
                elif comp._active_emissions:
                    comp.tag_emissions(TaggingInfo(2.0, cur, 5, f"c{ev[1]}", "1", ev[2]))
        info, data = EmisInfo(), TsEmisData()
        for comp, evs in real:
            comp.update_emissions_state(info, data)

        def sc(x):
            # 86.4 is not a dyadic number: the float sum of rate*86.4 is within rounding error of the
            # exact value; rates are multiples of 1/4 g/s, so the nearest multiple is unambiguous
            f = Fraction(x) * 1024 * 10 / 864
            k = round(f)
            assert abs(f - k) < Fraction(1, 1000), x
            return int(k)
        rows.append("%d:%d:%d:%d:%d:%d:%d:%d" % (new, data.active_leaks, info.leaks_repaired, info.leaks_nat_repaired,
                                               info.emis_expired, sc(data.daily_emis), sc(data.daily_emis_mit),
                                               sc(data.daily_emis_non_mit)))
    return ";".join(rows)


def model_lines(world):
    n, comps = world
    lines = ["world %d" % n]
    for ems, evs in comps:
        evs_s = "[" + ",".join("[" + ",".join(str(x) for x in e) + "]" for e in evs) + "]"
        for (st, nrd, dl, rep, inter, ad, idur, r) in ems:
            lines.append("em %d %d %d %d %d %d %d %d %s" % (st, nrd, dl, int(rep), int(inter), ad, idur, r, evs_s))
    lines.append("rows")
    return lines


def component_stage(ctx):
    worlds = [small_world(ctx.rng) for _ in range(ctx.pick(1500, 30000))]
    lines, idx = [], []
    for w in worlds:
        ml = model_lines(w)
        lines += ml
        idx.append(len(lines) - 1)
    out = LeanDriver("drv_world").run(lines)
    for w, i in zip(worlds, idx):
        ctx.evaluations += 1
        ctx.traces += 1
        try:
            il = impl_rows(w)
        except AssertionError:
            # daily emission float sum not exactly representable: outside the exact grid
            ctx.count("component_world_inexact_sum")
            continue
        if il != out[i]:
            ctx.disagree("world/component-rows", {"world": w}, out[i], il)
        rows = [tuple(int(x) for x in r.split(":")) for r in il.split(";")]
        prev = 0
        for r in rows:
            new, act, rep, nat, exp, em, mit, non = r
            if act != prev + new - rep - nat - exp:
                ctx.violate("C11:ledger:component", "ledger fails on real Component objects", {"world": w, "rows": il})
            if em != mit + non:
                ctx.violate("C11:split:component", "daily emissions != mitigable + non-mitigable", {"world": w, "rows": il})
            prev = act
        ctx.nontrivial.add(("cw", len(rows), sum(r[0] for r in rows), sum(r[2] for r in rows), sum(r[3] for r in rows),
                            sum(r[4] for r in rows)))
    ctx.sample({"world": worlds[0], "impl_rows": impl_rows(worlds[0])})


# ---------------------------------------------------------------------------------------------
# whole-run stage
# ---------------------------------------------------------------------------------------------
TS = {"new": "New Leaks", "active": "Active Leaks", "rep": "Leaks Repaired", "nat": "Leaks Naturally Repaired",
      "emis": "Daily Emissions (Kg Methane)", "mit": "Daily Mitigable Emissions (Kg Methane)",
      "non": "Daily Non-Mitigable Emissions (Kg Methane)"}


def close(file_val, scaled_sum):
    """file value (5 decimals) vs exact 86.4 * sum(rate), rates given x1024"""
    exact = Fraction(864, 10) * Fraction(scaled_sum, 1024)
    return abs(Fraction(file_val) - exact) <= Fraction(1, 50000)


def wholerun(ctx):
    results = EC.run_configs(ctx, ctx.pick(2, 10), ndays=None) if False else EC.run_configs(ctx, ctx.pick(2, 10))
    try:
        for res in results:
            recs_all = list(EC.records(res))
            method_ids = {m: i + 1 for i, m in enumerate(sorted(res.cfg["methods"]))}
            delays = [int(x) for x in res.cfg["repair_delay"]]
            for sim in range(res.n_sims):
                for prog in res.programs:
                    ts = res.timeseries(prog, sim)
                    recs = [r for r in recs_all if r["prog"] == prog and r["sim"] == sim]
                    inp = {"cfg": res.cfg, "prog": prog, "sim": sim}
                    N = res.ndays
                    if ts is None or len(ts) != N:
                        ctx.violate("C11:timeseries-length", "timeseries does not have one row per simulated day", inp)
                        continue
                    # ---- oracle on the two files alone -----------------------------------------
                    exp_on = [0] * N
                    for r in recs:
                        if r["status"] == "expired" and r["endDate"] is not None and 1 <= r["endDate"] <= N:
                            exp_on[r["endDate"] - 1] += 1
                    prev = 0
                    bad = None
                    for n, row in enumerate(ts):
                        act, new = int(row[TS["active"]]), int(row[TS["new"]])
                        rp, nt = int(row[TS["rep"]]), int(row[TS["nat"]])
                        if act != prev + new - rp - nt - exp_on[n] and bad is None:
                            bad = ("C11:ledger", n)
                        prev = act
                        # reconstruction from the records
                        a_cnt = 0
                        s_all = s_mit = s_non = 0
                        s_emitting_only = 0
                        for r in recs:
                            a0 = max(r["start"], 0)
                            if a0 <= n and (r["endDate"] is None or n + 1 < r["endDate"]):
                                a_cnt += 1
                                sc = int(Fraction(r["rate"]) * 1024)
                                s_all += sc
                                if r["repairable"]:
                                    s_mit += sc
                                else:
                                    s_non += sc
                        if a_cnt != act and bad is None:
                            bad = ("C11:reconstruct:active-count", n)
                        if not (close(row[TS["emis"]], s_all) and close(row[TS["mit"]], s_mit) and close(row[TS["non"]], s_non)) and bad is None:
                            bad = ("C11:reconstruct:emissions", n)
                        if not close(Fraction(row[TS["emis"]]) - Fraction(row[TS["mit"]]) - Fraction(row[TS["non"]]) + 0, 0) and bad is None:
                            if abs(Fraction(row[TS["emis"]]) - Fraction(row[TS["mit"]]) - Fraction(row[TS["non"]])) > Fraction(3, 100000):
                                bad = ("C11:split", n)
                    if bad:
                        ctx.violate(bad[0], f"timeseries and records disagree on day {bad[1]}", dict(inp, day=bad[1]))
                    tot = lambda k: sum(int(r[TS[k]]) for r in ts)
                    if tot("new") != len(recs):
                        ctx.violate("C11:counts:new", "sum of New Leaks != number of emission records", inp)
                    if tot("rep") != sum(1 for r in recs if r["status"] == "repaired" and r["by"] != "natural"):
                        ctx.violate("C11:counts:repaired", "sum of Leaks Repaired != records repaired by the program", inp)
                    if tot("nat") != sum(1 for r in recs if r["status"] == "repaired" and r["by"] == "natural"):
                        ctx.violate("C11:counts:natural", "sum of Leaks Naturally Repaired != records naturally repaired", inp)
                    # intermittent sources: the property's 'active and emitting' clause (known F4b)
                    if any(r["intermittent"] for r in recs):
                        ctx.count("wholerun_program_with_intermittent_sources")
                    # ---- conformance with the model --------------------------------------------
                    lines = ["world %d" % N]
                    ok = True
                    for r in recs:
                        # the sampled repair delay is the configured value that reproduces the record
                        cand = delays if r["repairable"] else delays[:1]
                        ml = [EC.model_line_for_record(r, dl, N, method_ids) for dl in cand]
                        outs = LeanDriver("drv_emission").run(ml)
                        want = EC.record_summary(r, method_ids)
                        pick = next((dl for dl, o in zip(cand, outs) if o.split(" | ")[0] == want), None)
                        if pick is None:
                            ok = False
                            break
                        evs = [(e[1], method_ids[e[5]], e[6]) if e[0] == "tag" else (e[1], method_ids[e[5]], 0, 1) for e in r["tags"]]
                        evs_s = "[" + ",".join("[" + ",".join(str(x) for x in e) + "]" for e in evs) + "]"
                        lines.append("em %d %d %d %d %d %d %d %d %s" % (
                            r["start"], r["nrd"], pick, int(r["repairable"]), int(r["intermittent"]), r["adur"], r["idur"],
                            int(Fraction(r["rate"]) * 1024), evs_s))
                    if not ok:
                        ctx.disagree("world/record-not-reproduced", inp, None, None)
                        continue
                    lines.append("rows")
                    out = LeanDriver("drv_world").run(lines)[-1].split(";")
                    ctx.evaluations += 1
                    ctx.traces += 1
                    for n, (row, mr) in enumerate(zip(ts, out)):
                        new, act, rp, nt, ex, em, mit, non = (int(x) for x in mr.split(":"))
                        same = (new == int(row[TS["new"]]) and act == int(row[TS["active"]]) and rp == int(row[TS["rep"]])
                                and nt == int(row[TS["nat"]]) and ex == exp_on[n] and close(row[TS["emis"]], em)
                                and close(row[TS["mit"]], mit) and close(row[TS["non"]], non))
                        if not same:
                            ctx.disagree("world/whole-run-row", dict(inp, day=n), mr, {k: row[v] for k, v in TS.items()})
                            break
                    ctx.nontrivial.add(("wr", prog, len(recs), tot("new"), tot("rep"), tot("nat")))
                    ctx.count("wholerun_program_runs")
            ctx.sample({"whole_run": {k: res.cfg[k] for k in ("granular", "start", "end", "n_sites")},
                        "programs": res.programs}, cap=8)
    finally:
        for res in results:
            res.cleanup()


def intermittent_witness(ctx):
    """replay of the C11_counterexample witness on the real classes: an intermittent emission that is
    active but not emitting still contributes to the daily emissions"""
    from harness.adapters import emission as E
    from file_processing.output_processing.output_utils import EmisInfo, TsEmisData

    em = E.make_emission(0, 10, 0, True, True, 1, 1, rate=1.0)
    comp = E.make_component([em])
    comp.activate_emissions(E.SIM_START, 0)
    info, data = EmisInfo(), TsEmisData()
    comp.update_emissions_state(info, data)
    if data.active_leaks == 1 and not em.is_emitting() and data.daily_emis != 0:
        ctx.violate("C11:emissions:intermittent-not-emitting",
                    "daily emissions include an active intermittent emission that is not emitting",
                    {"witness": "intermittent on1/off1 rate 1, day 0", "daily_emis": data.daily_emis})


def run(ctx):
    ctx.rule = ("component stage: random worlds of 1-3 real Components x 1-4 emissions (all 8 kinds), 1-10 days, "
                "tag + detection-only events, row-by-row comparison; whole-run stage: every (program, simulation) of "
                "generated configurations; non-trivial/distinct by (#days, #new, #repaired, #natural, #expired)")
    core.lean_stage(ctx, MODULE, FILE, drivers=["drv_world", "drv_emission"])
    component_stage(ctx)
    intermittent_witness(ctx)
    wholerun(ctx)


def replay(ctx, data):
    inp = data.get("input", {})
    if "world" in inp:
        w = inp["world"]
        world = (w[0], [([tuple(e) for e in c[0]], [tuple(e) for e in c[1]]) for c in w[1]])
        print("implementation rows:", impl_rows(world))
        print("model rows         :", LeanDriver("drv_world").run(model_lines(world))[-1])
        return 1
    print("replay: whole-run input; re-run the configuration in input.cfg with harness.wholerun.run_config")
    print(str(inp)[:3000])
    return 1
