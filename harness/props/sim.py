"""SIM — the integrated simulation model against whole real runs (engine-level extra, not one of the
19 properties).

`lean/LdarModel/Model/Sim.lean` composes the component models (emission life-cycle, activation
cursor, sensor, crew day, cost booking, queue / planner / scheduled day, follow-up work practice) into
`simDay` = the body of `LdarSim.run_simulation`'s day loop, with all randomness and the environment as
explicit inputs.  This check runs generated configurations with the REAL simulator
(harness/wholerun.py, "sim_trace" wrappers), feeds the scenario and every recorded random outcome to
`drv_sim` and compares the model's timeseries rows and emission records with the real
`*_timeseries.csv` / `*_emissions_summary.csv`, column by column (integers exactly; money and kg within
the files' 5-decimal rounding).  `lean/LdarModel/Props/Sim.lean` holds the composition theorems.
"""
from __future__ import annotations

import collections
import concurrent.futures
import random
import re

from harness import core
from harness.adapters import sim as S
from harness.core import LeanDriver

MODULE = "LdarModel.Props.Sim"
FILE = "LdarModel/Props/Sim.lean"
MODULE2 = "LdarModel.Props.SimFollowUp"
FILE2 = "LdarModel/Props/SimFollowUp.lean"
MODULE3 = "LdarModel.Props.SimCalendar"
FILE3 = "LdarModel/Props/SimCalendar.lean"

MANIFEST_ENTRY = {
    "text": "Integrated simulation model: one executable Lean function (Sim.simDay / simRun) composing the component models (Emission, Heap, Sensor, Crew, Cost, Queue/Planner, FollowUp, World) into the day loop of LdarSim.run_simulation + Program.do_daily_program_deployment, all randomness and environment as inputs; composition theorems in Props/Sim.lean (sim_tag_chain, sim_row_world, sim_lifecycle, sim_cost_identity / sim_cost_program / sim_repairs_once, sim_zero_coverage, sim_issued_in_months, sim_repair_chain, sim_ledger / sim_reconstruct, sim_mitigation / sim_never_worse, sim_weather / sim_reqs_ok / sim_crews_within_workday, sim_sched_runDays; calendar: dateOf_valid / dateOf_strictMono / dateOf_injective / dateOf_year_mono / dateOf_year_interval, ord_nextDate / ord_dateOf (Props/SimCalendar.lean: the day-loop calendar and the summaries' day ordinal agree; chrono_of_calendar / sim_done_le_required: C06's never-more-than-required in the integrated simulation with the calendar hypothesis discharged, md_pairwise_of_calendar / sim_history_dates / sim_all_done_when_feasible for the feasible half, sim_not_deployed_never_surveyed, sim_sched_step / sim_stationary_day); Sim : Sim_statement; counterexamples for unsorted pending lists), validated against whole real runs: every timeseries column and every emission-record column of every (program, simulation) of generated configurations.",
    "design_ref": "lean/LdarModel/Model/Sim.lean (header: source map, inputs) and lean/LdarModel/Props/Sim.lean (header: theorem list); DESIGN.md section 10 entry to be added by the integrator from the builder report",
    "note": "engine-level extra; trusted: Lean kernel + standard axioms; the observation-only wrappers of harness/wholerun_worker.py (install_sim_wrappers) that record coverage rolls, travel times, weather outcomes, daylight, repair cost draws and the scenario; dyadic grids for rates and money; quantification error 0 in the generated configurations; the calendar (date of day n) is an input",
    "technique": "lean-proof + whole-run differential correspondence",
}

RULE = ("whole runs: seeded configurations of harness.wholerun.make_config (placeholder / granular infrastructure, "
        "persistent / intermittent sources, weather, daylight, 1-2 crews, P_none / P_OGI / P_air+follow-up / "
        "P_fix+follow-up) plus the shapes of make_variant (OGI + screening + follow-up in one program, two screening "
        "methods on one follow-up method, surveys longer than a day, five methods, two simulations), "
        "every (program, simulation): all timeseries columns + all emission-record columns; "
        "non-trivial/distinct by (program kind, #days, #emissions, #rolls, #program repairs, #flags); a case is "
        "counted only when the model drew exactly the rolls the run drew")


VARIANTS = ["base", "noise", "fix", "mix", "two", "slowfu", "slowogi", "all", "sims2", "dates", "names", "deploy",
            "ids", "shared", "pool6", "sims6", "bounds", "wide", "wide", "hist"]

# audit/LESSONS.md item 2: boundary periods put into the generator on purpose (start, end); every end (month, day)
# is not before the start's, so no trailing partial year (the planner crash recorded under C06)
BOUNDARY_PERIODS = [((2024, 1, 1), (2024, 12, 31)),     # a complete leap year: day-of-year 366 with weather
                    ((2023, 3, 15), (2024, 12, 31)),    # not starting Jan 1, ends Dec 31 of a leap year
                    ((2023, 1, 1), (2024, 12, 31)),     # New Year inside the run
                    ((2022, 7, 4), (2024, 7, 4)),       # neither Jan 1 nor Dec 31, Feb 29 inside
                    ((2024, 2, 27), (2024, 3, 2)),      # straddles Feb 29
                    ((2023, 12, 30), (2023, 12, 31)),   # two days, ends Dec 31
                    ((2023, 6, 10), (2023, 6, 10)),     # one day
                    ((2023, 11, 1), (2024, 11, 30))]    # a survey season straddling New Year


def rename_methods(cfg, mapping):
    """LESSONS 3: method names with underscores / digits / prefixes of each other"""
    cfg["methods"] = {mapping.get(k, k): v for k, v in cfg["methods"].items()}
    for m in cfg["methods"].values():
        fu = m.get("follow_up")
        if fu and fu.get("preferred_method") in mapping:
            fu["preferred_method"] = mapping[fu["preferred_method"]]
    for p in cfg["programs"]:
        p["methods"] = [mapping.get(x, x) for x in p["methods"]]


def make_variant(rng, kind, quick):
    """the generator of harness.wholerun plus program shapes it does not produce: a routine OGI method next
    to a screening method and its follow-up ("mix"), two screening methods bound to one follow-up method
    ("two"), surveys longer than a work day with two crews ("slowfu", "slowogi"), five methods in one
    program ("all"), two simulations ("sims2")"""
    import copy

    from harness import wholerun as W

    from datetime import date

    ov = {}
    if quick:
        ov["ndays"] = rng.choice([120, 200, 400])
    if kind == "dates":
        st, en = rng.choice(BOUNDARY_PERIODS)
        ov["start"] = list(st)
        ov["ndays"] = (date(*en) - date(*st)).days + 1
    if kind in ("sims6", "pool6"):
        ov.update({"ndays": 120, "n_sites": 4})
    if kind == "wide":
        # harness.wholerun "wide" configurations: leaves the base generator never varies / boundary values;
        # every value the model needs is read from the cfg or from the constructed objects, never assumed
        ov["wide"] = True
        ov["ndays"] = rng.choice([120, 200])
    if kind == "slowogi" and rng.random() < 0.5:
        # a multi-day survey / an outstanding request straddling New Year
        ov["start"] = [rng.choice([2022, 2023]), rng.choice([11, 12]), 1]
        ov["ndays"] = rng.choice([200, 396])
    cfg = W.make_config(rng, **ov)
    M = cfg["methods"]
    none = {"name": "P_none", "methods": []}
    if kind == "fix":
        if len(cfg["programs"]) < 4:
            cfg["programs"].append({"name": "P_fix", "methods": ["FIX", "OGI_FU2"]})
    elif kind == "mix":
        # a leak can be tagged by OGI and, while it waits for its repair, again by OGI_FU (other reporting delay)
        M["OGI"].update({"reporting_delay": 5, "surveys_per_year": 12, "mdl": 0.125})
        M["OGI_FU"].update({"reporting_delay": 0})
        M["AIR"].update({"surveys_per_year": 12, "mdl": 0.5})
        M["AIR"]["follow_up"].update({"threshold": 0.0, "delay": 0})
        cfg["repair_delay"] = [14]
        cfg["programs"] = [{"name": "P_mix", "methods": ["OGI", "AIR", "OGI_FU"]}, none]
    elif kind == "two":
        M["AIR2"] = copy.deepcopy(M["AIR"])
        M["AIR2"].update({"surveys_per_year": 6, "mdl": 0.5, "reporting_delay": 1})
        M["AIR2"]["follow_up"]["threshold"] = 0.0
        cfg["programs"] = [{"name": "P_two", "methods": ["AIR", "AIR2", "OGI_FU"]}, none]
    elif kind == "slowfu":
        M["OGI_FU"].update({"survey_time": 500, "crew_count": 2})
        M["AIR"].update({"crew_count": 2, "surveys_per_year": 12, "mdl": 0.5})
        M["AIR"]["follow_up"]["threshold"] = 0.0
        cfg["programs"] = [{"name": "P_air", "methods": ["AIR", "OGI_FU"]}, none]
    elif kind == "slowogi":
        M["OGI"].update({"survey_time": 700, "crew_count": 2, "surveys_per_year": 6})
        cfg["programs"] = [{"name": "P_OGI", "methods": ["OGI"]}, none]
    elif kind == "all":
        cfg["programs"] = [{"name": "P_all", "methods": ["OGI", "AIR", "OGI_FU", "FIX", "OGI_FU2"]}, none]
    elif kind == "sims2":
        cfg["n_sims"] = 2
    elif kind == "dates":
        cfg["consider_weather"] = rng.random() < 0.5
        cfg["weather_mode"] = "mixed"
        if len(cfg["programs"]) < 4:
            cfg["programs"].append({"name": "P_fix", "methods": ["FIX", "OGI_FU2"]})
    elif kind == "names":
        rename_methods(cfg, {"OGI": "O_G1", "AIR": "AIR_2_x", "OGI_FU": "O_G1_FU", "FIX": "FIX_", "OGI_FU2": "O_G1_FU_2"})
    elif kind == "deploy":
        # `<method>_site_deployment` columns: each method is NOT deployed at some sites
        ids = [st["id"] for st in cfg["sites"]]
        cfg["site_extra_cols"] = {
            "OGI_site_deployment": {i: ("False" if k % 3 == 0 else "True") for k, i in enumerate(ids)},
            "AIR_site_deployment": {i: ("False" if k % 3 == 1 else "True") for k, i in enumerate(ids)},
            "FIX_site_deployment": {i: ("False" if k % 2 == 1 else "True") for k, i in enumerate(ids)},
            # per-site survey-cost overrides next to sites that inherit the method's cost (blank cell)
            "OGI_survey_cost": {i: (384.0 if k % 2 == 0 else "") for k, i in enumerate(ids)},
            "OGI_FU_survey_cost": {i: (96.0 if k % 2 == 1 else "") for k, i in enumerate(ids)}}
        M["OGI"]["cost"].update({"per_day": 0.0, "per_site": 128.0})
        M["OGI"].update({"survey_time": 60, "surveys_per_year": 6})
        if len(cfg["programs"]) < 4:
            cfg["programs"].append({"name": "P_fix", "methods": ["FIX", "OGI_FU2"]})
    elif kind == "ids":
        # unsorted integer ids / string ids whose natural and lexicographic orders differ
        pool_ = ([33, 2, 10, 7, 101, 1, 9, 20, 5, 11] if rng.random() < 0.5 else
                 ["s10", "s9", "a_2", "10", "s1", "site 3", "S10", "s_11", "9", "s2"])
        for st, i in zip(cfg["sites"], pool_):
            st["id"] = i
    elif kind == "shared":
        # two programs share a method label whose coverage lies in (0, 1) (sticky per-emission rolls must not
        # leak from one program's copy of the scenario into the other's)
        M["OGI"].update({"spatial": 0.5})
        M["AIR"].update({"spatial": 0.5, "temporal": 0.75})
        cfg["programs"] = [none, {"name": "P_OGI", "methods": ["OGI"]}, {"name": "P_OGIb", "methods": ["OGI"]},
                           {"name": "P_air", "methods": ["AIR", "OGI_FU"]}, {"name": "P_airb", "methods": ["AIR", "OGI_FU"]}]
    elif kind == "pool6":
        # pool mode, 6 programs on 1 process: Pool.starmap pickles several program tasks in one chunk
        cfg["programs"] = [none, {"name": "P_OGI", "methods": ["OGI"]}, {"name": "P_air", "methods": ["AIR", "OGI_FU"]},
                           {"name": "P_fix", "methods": ["FIX", "OGI_FU2"]}, {"name": "P_OGIb", "methods": ["OGI"]},
                           {"name": "P_airb", "methods": ["AIR", "OGI_FU"]}]
        cfg["_run"] = {"debug": False, "processes": 1}
    elif kind == "sims6":
        cfg["n_sims"] = 6            # batches of 5 + 1
    elif kind == "hist":
        # a run on a folder an EARLIER run with one different defining leaf has left behind (generator cache,
        # output folder): the second run is compared with the model
        prev, what = W.prev_variant(cfg, rng)
        prev["sim_trace"] = False
        cfg["_prev"] = prev
        cfg["_prev_differs"] = what
    elif kind == "bounds":
        # LESSONS 3: zero and maximal parameter values
        M["AIR"]["follow_up"].update({"proportion": 0.0, "delay": 0, "threshold": 0.0})
        M["AIR"].update({"mdl": 0.5, "surveys_per_year": 12, "spatial": 1.0, "temporal": 1.0})
        M["FIX"]["follow_up"].update({"delay": 0})
        M["OGI"].update({"spatial": 1.0, "reporting_delay": 0})
        cfg["repair_delay"] = [0]
        if len(cfg["programs"]) < 4:
            cfg["programs"].append({"name": "P_fix", "methods": ["FIX", "OGI_FU2"]})
    elif kind == "noise":
        # non-zero quantification error on a grid on which the float arithmetic is exact (multiples of 25 %):
        # "sample" type drawing from a file, degenerate "uniform" / "default" (normal with sd 0) types
        cfg["extra_inputs"] = {"qerr.csv": "err,other\n" + "\n".join(f"{v},0" for v in
                               (-100, -75, -50, -25, 0, 0, 25, 50, 100, 150)) + "\n"}
        M["OGI"].update({"qe": ["qerr.csv", "err"], "qe_type": "sample"})
        M["AIR"].update({"qe": ["qerr.csv", "err"], "qe_type": "sample", "mdl": 0.5})
        M["AIR"]["follow_up"].update({"threshold": rng.choice([0.0, 1.0, 2.0]), "instant_threshold": rng.choice([None, 4.0])})
        M["OGI_FU"].update({"qe": [rng.choice([-50.0, 25.0, 50.0])] * 2, "qe_type": "uniform"})
        M["FIX"].update({"qe": [rng.choice([-25.0, 50.0])] * 2, "qe_type": "default"})
        M["OGI_FU2"].update({"qe": ["qerr.csv", "err"], "qe_type": "sample"})
        if len(cfg["programs"]) < 4:
            cfg["programs"].append({"name": "P_fix", "methods": ["FIX", "OGI_FU2"]})
    cfg["sim_trace"] = True
    cfg["_variant"] = kind
    return cfg


def configs(ctx, n):
    out = []
    for k in range(n):
        seed = ctx.rng.randrange(1 << 30)
        rng = random.Random(seed)
        kind = VARIANTS[k % len(VARIANTS)]
        cfg = make_variant(rng, kind, ctx.quick)
        cfg["_verif_seed"] = seed
        out.append(cfg)
    return out


def run_case(cfg, res, tr):
    """-> (status, case, diffs, info); status: ok | unsupported | anomaly"""
    import traceback

    try:
        case = S.Case(cfg, res, tr)
    except S.Anomaly as e:
        return "anomaly", None, [], str(e)
    except S.Unsupported as e:
        return "unsupported", None, [], str(e)
    except Exception as e:  # LESSONS 7: an unexpected shape of the trace is a finding about the run, not exit 2
        return "anomaly", None, [], "adapter could not interpret the trace: %r at %s" % (
            e, traceback.format_exc().strip().splitlines()[-3].strip()[:160])
    try:
        out = LeanDriver("drv_sim").run(case.lines)
        rows, recs = case.parse(out)
        wf = out[case.head].strip().endswith("wf=1")
        diffs = case.compare(rows, recs)
        pk = case.check_pickle()
    except core.InfraError:
        raise
    except Exception as e:
        return "anomaly", None, [], "model / comparison could not be evaluated on this run: %r at %s" % (
            e, traceback.format_exc().strip().splitlines()[-3].strip()[:160])
    if not pk[0]:
        diffs.append(("scenario-differs-from-pickle", None, pk[2], pk[1]))
    return "ok", case, diffs, {"rows": rows, "recs": recs, "wf": wf}


def mutate_selftest(case):
    """the comparison must notice a flipped detection: returns True when a perturbed input produces a
    difference (None when the case offers nothing to perturb)"""
    idx = next((i for i, l in enumerate(case.lines) if l.startswith("rolls ") and re.search(r",1,1\]", l)), None)
    if idx is None:
        return None
    lines = list(case.lines)
    lines[idx] = re.sub(r",1,1\]", ",0,2]", lines[idx], count=1)
    rows, recs = case.parse(LeanDriver("drv_sim").run(lines))
    return bool(case.compare(rows, recs))


def analyse(ctx, cfg, res):
    key = {"cfg_seed": cfg.get("_verif_seed"), "ndays": res.ndays}
    if res.rc != 0:
        # LESSONS 7: a crashed whole run is never skipped silently; the generated shapes do not crash the
        # unchanged simulator, so the configuration itself is the failing input
        ctx.count("wholerun_rc_nonzero")
        ctx.note(f"whole-run configuration {key} ended with rc={res.rc}: {res.log[-300:]}")
        # crashes that are the recorded findings of the owning properties (known_findings.json): counted, not re-reported
        known = [("get_yearly_value_for_multi_day_stat", "ZeroDivisionError", "C14-open-ended-yearly-share"),
                 ("_estimate_method_crews_required", "OverflowError", "crew estimate when no survey fits a workday"),
                 ("scheduled_survey_planner", "KeyError", "C06 F12 trailing partial year")]
        for frame, exc, what in known:
            if frame in res.log and exc in res.log[-400:]:
                ctx.count("wholerun_crashed:known:" + what)
                return
        ctx.violate("SIM:run-crashed", "the real simulator crashed on a generated configuration: "
                    + (res.log.strip().splitlines() or ["?"])[-1][:200],
                    {"cfg": {k: v for k, v in cfg.items()}, "rc": res.rc, "log_tail": res.log[-1500:]})
        return
    for tr in res.trace:
        kind = S.program_kind(cfg, tr["prog"])
        status, case, diffs, info = run_case(cfg, res, tr)
        inp = {"cfg": {k: v for k, v in cfg.items()}, "prog": tr["prog"], "sim": tr["sim"]}
        if status == "anomaly":
            ctx.count(f"anomaly:{kind}")
            ctx.violate("SIM:anomaly:" + re.sub(r"[^a-zA-Z]+", "-", info)[:60].strip("-"),
                        f"the run of {tr['prog']} has a shape the unchanged simulator never produces: {info}", inp)
            continue
        if status == "unsupported":
            # outside the grids / shapes the adapter can feed to the model exactly: reported, not skipped silently
            ctx.count(f"unsupported:{kind}")
            ctx.note(f"unsupported case {key} {tr['prog']}: {info}")
            ctx.broke(f"sim/unsupported:{kind}", f"{key} {tr['prog']}: {info}")
            continue
        ctx.evaluations += 1
        ctx.traces += 1
        ctx.count(f"runs:{kind}")
        ctx.count("days", case.N)
        ctx.count("emissions", len(case.ems))
        ctx.count("rolls", case.n_rolls)
        ctx.count("nonzero_quantification_shifts", case.n_shifts)
        if not info["wf"]:
            ctx.count("scenario_not_wellformed")
            ctx.disagree("sim/scenario-not-wellformed", inp, "wfWorld = false", None)
        if diffs:
            ctx.count(f"DIFF:{kind}")
            by = collections.Counter(d[0] for d in diffs)
            ctx.disagree(f"sim/{kind}", inp, {"columns": dict(by), "first": [str(d)[:300] for d in diffs[:5]]}, None)
            # the configuration is a concrete failing input: on it the real outputs differ from the integrated
            # model (replay: ./check SIM --replay <file> re-runs it and prints the differing columns)
            first = sorted(by)[0]
            ctx.violate(f"SIM:differs:{first.split(':')[0]}",
                        f"real run differs from the integrated model ({kind}): " + ", ".join(sorted(by))[:300],
                        dict(inp, first=[str(d)[:300] for d in diffs[:5]]))
        else:
            ctx.count(f"agree:{kind}")
            rows = info["rows"]
            ctx.nontrivial.add((kind, case.N, len(case.ems), case.n_rolls, sum(r["rep"] for r in rows),
                                sum((m["flags"] or 0) for r in rows for m in r["meth"])))
            ctx.count("program_repairs", sum(r["rep"] for r in rows))
            ctx.count("flags", sum((m["flags"] or 0) for r in rows for m in r["meth"]))
            ctx.count("tagging_calls", sum(r["tagged"] for r in rows))
            st = mutate_selftest(case)
            if st is not None:
                ctx.count("selftest_perturbed_roll_noticed" if st else "selftest_perturbed_roll_NOT_noticed")
    ctx.sample({"whole_run": {k: cfg[k] for k in ("granular", "start", "end", "n_sites", "consider_weather", "daylight", "_variant")},
                "programs": [p["name"] for p in cfg["programs"]], "cfg_seed": cfg.get("_verif_seed")}, cap=8)


def run(ctx):
    from harness import wholerun as W

    ctx.rule = RULE
    ctx.assumptions.append("SIM: wrapper events of install_sim_wrappers are observation only (they read values the "
                           "simulator computed, never draw random numbers)")
    ctx.assumptions.append("SIM trusted inputs: the planners' evenly spaced plan dates (`_generate_evenly_spaced_dates`, "
                           "read from the real planners via the 'sched' event; Model/Planner.lean takes them as an input list, "
                           "C06 owns them), crew counts / daily capacity computed by the Method constructor; the calendar is "
                           "computed by the model (Sim.dateOf) and compared with datetime on every run")
    core.lean_stage(ctx, MODULE, FILE, drivers=["drv_sim"])
    core.lean_stage(ctx, MODULE2, FILE2)          # C09 lifted to the integrated model
    core.lean_stage(ctx, MODULE3, FILE3)          # the day-loop calendar agrees with the summaries' ordinal
    cfgs = configs(ctx, ctx.pick(20, 140))

    def one(cfg):
        r = cfg.get("_run") or {}
        if cfg.get("_prev") is not None:
            prev = cfg["_prev"]
            return cfg, W.run_after(prev, {k: v for k, v in cfg.items() if k != "_prev"})
        return cfg, W.run_config(cfg, debug=r.get("debug", True), processes=r.get("processes", 1))

    with concurrent.futures.ThreadPoolExecutor(max_workers=ctx.pick(6, 8)) as ex:
        results = list(ex.map(one, cfgs))
    try:
        for cfg, res in results:
            analyse(ctx, cfg, res)
    finally:
        for _, res in results:
            res.cleanup()
    ctx.extra["columns_compared"] = {"timeseries": S.TS_COLUMNS, "emission_records": S.REC_COLUMNS}
    kinds = sorted({k.split(":", 1)[1] for k in ctx.counts if k.startswith("runs:")})
    ctx.extra["program_kinds"] = {k: {"runs": ctx.counts.get(f"runs:{k}", 0), "full_agreement": ctx.counts.get(f"agree:{k}", 0),
                                      "unsupported": ctx.counts.get(f"unsupported:{k}", 0)} for k in kinds}
    if ctx.counts.get("selftest_perturbed_roll_NOT_noticed", 0) and not ctx.counts.get("selftest_perturbed_roll_noticed", 0):
        ctx.broke("sim/selftest", "a perturbed coverage roll never changed the comparison result")


def replay(ctx, data):
    from harness import wholerun as W

    inp = data.get("input") or {}
    if not inp:
        for d in data.get("correspondence_disagreements", []):
            if isinstance(d.get("input"), dict) and "cfg" in d["input"]:
                inp = d["input"]
                break
    if "cfg" not in inp:
        print("replay: no configuration in the replay file")
        print(str(data)[:2000])
        return 1
    cfg = inp["cfg"]
    r = cfg.get("_run") or {}
    if cfg.get("_prev") is not None:
        res = W.run_after(cfg["_prev"], {k: v for k, v in cfg.items() if k != "_prev"})
    else:
        res = W.run_config(cfg, debug=r.get("debug", True), processes=r.get("processes", 1))
    if res.rc != 0:
        print("the real simulator crashed on this configuration (rc=%d):" % res.rc)
        print(res.log[-1500:])
        res.cleanup()
        return 1
    try:
        rc = 0
        for tr in res.trace:
            if inp.get("prog") and tr["prog"] != inp["prog"]:
                continue
            status, case, diffs, info = run_case(cfg, res, tr)
            print(tr["prog"], status, len(diffs), "differences")
            for d in diffs[:20]:
                print("  ", str(d)[:400])
            rc = rc or (1 if diffs else 0)
        return rc
    finally:
        res.cleanup()
