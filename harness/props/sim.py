"""SIM — the integrated simulation model against whole real runs (engine-level extra, not one of the
19 properties).

`lean/LdarModel/Model/Sim.lean` composes the component models (emission life-cycle, activation
cursor, sensor, crew day, cost booking, queue / planner / scheduled day, follow-up work practice) into
`simDay` = the body of `LdarSim.run_simulation`'s day loop, with all randomness and the environment as
explicit inputs.  This check runs generated configurations with the REAL simulator
(harness/wholerun.py, "sim_trace" wrappers), feeds the scenario and every recorded random outcome to
`drv_sim` and compares the model's timeseries rows and emission records with the real
`*_timeseries.csv` / `*_emissions_summary.csv`, column by column (integers exactly; money and kg within
the files' 5-decimal rounding).  `lean/LdarModel/Props/Sim.lean` holds the composition theorems.
"""
from __future__ import annotations

import collections
import concurrent.futures
import random
import re

from harness import core
from harness.adapters import sim as S
from harness.core import LeanDriver

MODULE = "LdarModel.Props.Sim"
FILE = "LdarModel/Props/Sim.lean"

MANIFEST_ENTRY = {
    "text": "Integrated simulation model: one executable Lean function (Sim.simDay / simRun) composing the component models (Emission, Heap, Sensor, Crew, Cost, Queue/Planner, FollowUp, World) into the day loop of LdarSim.run_simulation + Program.do_daily_program_deployment, all randomness and environment as inputs; composition theorems in Props/Sim.lean (sim_tag_chain, sim_row_world, sim_lifecycle, sim_cost_identity / sim_cost_program / sim_repairs_once, sim_zero_coverage, sim_issued_in_months, sim_repair_chain, sim_ledger / sim_reconstruct, sim_mitigation / sim_never_worse, sim_weather / sim_reqs_ok / sim_crews_within_workday, sim_sched_runDays; Sim : Sim_statement; counterexamples for unsorted pending lists), validated against whole real runs: every timeseries column and every emission-record column of every (program, simulation) of generated configurations.",
    "design_ref": "lean/LdarModel/Model/Sim.lean (header: source map, inputs) and lean/LdarModel/Props/Sim.lean (header: theorem list); DESIGN.md section 10 entry to be added by the integrator from the builder report",
    "note": "engine-level extra; trusted: Lean kernel + standard axioms; the observation-only wrappers of harness/wholerun_worker.py (install_sim_wrappers) that record coverage rolls, travel times, weather outcomes, daylight, repair cost draws and the scenario; dyadic grids for rates and money; quantification error 0 in the generated configurations; the calendar (date of day n) is an input",
    "technique": "lean-proof + whole-run differential correspondence",
}

RULE = ("whole runs: seeded configurations of harness.wholerun.make_config (placeholder / granular infrastructure, "
        "persistent / intermittent sources, weather, daylight, 1-2 crews, P_none / P_OGI / P_air+follow-up / "
        "P_fix+follow-up) plus the shapes of make_variant (OGI + screening + follow-up in one program, two screening "
        "methods on one follow-up method, surveys longer than a day, five methods, two simulations), "
        "every (program, simulation): all timeseries columns + all emission-record columns; "
        "non-trivial/distinct by (program kind, #days, #emissions, #rolls, #program repairs, #flags); a case is "
        "counted only when the model drew exactly the rolls the run drew")


VARIANTS = ["base", "base", "fix", "mix", "two", "slowfu", "slowogi", "all", "sims2"]


def make_variant(rng, kind, quick):
    """the generator of harness.wholerun plus program shapes it does not produce: a routine OGI method next
    to a screening method and its follow-up ("mix"), two screening methods bound to one follow-up method
    ("two"), surveys longer than a work day with two crews ("slowfu", "slowogi"), five methods in one
    program ("all"), two simulations ("sims2")"""
    import copy

    from harness import wholerun as W

    ov = {}
    if quick:
        ov["ndays"] = rng.choice([120, 200, 400])
    cfg = W.make_config(rng, **ov)
    M = cfg["methods"]
    none = {"name": "P_none", "methods": []}
    if kind == "fix":
        if len(cfg["programs"]) < 4:
            cfg["programs"].append({"name": "P_fix", "methods": ["FIX", "OGI_FU2"]})
    elif kind == "mix":
        cfg["programs"] = [{"name": "P_mix", "methods": ["OGI", "AIR", "OGI_FU"]}, none]
    elif kind == "two":
        M["AIR2"] = copy.deepcopy(M["AIR"])
        M["AIR2"].update({"surveys_per_year": 6, "mdl": 0.5, "reporting_delay": 1})
        M["AIR2"]["follow_up"]["threshold"] = 0.0
        cfg["programs"] = [{"name": "P_two", "methods": ["AIR", "AIR2", "OGI_FU"]}, none]
    elif kind == "slowfu":
        M["OGI_FU"].update({"survey_time": 500, "crew_count": 2})
        M["AIR"].update({"crew_count": 2, "surveys_per_year": 12, "mdl": 0.5})
        M["AIR"]["follow_up"]["threshold"] = 0.0
        cfg["programs"] = [{"name": "P_air", "methods": ["AIR", "OGI_FU"]}, none]
    elif kind == "slowogi":
        M["OGI"].update({"survey_time": 700, "crew_count": 2, "surveys_per_year": 6})
        cfg["programs"] = [{"name": "P_OGI", "methods": ["OGI"]}, none]
    elif kind == "all":
        cfg["programs"] = [{"name": "P_all", "methods": ["OGI", "AIR", "OGI_FU", "FIX", "OGI_FU2"]}, none]
    elif kind == "sims2":
        cfg["n_sims"] = 2
    cfg["sim_trace"] = True
    cfg["_variant"] = kind
    return cfg


def configs(ctx, n):
    out = []
    for k in range(n):
        seed = ctx.rng.randrange(1 << 30)
        rng = random.Random(seed)
        kind = VARIANTS[k % len(VARIANTS)]
        cfg = make_variant(rng, kind, ctx.quick)
        cfg["_verif_seed"] = seed
        out.append(cfg)
    return out


def run_case(cfg, res, tr):
    """-> (status, case, diffs, info)"""
    try:
        case = S.Case(cfg, res, tr)
    except S.Unsupported as e:
        return "unsupported", None, [], str(e)
    out = LeanDriver("drv_sim").run(case.lines)
    rows, recs = case.parse(out)
    wf = out[case.head].strip().endswith("wf=1")
    diffs = case.compare(rows, recs)
    pk = case.check_pickle()
    if not pk[0]:
        diffs.append(("scenario-differs-from-pickle", None, pk[2], pk[1]))
    return "ok", case, diffs, {"rows": rows, "recs": recs, "wf": wf}


def mutate_selftest(case):
    """the comparison must notice a flipped detection: returns True when a perturbed input produces a
    difference (None when the case offers nothing to perturb)"""
    idx = next((i for i, l in enumerate(case.lines) if l.startswith("rolls ") and re.search(r",1,1\]", l)), None)
    if idx is None:
        return None
    lines = list(case.lines)
    lines[idx] = re.sub(r",1,1\]", ",0,2]", lines[idx], count=1)
    rows, recs = case.parse(LeanDriver("drv_sim").run(lines))
    return bool(case.compare(rows, recs))


def analyse(ctx, cfg, res):
    key = {"cfg_seed": cfg.get("_verif_seed"), "ndays": res.ndays}
    if res.rc != 0:
        ctx.count("wholerun_rc_nonzero")
        ctx.note(f"whole-run configuration {key} ended with rc={res.rc}: {res.log[-300:]}")
        return
    for tr in res.trace:
        kind = S.program_kind(cfg, tr["prog"])
        status, case, diffs, info = run_case(cfg, res, tr)
        inp = {"cfg": {k: v for k, v in cfg.items()}, "prog": tr["prog"], "sim": tr["sim"]}
        if status == "unsupported":
            ctx.count(f"unsupported:{kind}")
            ctx.note(f"unsupported case {key} {tr['prog']}: {info}")
            continue
        ctx.evaluations += 1
        ctx.traces += 1
        ctx.count(f"runs:{kind}")
        ctx.count("days", case.N)
        ctx.count("emissions", len(case.ems))
        ctx.count("rolls", case.n_rolls)
        if not info["wf"]:
            ctx.count("scenario_not_wellformed")
            ctx.disagree("sim/scenario-not-wellformed", inp, "wfWorld = false", None)
        if diffs:
            ctx.count(f"DIFF:{kind}")
            by = collections.Counter(d[0] for d in diffs)
            ctx.disagree(f"sim/{kind}", inp, {"columns": dict(by), "first": [str(d)[:300] for d in diffs[:5]]}, None)
        else:
            ctx.count(f"agree:{kind}")
            rows = info["rows"]
            ctx.nontrivial.add((kind, case.N, len(case.ems), case.n_rolls, sum(r["rep"] for r in rows),
                                sum((m["flags"] or 0) for r in rows for m in r["meth"])))
            ctx.count("program_repairs", sum(r["rep"] for r in rows))
            ctx.count("flags", sum((m["flags"] or 0) for r in rows for m in r["meth"]))
            ctx.count("tagging_calls", sum(r["tagged"] for r in rows))
            st = mutate_selftest(case)
            if st is not None:
                ctx.count("selftest_perturbed_roll_noticed" if st else "selftest_perturbed_roll_NOT_noticed")
    ctx.sample({"whole_run": {k: cfg[k] for k in ("granular", "start", "end", "n_sites", "consider_weather", "daylight", "_variant")},
                "programs": [p["name"] for p in cfg["programs"]], "cfg_seed": cfg.get("_verif_seed")}, cap=8)


def run(ctx):
    from harness import wholerun as W

    ctx.rule = RULE
    ctx.assumptions.append("SIM: wrapper events of install_sim_wrappers are observation only (they read values the "
                           "simulator computed, never draw random numbers)")
    core.lean_stage(ctx, MODULE, FILE, drivers=["drv_sim"])
    cfgs = configs(ctx, ctx.pick(9, 135))

    def one(cfg):
        return cfg, W.run_config(cfg)

    with concurrent.futures.ThreadPoolExecutor(max_workers=ctx.pick(6, 8)) as ex:
        results = list(ex.map(one, cfgs))
    try:
        for cfg, res in results:
            analyse(ctx, cfg, res)
    finally:
        for _, res in results:
            res.cleanup()
    ctx.extra["columns_compared"] = {"timeseries": S.TS_COLUMNS, "emission_records": S.REC_COLUMNS}
    kinds = sorted({k.split(":", 1)[1] for k in ctx.counts if k.startswith("runs:")})
    ctx.extra["program_kinds"] = {k: {"runs": ctx.counts.get(f"runs:{k}", 0), "full_agreement": ctx.counts.get(f"agree:{k}", 0),
                                      "unsupported": ctx.counts.get(f"unsupported:{k}", 0)} for k in kinds}
    if ctx.counts.get("selftest_perturbed_roll_NOT_noticed", 0) and not ctx.counts.get("selftest_perturbed_roll_noticed", 0):
        ctx.broke("sim/selftest", "a perturbed coverage roll never changed the comparison result")


def replay(ctx, data):
    from harness import wholerun as W

    inp = data.get("input") or {}
    if not inp:
        for d in data.get("correspondence_disagreements", []):
            if isinstance(d.get("input"), dict) and "cfg" in d["input"]:
                inp = d["input"]
                break
    if "cfg" not in inp:
        print("replay: no configuration in the replay file")
        print(str(data)[:2000])
        return 1
    cfg = inp["cfg"]
    res = W.run_config(cfg)
    try:
        rc = 0
        for tr in res.trace:
            if inp.get("prog") and tr["prog"] != inp["prog"]:
                continue
            status, case, diffs, info = run_case(cfg, res, tr)
            print(tr["prog"], status, len(diffs), "differences")
            for d in diffs[:20]:
                print("  ", str(d)[:400])
            rc = rc or (1 if diffs else 0)
        return rc
    finally:
        res.cleanup()
