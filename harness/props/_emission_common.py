"""Shared by C02 / C03 / C04: generators of emission cases, the correspondence between the real
emission classes (driven through the real Component/Source) and the Lean model, parsed results."""
from __future__ import annotations

from harness.core import LeanDriver

KINDS = [  # (repairable, intermittent, activeDur, inactiveDur)
    (True, False, 1, 0),
    (False, False, 1, 0),
    (True, True, 1, 1),
    (True, True, 2, 1),
    (True, True, 1, 2),
    (True, True, 2, 3),
    (False, True, 1, 1),
    (False, True, 2, 3),
]


def parse_summary(line):
    head = line.split(" | ")[0].split()
    keys = ["status", "activeDays", "emitDays", "mitDays", "endDate", "by", "tagged", "initDetect", "initDetectBy"]
    d = dict(zip(keys, head))
    for k in ("activeDays", "emitDays", "mitDays", "tagged"):
        d[k] = int(d[k])
    for k in ("endDate", "initDetect"):
        d[k] = None if d[k] == "-" else int(d[k])
    return d


def boundary_cases():
    """the structured exhaustive core: persistent kinds, one tag event, all relative timings"""
    for n in range(1, 9):
        for start in range(-7, n + 1):
            for nrd in range(1, 7):
                for delay in (0, 1, 2, 3):
                    for tag in [None] + list(range(n)):
                        for rep in (True, False):
                            evs = [] if tag is None else [(tag, 1, 0)]
                            yield (start, nrd, delay, rep, False, 1, 0, n, evs)


def random_case(rng, big=False):
    if big:
        n = rng.randint(20, 400)
        nrd = rng.randint(1, 500)
        start = rng.randint(-nrd, n)
        delay = rng.choice([0, 1, 2, 7, 14, 30, 60, rng.randint(0, 90)])
        ntags = rng.choice([0, 1, 1, 2, 3, 5])
    else:
        n = rng.randint(1, 9)
        nrd = rng.randint(1, 7)
        start = rng.randint(-8, n)
        delay = rng.randint(0, 3)
        ntags = rng.choice([0, 1, 1, 1, 2, 2, 3])
    rep, inter, ad, idur = rng.choice(KINDS)
    if big and inter:
        ad, idur = rng.randint(1, 9), rng.randint(1, 9)
    evs = sorted((rng.randrange(n), rng.randint(1, 3), rng.choice([0, 0, 1, 2, 3] if not big else [0, 1, 2, 5, 14]))
                 for _ in range(ntags))
    if rng.random() < 0.35:
        # detection-only events of screening methods mixed in (stable sort keeps same-day order random)
        evs += [(rng.randrange(n), rng.randint(4, 5), 0, 1) for _ in range(rng.randint(1, 3))]
        rng.shuffle(evs)
        evs.sort(key=lambda e: e[0])
    return (start, nrd, delay, rep, inter, ad, idur, n, evs)


def build_cases(ctx):
    cases = []
    seen = set()

    def add(c):
        key = repr(c)
        if key not in seen:
            seen.add(key)
            cases.append(c)

    core = list(boundary_cases())
    if ctx.quick:
        ctx.rng.shuffle(core)
        core = core[:12000]
    for c in core:
        add(c)
    for _ in range(ctx.pick(6000, 150000)):
        add(random_case(ctx.rng))
    for _ in range(ctx.pick(150, 3000)):
        add(random_case(ctx.rng, big=True))
    return cases


def without_events(case):
    return case[:8] + ([],)


def nontrivial_key(case, res):
    """a case is non-trivial when the emission becomes active inside the horizon; distinct by its
    qualitative shape: kind, pre-period?, how it ended, tag relative to natural end, horizon cut"""
    (start, nrd, delay, rep, inter, ad, idur, n, evs) = case
    if res["status"] == "inactive":
        return None
    return (rep, inter, start < 0, start == -nrd, res["status"], res["by"][:1], len(evs) > 1,
            any(len(e) > 3 for e in evs),
            min(nrd, 7), min(delay, 4), min(n, 9), res["activeDays"] if res["activeDays"] < 8 else 8)


def correspond(ctx, cases, component="emission"):
    """runs implementation and model on the cases; returns list of (case, impl_result_dict, model_line, impl_line)"""
    from harness.adapters import emission as E

    lines = [E.case_line(c) for c in cases]
    model = LeanDriver("drv_emission").run(lines)
    out = []
    for c, ml in zip(cases, model):
        il = E.impl_line(c)
        ctx.evaluations += 1
        if il != ml:
            ctx.disagree(component, {"case": list(c)}, ml, il)
            ctx.count("disagree")
        res = parse_summary(il)
        k = nontrivial_key(c, res)
        if k is not None:
            ctx.nontrivial.add(k)
        ctx.count("kind:%s%s" % ("rep" if c[3] else "nonrep", "-interm" if c[4] else ""))
        ctx.count("end:" + res["status"] + "/" + (res["by"] if not res["by"].startswith("c") else "company"))
        out.append((c, res, ml, il))
    ctx.traces += len(cases)
    return out


def impl_result(case):
    from harness.adapters import emission as E

    return parse_summary(E.impl_line(case))


# ------------------------------------------------------------------------------------------------
# whole-run stage shared by C02 / C03 / C04 (/ C11): real simulator runs, records joined with the
# baseline program's records of the same simulation, tag events of each record's component
# ------------------------------------------------------------------------------------------------
def run_configs(ctx, n, **overrides):
    """n generated configurations run by the real simulator (in parallel); returns list of Result"""
    import concurrent.futures as cf
    from harness import wholerun as W

    cfgs = [W.make_config(ctx.rng, **overrides) for _ in range(n)]
    with cf.ThreadPoolExecutor(max_workers=min(8, max(1, n))) as ex:
        results = list(ex.map(lambda c: W.run_config(c, debug=True, trace=True), cfgs))
    good = []
    for r in results:
        if r.rc != 0:
            ctx.count("wholerun_config_crashed")
            ctx.note("whole run crashed (skipped here; crashes are judged by the property that owns them): "
                     + r.log.strip().splitlines()[-1][:200])
            last = r.log
            r.cleanup()
            continue
        good.append(r)
    if not good and results:
        raise RuntimeError("every whole run failed (infrastructure): " + last[-2000:])
    return good


def record_key(row):
    return (row["Site ID"], row["Equipment"], row["Component"], row["Repairable"], row["Emissions ID"])


def int_days(vol, rate):
    x = float(vol) / (float(rate) * 86.4)
    if abs(x - round(x)) > 1e-6:
        return None
    return int(round(x))


def records(res):
    """yields dict per (program, sim, emission) with integer-day fields and the baseline's twin"""
    cfg = res.cfg
    src_of = {}
    if cfg["granular"]:
        for s in cfg["sources"]:
            src_of[(s["component"], s["repairable"])] = s
    for sim in range(res.n_sims):
        base = {record_key(r): r for r in (res.emissions(cfg["baseline"], sim) or [])}
        for prog in res.programs:
            rows = res.emissions(prog, sim) or []
            tr = next((t for t in res.trace if t["prog"] == prog and t["sim"] == sim), {"events": []})
            tags = {}
            dets = {}
            for idx, e in enumerate(tr["events"]):
                if e[0] == "tag":
                    tags.setdefault((e[2], e[3], e[4]), []).append((idx, e))
                elif e[0] == "detect":
                    dets.setdefault((e[2], e[3], e[4], e[7], e[6]), []).append((idx, e))
            surveys = [e for e in tr["events"] if e[0] == "survey"]
            for r in rows:
                rep = r["Repairable"] == "True"
                kind = cfg["rep"] if rep else cfg["nonrep"]
                comp_type = r["Component"].rsplit("_", 1)[0]
                src = src_of.get((comp_type, rep))
                inter = bool(src) and not src["persistent"]
                start = res.day_index(r["Date Began"])
                rate = float(r['"True" Rate (g/s)'])
                d = {
                    "prog": prog, "sim": sim, "key": record_key(r), "row": r, "base": base.get(record_key(r)),
                    "repairable": rep, "intermittent": inter,
                    "adur": src["active"] if inter else 1, "idur": src["inactive"] if inter else 0,
                    "start": start, "nrd": kind["duration"], "rate": rate,
                    "status": r["Status"], "activeDays": int(r["Days Active"]),
                    "daysEmitting": int(r["Days Emitting"]),
                    "emitDays": int_days(r['"True" Volume Emitted (Kg Methane)'], rate),
                    "mitDays": int_days(r["Mitigated Emissions (Kg Methane)"], rate),
                    "endDate": res.day_index(r["Date Repaired or Expired"]),
                    "by": r["Tagged By"] if rep else r["Recorded By"],
                    "tagged": (r["Tagged"] if rep else r["Recorded"]) == "True",
                    "initDetect": res.day_index(r["Initially Detected Date"]),
                    "initDetectBy": r["Initially Detected By"],
                    # tag requests reaching the record's component and detection-only events of this
                    # emission, merged in the order the simulator produced them
                    "tags": [e for _, e in sorted(
                        tags.get((r["Site ID"], r["Equipment"], r["Component"]), [])
                        + dets.get((r["Site ID"], r["Equipment"], r["Component"], rep, r["Emissions ID"]), []),
                        key=lambda x: x[0])],
                    "surveys": surveys,
                }
                yield d


def model_line_for_record(rec, delay, n, method_ids):
    evs = [(e[1], method_ids[e[5]], e[6]) if e[0] == "tag" else (e[1], method_ids[e[5]], 0, 1) for e in rec["tags"]]
    return "case %d %d %d %d %d %d %d %d %s" % (
        rec["start"], rec["nrd"], delay, int(rec["repairable"]), int(rec["intermittent"]), rec["adur"], rec["idur"],
        n, "[" + ",".join("[" + ",".join(str(x) for x in e) + "]" for e in evs) + "]")


def record_summary(rec, method_ids):
    def by(x):
        if x in ("", "None", "N/A", None):
            return "-"
        if x == "natural":
            return "natural"
        if x == "expired":
            return "expire"
        return "c%d" % method_ids[x]
    idb = rec["initDetectBy"]
    return "%s %d %s %s %s %s %d %s %s" % (
        rec["status"], rec["activeDays"], rec["emitDays"], rec["mitDays"],
        "-" if rec["endDate"] is None else rec["endDate"], by(rec["by"]), 1 if rec["tagged"] else 0,
        "-" if rec["initDetect"] is None else rec["initDetect"], by(idb))


def conform_records(ctx, res, recs):
    """trace conformance: each record must be reproduced by the Lean model from (start, nrd, kind,
    tag events of its component) for at least one of the configured repair delays"""
    method_ids = {m: i + 1 for i, m in enumerate(sorted(res.cfg["methods"]))}
    delays = [int(x) for x in res.cfg["repair_delay"]]
    lines, owners = [], []
    for rec in recs:
        for dl in (delays if rec["repairable"] else delays[:1]):
            lines.append(model_line_for_record(rec, dl, res.ndays, method_ids))
            owners.append(rec)
    out = LeanDriver("drv_emission").run(lines)
    ok = {}
    got = {}
    for rec, ml in zip(owners, out):
        want = record_summary(rec, method_ids)
        k = (rec["prog"], rec["sim"], rec["key"])
        got.setdefault(k, []).append(ml.split(" | ")[0])
        if ml.split(" | ")[0] == want:
            ok[k] = True
    for rec in recs:
        k = (rec["prog"], rec["sim"], rec["key"])
        ctx.evaluations += 1
        ctx.traces += 1
        if not ok.get(k):
            ctx.disagree("emission/whole-run-record",
                         {"cfg": res.cfg, "prog": rec["prog"], "sim": rec["sim"], "key": list(rec["key"]),
                          "tags": rec["tags"]},
                         got.get(k), record_summary(rec, method_ids))
            ctx.count("wholerun_disagree")
        ctx.count("wholerun_records")


def base_fields(rec):
    """integer-day view of the baseline twin of a whole-run record (None if missing)"""
    b = rec["base"]
    if b is None:
        return None
    rate = float(b['"True" Rate (g/s)'])
    return {"status": b["Status"], "activeDays": int(b["Days Active"]),
            "emitDays": int_days(b['"True" Volume Emitted (Kg Methane)'], rate),
            "mitDays": int_days(b["Mitigated Emissions (Kg Methane)"], rate),
            "endDateStr": b["Date Repaired or Expired"]}


def wholerun_stage(ctx, n_quick, n_thorough, per_record, per_result=None, **overrides):
    """runs generated configurations through the real simulator; trace conformance of every record
    against the Lean model; `per_record(ctx, res, rec)` evaluates the property's oracle"""
    results = run_configs(ctx, ctx.pick(n_quick, n_thorough), **overrides)
    try:
        for res in results:
            recs = list(records(res))
            conform_records(ctx, res, recs)
            for rec in recs:
                if rec["emitDays"] is None or rec["mitDays"] is None:
                    ctx.violate("volume-not-integer-days",
                                "a reported volume is not an integer number of days x rate x 86.4",
                                {"cfg": res.cfg, "row": rec["row"]})
                    continue
                per_record(ctx, res, rec)
                ctx.nontrivial.add(("wr", rec["repairable"], rec["intermittent"], rec["status"], rec["by"],
                                    rec["start"] < 0, min(rec["activeDays"], 40), len(rec["tags"]) > 0))
            if per_result is not None:
                per_result(ctx, res, recs)
            ctx.count("wholerun_configs")
            ctx.sample({"whole_run": {k: res.cfg[k] for k in ("granular", "start", "end", "n_sites", "repair_delay")},
                        "records": len(recs)}, cap=8)
    finally:
        for res in results:
            res.cleanup()


# ------------------------------------------------------------------------------------------------
# several emissions sharing real Components (interaction between emissions of one component:
# list handling in Component.update_emissions_state / tag_emissions)
# ------------------------------------------------------------------------------------------------
def small_world(rng):
    n = rng.randint(1, 10)
    comps = []
    for _ in range(rng.randint(1, 3)):
        ems = []
        for _ in range(rng.randint(1, 4)):
            rep, inter, ad, idur = rng.choice(KINDS)
            nrd = rng.randint(1, 7)
            ems.append((rng.randint(-nrd, n), nrd, rng.randint(0, 3), rep, inter, ad, idur, rng.choice([256, 512, 1024, 2048])))
        evs = []
        for _ in range(rng.choice([0, 1, 1, 2, 3])):
            if rng.random() < 0.3:
                evs.append((rng.randrange(n), rng.randint(4, 5), 0, 1))
            else:
                evs.append((rng.randrange(n), rng.randint(1, 3), rng.choice([0, 0, 1, 2])))
        evs.sort(key=lambda e: e[0])
        comps.append((ems, evs))
    return n, comps


def world_emission_results(world, with_events=True):
    """drive real Components holding several emissions each; returns [(case_tuple, summary_dict)]"""
    from datetime import timedelta
    from harness.adapters import emission as E
    from file_processing.output_processing.output_utils import EmisInfo, TsEmisData
    from scheduling.schedule_dataclasses import TaggingInfo

    n, comps = world
    real = []
    for ems, evs in comps:
        objs = [E.make_emission(st, nrd, dl, rep, inter, ad, idur, rate=r / 1024.0) for (st, nrd, dl, rep, inter, ad, idur, r) in ems]
        real.append((E.make_component(objs), evs if with_events else [], ems, objs))
    for dn in range(n):
        cur = E.SIM_START + timedelta(days=dn)
        for comp, evs, _, _ in real:
            comp.activate_emissions(cur, 0)
        for comp, evs, _, _ in real:
            for ev in evs:
                if ev[0] != dn:
                    continue
                if len(ev) > 3 and ev[3] == 1:
                    for e_ in comp._active_emissions:
                        e_.update_detection_records(company=f"c{ev[1]}", detect_date=cur)
                elif comp._active_emissions:
                    comp.tag_emissions(TaggingInfo(2.0, cur, 5, f"c{ev[1]}", "1", ev[2]))
        info, data = EmisInfo(), TsEmisData()
        for comp, _, _, _ in real:
            comp.update_emissions_state(info, data)
    out = []
    for comp, evs, ems, objs in real:
        for spec, em in zip(ems, objs):
            sd = em.get_summary_dict(E.summary_end_date(n))
            case = tuple(spec[:7]) + (n, list(evs))
            out.append((case, parse_summary(E.summary_line(em, sd))))
    return out


def shared_component_stage(ctx, per_emission):
    """`per_emission(ctx, case, result, baseline_result, world)` evaluates a property's oracle on every
    emission of random worlds in which several emissions share a component; also checks each emission
    against the single-emission Lean model (emissions of one component must not influence each other)"""
    worlds = [small_world(ctx.rng) for _ in range(ctx.pick(800, 15000))]
    lines, owners = [], []
    from harness.adapters import emission as E

    for w in worlds:
        with_ev = world_emission_results(w, True)
        without = world_emission_results(w, False)
        for (case, res), (_, base) in zip(with_ev, without):
            lines.append(E.case_line(case))
            owners.append((w, case, res, base))
    out = LeanDriver("drv_emission").run(lines)
    for (w, case, res, base), ml in zip(owners, out):
        ctx.evaluations += 1
        mres = parse_summary(ml)
        if mres != res:
            ctx.disagree("emission/shared-component", {"world": w, "case": list(case)}, mres, res)
            ctx.count("shared_component_disagree")
        per_emission(ctx, case, res, base, w)
        k = nontrivial_key(case, res)
        if k is not None:
            ctx.nontrivial.add(("sc",) + k)
    ctx.traces += len(worlds)
    ctx.count("shared_component_worlds", len(worlds))
