"""Shared by C02 / C03 / C04: generators of emission cases, the correspondence between the real
emission classes (driven through the real Component/Source) and the Lean model, parsed results."""
from __future__ import annotations

import json

from harness import core
from harness.core import LeanDriver

KINDS = [  # (repairable, intermittent, activeDur, inactiveDur)
    (True, False, 1, 0),
    (False, False, 1, 0),
    (True, True, 1, 1),
    (True, True, 2, 1),
    (True, True, 1, 2),
    (True, True, 2, 3),
    (False, True, 1, 1),
    (False, True, 2, 3),
]


def parse_summary(line):
    head = line.split(" | ")[0].split()
    keys = ["status", "activeDays", "emitDays", "mitDays", "endDate", "by", "tagged", "initDetect", "initDetectBy"]
    d = dict(zip(keys, head))
    for k in ("activeDays", "emitDays", "mitDays", "tagged"):
        d[k] = int(d[k])
    for k in ("endDate", "initDetect"):
        d[k] = None if d[k] == "-" else int(d[k])
    return d


INTERMITTENT_CORE = [(1, 1), (1, 2), (2, 1), (2, 2)]  # (activeDur, inactiveDur) of the exhaustive core


def _starts(nrd, n):
    """the starts the generator can produce: pre-period starts reach back `nrd` days at most
    (Source.generate_emissions: pre_existing_dates = sim_start - duration ... sim_start - 1)"""
    return range(-nrd, n + 1)


def core_groups():
    """the structured exhaustive core, by group.  Every group enumerates all relative timings of
    start / natural end / tag day(s) / repair due day / horizon on its (small) domain; only starts
    the generator can produce (start >= -nrd) are enumerated, a small fixed sample of the
    unreachable starts (start < -nrd) is kept in its own, separately counted group.
      A  persistent kinds, one tag on any day, reporting delay 0 or 2
      B  intermittent kinds (on/off in {1,2}^2), one tag on any day, reporting delay 0 or 2
      C  two tag requests (second on the same or any later day, other company, reporting delays
         {0,2} x {0,2}); persistent and one intermittent repairable kind
      U  start < -nrd (never generated)"""
    A, B, C, U = [], [], [], []
    for n in range(1, 9):
        for nrd in range(1, 7):
            for start in _starts(nrd, n):
                for tag in [None] + list(range(n)):
                    # non-repairable: repair delay and reporting delay are never read
                    A.append((start, nrd, 0, False, False, 1, 0, n, [] if tag is None else [(tag, 1, 0)]))
                    for ad, idur in INTERMITTENT_CORE:
                        B.append((start, nrd, 0, False, True, ad, idur, n, [] if tag is None else [(tag, 1, 0)]))
                    for delay in (0, 1, 2, 3):
                        for trd in ((0,) if tag is None else (0, 2)):
                            evs = [] if tag is None else [(tag, 1, trd)]
                            A.append((start, nrd, delay, True, False, 1, 0, n, evs))
                            if delay != 2:
                                for ad, idur in INTERMITTENT_CORE:
                                    B.append((start, nrd, delay, True, True, ad, idur, n, evs))
    for n in range(2, 7):
        for nrd in range(1, 5):
            for start in _starts(nrd, n):
                for delay in (0, 1, 2, 3):
                    for t1 in range(n):
                        for t2 in range(t1, n):
                            for trd1 in (0, 2):
                                for trd2 in (0, 2):
                                    evs = [(t1, 1, trd1), (t2, 2, trd2)]
                                    C.append((start, nrd, delay, True, False, 1, 0, n, evs))
                                    if delay in (0, 3) and trd1 != trd2:
                                        C.append((start, nrd, delay, True, True, 1, 1, n, evs))
    for n in (1, 4, 8):
        for nrd in (1, 2, 3):
            for start in (-nrd - 3, -nrd - 2, -nrd - 1):
                for delay in (0, 2):
                    for tag in (None, 0, n - 1):
                        for rep in (True, False):
                            U.append((start, nrd, delay, rep, False, 1, 0, n, [] if tag is None else [(tag, 1, 0)]))
    # F  fractional repair delays (quarter / half days), reporting delay 0 / 1 / 2, one tag on any day:
    #    the real classes compare an integer day counter with delay + reporting delay
    F = []
    for n in range(1, 8):
        for nrd in range(1, 7):
            for start in _starts(nrd, n):
                for delay in (0.25, 0.5, 0.75, 1.5, 2.5, 3.25):
                    for tag in range(n):
                        for trd in (0, 1, 2):
                            F.append((start, nrd, delay, True, False, 1, 0, n, [(tag, 1, trd)]))
                            if delay in (0.75, 2.5) and trd != 2:
                                F.append((start, nrd, delay, True, True, 2, 1, n, [(tag, 1, trd)]))
    return {"A": A, "B": B, "C": C, "U": U, "F": F}


QUICK_CORE = {"A": 6000, "B": 7000, "C": 4500, "U": 120, "F": 2500}


def boundary_cases():
    """every case of the structured exhaustive core"""
    for g in core_groups().values():
        yield from g


def random_case(rng, big=False):
    if big:
        n = rng.randint(20, 400)
        nrd = rng.randint(1, 500)
        start = rng.randint(-nrd, n)
        delay = rng.choice([0, 1, 2, 7, 14, 30, 60, rng.randint(0, 90)])
        ntags = rng.choice([0, 1, 1, 2, 3, 5])
    else:
        n = rng.randint(1, 9)
        nrd = rng.randint(1, 7)
        start = rng.randint(-8, n)
        delay = rng.randint(0, 3)
        ntags = rng.choice([0, 1, 1, 1, 2, 2, 3])
    rep, inter, ad, idur = rng.choice(KINDS)
    if rep and rng.random() < 0.12:
        delay = rng.choice([0.25, 0.5, 0.75, 1.25, 2.5, 6.5, 10.25] if big else [0.25, 0.5, 0.75, 1.5, 2.5])
    if big and inter:
        ad, idur = rng.randint(1, 9), rng.randint(1, 9)
    evs = sorted((rng.randrange(n), rng.randint(1, 3), rng.choice([0, 0, 1, 2, 3] if not big else [0, 1, 2, 5, 14]))
                 for _ in range(ntags))
    if rng.random() < 0.35:
        # detection-only events of screening methods mixed in (stable sort keeps same-day order random)
        evs += [(rng.randrange(n), rng.randint(4, 5), 0, 1) for _ in range(rng.randint(1, 3))]
        rng.shuffle(evs)
        evs.sort(key=lambda e: e[0])
    return (start, nrd, delay, rep, inter, ad, idur, n, evs)


def build_cases(ctx):
    cases = []
    seen = set()

    def add(c):
        key = repr(c)
        if key not in seen:
            seen.add(key)
            cases.append(c)

    for g, core in core_groups().items():
        ctx.count("core:%s:domain" % g, len(core))
        if ctx.quick:
            ctx.rng.shuffle(core)
            core = core[:QUICK_CORE[g]]
        for c in core:
            add(c)
        ctx.count("core:%s:run" % g, len(core))
    for _ in range(ctx.pick(6000, 150000)):
        add(random_case(ctx.rng))
    for _ in range(ctx.pick(150, 3000)):
        add(random_case(ctx.rng, big=True))
    return cases


def without_events(case):
    return case[:8] + ([],)


def nontrivial_key(case, res):
    """a case is non-trivial when the emission becomes active inside the horizon; distinct by its
    qualitative shape: kind, pre-period?, how it ended, tag relative to natural end, horizon cut"""
    (start, nrd, delay, rep, inter, ad, idur, n, evs) = case
    if res["status"] == "inactive":
        return None
    return (rep, inter, start < 0, start == -nrd, res["status"], res["by"][:1], len(evs) > 1,
            any(len(e) > 3 for e in evs),
            min(nrd, 7), min(delay, 4), min(n, 9), res["activeDays"] if res["activeDays"] < 8 else 8)


# ------------------------------------------------------------------------------------------------
# independent closed forms used by the oracles (plain arithmetic, no code of /repo, no Lean model)
# ------------------------------------------------------------------------------------------------
def due_days(delay, trd):
    """days between the tag date and the recorded end of a program repair: the first daily update on which
    days-since-tagged >= repair delay + reporting delay, and never before the first update - for a fractional
    configured delay the first whole day that is not earlier than delay + reporting delay"""
    import math
    from fractions import Fraction

    return max(1, int(math.ceil(Fraction(delay) + trd)))


def natural_end(start, nrd):
    """first day on which the emission is no longer active if nobody intervenes (F3 absorbed:
    an emission activated on day a is active at least that day)"""
    a, b4 = max(start, 0), max(0, -start)
    return a + max(1, nrd - b4)


def first_effective_tag(case):
    """(T, event) of the first tag request that reaches the emission while it is active inside the
    horizon, or None"""
    (start, nrd, delay, rep, inter, ad, idur, n, evs) = case
    a = max(start, 0)
    lim = min(natural_end(start, nrd), n)
    days = sorted(set(e[0] for e in evs if not (len(e) > 3 and e[3] == 1) and a <= e[0] < lim))
    if not days:
        return None
    T = days[0]
    return T, next(e for e in evs if e[0] == T and not (len(e) > 3 and e[3] == 1))


def pattern_emitting(k, ad, idur):
    """IntermittencyMixin.update as a closed form: the number of emitting days among the first `k`
    updates the emission *survived* (it starts emitting at activation, an emitting run lasts
    max(1, active_duration) days, a non-emitting run max(1, inactive_duration) days)"""
    on, off = max(1, ad), max(1, idur)
    return (k // (on + off)) * on + min(k % (on + off), on)


def pattern_on(i, ad, idur):
    """is the i-th active day (1-based) an emitting day of the on/off pattern?"""
    on, off = max(1, ad), max(1, idur)
    return (i - 1) % (on + off) < on


def surviving_days(active_days, ended):
    """the update that ends an emission (repair / natural repair / expiry) is not seen by the
    intermittency toggle: it neither counts as an emitting day nor advances the on/off pattern"""
    return active_days - 1 if ended and active_days > 0 else active_days


def expected_emit_days(inter, ad, idur, active_days, status):
    if not inter:
        return active_days
    return pattern_emitting(surviving_days(active_days, status in ("repaired", "expired")), ad, idur)


def hypothesis_keys(case, res):
    """the decidable hypotheses / domain conditions of the C02-C04 theorems a case satisfies"""
    (start, nrd, delay, rep, inter, ad, idur, n, evs) = case
    keys = []
    keys.append("repairable" if rep else "non-repairable")
    keys.append("intermittent" if inter else "persistent")
    if rep and not inter:
        keys.append("C02_partial(repairable,persistent)")
    if nrd >= 1 and -nrd <= start:
        keys.append("C03_statement-domain(nrd>=1,-nrd<=start)")
        if -nrd < start:
            keys.append("C03_partial(-nrd<start)")
    if start == -nrd:
        keys.append("start==-nrd(F3-domain)")
    if start < -nrd:
        keys.append("start<-nrd(never-generated)")
    if start < 0:
        keys.append("pre-period")
    if start + nrd >= n:
        keys.append("natural-end>=last-day")
    if res["status"] != "inactive":
        keys.append("became-active")
    if res["mitDays"] > 0:
        keys.append("mit>0")
    ft = first_effective_tag(case)
    if ft is not None and rep:
        T, e = ft
        keys.append("tagged-while-active")
        if T + due_days(delay, e[2]) > natural_end(start, nrd):
            keys.append("tag-fewer-than-delta-days-before-natural-end")
        if T + due_days(delay, e[2]) == natural_end(start, nrd):
            keys.append("repair-due-exactly-at-natural-end")
        if T + due_days(delay, e[2]) > n:
            keys.append("repair-due-after-horizon")
        later = [x for x in evs if not (len(x) > 3 and x[3] == 1) and x is not e and x[0] >= T
                 and x[0] < min(natural_end(start, nrd), n, T + due_days(delay, e[2]))]
        if any(x[1] != e[1] or x[2] != e[2] for x in later):
            keys.append("second-tag-differs-while-waiting")
    if res["status"] == "repaired" and res["by"].startswith("c"):
        keys.append("C04_repair_needs_tag(repaired-by-company)")
    if res["status"] == "active" and res["by"].startswith("c") and rep:
        keys.append("C04_never_later(active,tagged)")
    if res["status"] == "repaired" and res["by"] == "natural" and ft is not None:
        keys.append("C04_natural_first(natural,tagged-before)")
    return keys


def count_hypotheses(ctx, case, res, prefix="hyp:"):
    ctx.count(prefix + "cases")
    for k in hypothesis_keys(case, res):
        ctx.count(prefix + k)


def finish_hit_rates(ctx):
    """evidence: hit rate of every hypothesis over the unit cases of this run"""
    for prefix, name in (("hyp:", "hypothesis_hit_rate"), ("hyp-shared:", "hypothesis_hit_rate_shared_component")):
        n = ctx.counts.get(prefix + "cases", 0)
        if n:
            ctx.extra[name] = {k[len(prefix):]: round(v / n, 5) for k, v in sorted(ctx.counts.items())
                               if k.startswith(prefix) and k != prefix + "cases"}
            ctx.extra[name]["(cases)"] = n


def impl_failed(ctx, component, case, model_line, err):
    """the code under test raised on a generated case (or reported a volume that is no whole number of
    days): never a harness error - a disagreement with the model, and a violation where the property's
    own observable is concerned"""
    kind, msg = err
    ctx.disagree(component, {"case": list(case)}, model_line, "implementation: " + msg)
    ctx.count("impl_" + kind)
    if kind == "non-integer-days":
        ctx.violate("volume-not-integer-days",
                    "a reported volume is not an integer number of days x rate x 86.4 (" + msg + ")", {"case": list(case)})


def correspond(ctx, cases, component="emission"):
    """runs implementation and model on the cases; returns list of (case, impl_result_dict, model_line, impl_line)"""
    from harness.adapters import emission as E

    lines = [E.case_line(c) for c in cases]
    model = LeanDriver("drv_emission").run(lines)
    out = []
    for c, ml in zip(cases, model):
        il, err = E.safe_impl_line(c)
        ctx.evaluations += 1
        if err is not None:
            impl_failed(ctx, component, c, ml, err)
            continue
        if il != ml:
            ctx.disagree(component, {"case": list(c)}, ml, il)
            ctx.count("disagree")
        res = parse_summary(il)
        k = nontrivial_key(c, res)
        if k is not None:
            ctx.nontrivial.add(k)
        ctx.count("kind:%s%s" % ("rep" if c[3] else "nonrep", "-interm" if c[4] else ""))
        ctx.count("end:" + res["status"] + "/" + (res["by"] if not res["by"].startswith("c") else "company"))
        count_hypotheses(ctx, c, res)
        out.append((c, res, ml, il))
    ctx.traces += len(cases)
    return out


def baseline_result(ctx, cache, case):
    """(summary dict, per-day trace) of the no-event run of the same emission on the real classes,
    cached; None (and a recorded disagreement) if the code under test raised"""
    bk = case[:8]
    if bk not in cache:
        try:
            cache[bk] = impl_full(without_events(case))
        except (Exception, SystemExit) as e:  # noqa: BLE001
            ctx.disagree("emission/no-event-run", {"case": list(without_events(case))}, "no exception",
                         "implementation: %s: %s" % (type(e).__name__, e))
            ctx.count("impl_exception")
            cache[bk] = None
    return cache[bk]


def impl_result(case):
    from harness.adapters import emission as E

    return parse_summary(E.impl_line(case))


def impl_full(case):
    """(summary dict, per-day trace) of the real classes; a per-day entry is
    status:activeDays:daysEmitting:tagged:dst:emitting"""
    from harness.adapters import emission as E

    line, per_day = E.trace_line(case)
    return parse_summary(line), per_day


def life_trace(per_day):
    """the per-day trace without the tagged / recorded flag and the days-since-tagged counter (the two
    fields an event legitimately changes on a non-repairable emission: `_record`)"""
    out = []
    for x in per_day:
        f = x.split(":")
        out.append(":".join([f[0], f[1], f[2], f[5]]))
    return out


# ------------------------------------------------------------------------------------------------
# whole-run stage shared by C02 / C03 / C04 (/ C11): real simulator runs, records joined with the
# baseline program's records of the same simulation, tag events of each record's component
# ------------------------------------------------------------------------------------------------
# shapes of whole simulations the C02-C04 stage cycles through (index -> overrides of make_config);
# `k` counts the rounds, so that a shape varies from round to round.  Dates are put in on purpose:
# periods that neither start on Jan 1 nor end on Dec 31, straddle New Year and Feb 29, end on day-of-year
# 366, last 1 or 2 days, and a period repeated exactly one year later.
def _shape_boundary(k):
    periods = [([2023, 11, 1], [2024, 11, 20]),   # straddles New Year and Feb 29 2024, ends mid-November
               ([2023, 3, 1], [2023, 9, 17]),
               ([2024, 3, 1], [2024, 9, 17]),     # the same period exactly one year later (same length)
               ([2024, 1, 1], [2024, 12, 30]),    # ends one day before Dec 31 of a leap year
               ([2022, 12, 31], [2023, 12, 31])]  # starts on Dec 31, first day is the last of a year
    st, en = periods[k % len(periods)]
    # placeholder infrastructure every second round (one components' repairable and non-repairable source are
    # built from ONE propagated parameter set there), with a repairable duration well above the non-repairable one
    return {"start": st, "end": en, "n_sims": 2, "n_sites": 5, "granular": k % 2 == 1,
            "rep": {"epr": 0.015625, "duration": [120, 60, 365][k % 3], "multi": True},
            "nonrep": {"epr": 0.015625, "duration": [20, 45][k % 2], "multi": True}}


def _shape_extra_sources(k):
    # two programs one after another in ONE process (debug path) over a world with non-repairable,
    # intermittent non-repairable and intermittent repairable sources
    return {"granular": True, "extra_sources": True}


def _shape_tiny(k):
    st = [[2022, 7, 1], [2024, 2, 29], [2023, 12, 31]][k % 3]
    from datetime import date as _d, timedelta as _t

    e = _d(*st) + _t(days=k % 2)  # 1-day and 2-day periods (the 2-day ones may straddle New Year)
    if (e.month, e.day) < (st[1], st[2]):
        e = _d(*st)  # the planner crashes on a trailing partial year (finding recorded under C06)
    return {"start": st, "end": [e.year, e.month, e.day], "n_sites": 10, "pre_sim_emissions": True,
            "rep": {"epr": 0.03125, "duration": 60, "multi": True},
            "nonrep": {"epr": 0.015625, "duration": 20, "multi": True}}


def _shape_pool(k):
    # process pool, two simulations, baseline program listed last
    st, en = [([2024, 2, 27], [2024, 6, 15]), ([2023, 2, 27], [2023, 6, 15])][k % 2]
    return {"start": st, "end": en, "n_sims": 2, "n_sites": 5, "granular": True, "extra_sources": True,
            "_mode": {"debug": False, "processes": 2}, "_baseline_last": True}


def _shape_default(k):
    return {}


def _shape_doy366(k):
    return {"start": [2024, 1, 1], "end": [2024, 12, 31], "n_sites": 5, "_baseline_last": k % 2 == 0}


def _shape_chunked_pool(k):
    """pool mode with MORE programs than 4 x processes: Pool.starmap then pickles several program tuples in
    one chunk (chunksize = ceil(n_programs / (4 x processes)) = 2 here) and the tuples of a chunk share one
    unpickled infrastructure - only the deep copy in simulate() keeps the 2nd program of a chunk from running
    on the emissions the 1st has consumed (seeds C02-6 / C04-6 / C03 round 3).  Several identical OGI programs,
    the no-LDAR program in the middle (2nd of the first chunk) / first / last."""
    variants = [
        {"ogi_clones": 4, "baseline_position": "middle", "_mode": {"debug": False, "processes": 1}},   # 6 programs, 1 process
        {"ogi_clones": 7, "baseline_position": "first", "_mode": {"debug": False, "processes": 2}},    # 9 programs, 2 processes
        {"ogi_clones": 3, "baseline_position": "last", "_mode": {"debug": False, "processes": 1}},     # 5 programs, 1 process
        {"ogi_clones": 4, "baseline_position": 3, "_mode": {"debug": False, "processes": 1}},          # P_none 2nd of the 2nd chunk
    ]
    v = dict(variants[k % len(variants)])
    v.update({"n_sites": 4, "ndays": [150, 120, 200, 150][k % 4], "n_sims": 1, "_exact_programs": True})
    return v


WHOLERUN_SHAPES = [_shape_boundary, _shape_extra_sources, _shape_tiny, _shape_pool, _shape_chunked_pool,
                   _shape_default, _shape_doy366]


# ------------------------------------------------------------------------------------------------
# "wide" configurations (wholerun.make_config(wide=...)): leaves of LDAR-Sim's parameter space the base
# generator never varies and boundary values of those it does.  Tags relevant for C02-C04:
WIDE_TAGS = ["repairs", "durations", "coverage", "crews", "workday", "delays", "freq", "months", "years",
             "weather", "sims"]
COMPONENT_METHODS = ("OGI", "OGI_FU", "OGI_FU2")


def _focus(cfg, what, path, value):
    """a boundary value set on purpose (on top of the random catalogue picks), recorded like them"""
    d = cfg
    for k in path[:-1]:
        d = d[k]
    d[path[-1]] = value
    cfg.setdefault("wide_applied", []).append({"tag": "focus:" + what, "path": list(path), "value": value})


def _focus_repairs(k):
    def f(cfg):
        # C04 "exactly after the configured delays": repair delay 0 (earliest end = tag day + 1, max 1 delta)
        # or the two-valued list [0, 30], together with a reporting delay of 30 days on every tagging method
        _focus(cfg, "repairs", ("repair_delay",), [[0], [0, 30]][k % 2])
        for m in COMPONENT_METHODS:
            _focus(cfg, "delays", ("methods", m, "reporting_delay"), [30, 30, 0][(k // 2) % 3] if m != "OGI_FU2" else 30)
    return f


def _focus_durations(k):
    def f(cfg):
        # C03 bounded duration at its boundary: 1- and 2-day leaks; every pre-period leak of a 1-day source starts
        # exactly `duration` days before the period (the F3 domain); several simulations, each with its own baseline
        _focus(cfg, "durations", ("rep", "duration"), [1, 2][k % 2])
        _focus(cfg, "durations", ("nonrep", "duration"), [1, 2, 1][k % 3])
        _focus(cfg, "sims", ("n_sims",), [3, 2][k % 2])
        cfg["pre_sim_emissions"] = True
        # short leaks: a higher production rate, so that the boundary (a leak that began exactly `duration` days
        # before the period) really occurs
        cfg["rep"]["epr"] = 0.125
        cfg["rep"]["multi"] = True
        cfg["nonrep"]["epr"] = 0.0625
        cfg["nonrep"]["multi"] = True
    return f


def _focus_coverage(k):
    def f(cfg):
        # C02: with coverage 0 on every tagging-capable method nothing can be found: mitigated 0 everywhere
        leaf = ["spatial", "temporal"][k % 2]
        for m in COMPONENT_METHODS:
            _focus(cfg, "coverage", ("methods", m, leaf), 0.0)
    return f


def _focus_sims(k):
    def f(cfg):
        _focus(cfg, "sims", ("n_sims",), [2, 3][k % 2])
    return f


def _focus_fractional(k):
    def f(cfg):
        # fractional repair delays ([2.5, 6.5] / [0.75, 10.25] from the catalogue) together with reporting delays
        # 1 / 0 / 2 on the tagging methods (0.75 + 1: repaired 2 days after the tag, never 1), programs that tag
        rd = [1, 0, 2][k % 3]
        for m in COMPONENT_METHODS:
            _focus(cfg, "delays", ("methods", m, "reporting_delay"), rd)
        cfg["methods"]["OGI"].update({"months": list(range(1, 13)), "surveys_per_year": 6, "spatial": 1.0, "mdl": 0.125})
        cfg["rep"]["duration"] = max(cfg["rep"]["duration"], 120)
    return f


WIDE_SHAPES = [
    lambda k: {"wide": True, "n_sites": 5},                                              # all tags
    lambda k: {"wide": ["repairs", "delays"], "n_sites": 6, "_focus": _focus_repairs(k)},
    lambda k: {"wide": ["durations", "sims"], "n_sites": 6, "ndays": [120, 200][k % 2], "_focus": _focus_durations(k)},
    lambda k: {"wide": ["coverage"], "n_sites": 5, "_focus": _focus_coverage(k)},
    lambda k: {"wide": ["fractional"], "n_sites": 6, "_focus": _focus_fractional(k)},
    lambda k: {"wide": ["crews", "workday", "freq"], "n_sites": 6},
    lambda k: {"wide": ["months", "years", "weather"], "n_sites": 6},
    lambda k: {"wide": WIDE_TAGS + ["fractional"], "n_sites": 5, "_focus": _focus_sims(k)},
    lambda k: {"wide": ["coverage", "delays", "repairs", "durations"], "n_sites": 5},
    lambda k: {"wide": ["sims-batch"], "n_sites": 4, "ndays": 120},                      # 6 / 7 simulations: two batches
]

# "history" shape: the run the user asked for comes SECOND in its folder; an earlier run with one defining
# leaf changed has left its generator folder and outputs behind (wholerun.prev_variant / run_after)
HISTORY_KINDS = ["period-start", "shrink-grow", "duration", "chain", "rates", "repair-delay", "n-sims", "shrink-grow",
                 "site-count", "chain", "pre-sim", "period-end", "coverage", "mdl"]


def _prev_of_kind(W, cfg, what, base):
    import random as _r

    prev, kind = None, None
    for t in range(400):
        prev, kind = W.prev_variant(cfg, _r.Random(base + t))
        if what is None or kind == what:
            break
    return prev, kind


def history_job(ctx, W, j, overrides):
    """returns ([earlier configurations, oldest first], judged configuration, label).  The judged run is the
    LAST of 2-3 runs in one folder.
      <kind>       one earlier run with ONE defining leaf changed (wholerun.prev_variant)
      chain        two earlier runs: prev_variant of prev_variant (two different leaves)
      shrink-grow  three runs in which the number of simulations shrinks and grows again with a duration change
                   in between: A = longer durations, N simulations; B = the judged parameters with ONE simulation;
                   C = the judged run with N simulations (the top-up of the generator folder must produce the
                   extra simulations from the CURRENT parameters, whatever files an earlier run left behind)"""
    import copy as _c

    what = HISTORY_KINDS[j % len(HISTORY_KINDS)]
    ov = dict(overrides)
    st = [[2023, 7, 1], [2022, 5, 1], [2024, 3, 1]][j % 3]
    ov.update({"start": st, "end": [st[0], 12, 31] if j % 2 == 0 else [st[0], 11, 15], "n_sites": 5})
    if what == "shrink-grow":
        ov.update({"end": [st[0], st[1] + 3, 28], "n_sims": 3})
    cfg = W.make_config(ctx.rng, **ov)
    # programs that really tag and repair, long-lived leaks, leaks from before the period
    cfg["methods"]["OGI"].update({"months": list(range(1, 13)), "surveys_per_year": 6, "spatial": 1.0, "mdl": 0.125,
                                  "survey_time": 60, "crew_count": 2, "consider_daylight": False})
    cfg["consider_weather"] = False
    cfg["daylight"] = None
    cfg["pre_sim_emissions"] = True
    cfg["rep"] = {"epr": 0.03125, "duration": 365, "multi": True}
    base = ctx.rng.randrange(1 << 30)
    if what == "shrink-grow":
        cfg["rep"]["duration"] = [20, 30, 45][(j // len(HISTORY_KINDS)) % 3]
        cfg["nonrep"]["duration"] = [20, 10][(j // len(HISTORY_KINDS)) % 2]
        if cfg["nonrep"]["epr"] == 0.0:
            cfg["nonrep"]["epr"] = 0.00390625
        a, _ = _prev_of_kind(W, cfg, "duration", base)          # longer maximum durations, 3 simulations
        if (j // len(HISTORY_KINDS)) % 2 == 1:
            a, _ = _prev_of_kind(W, a, "period-start", base + 1000)   # ... and an earlier start as well
        b = _c.deepcopy(cfg)
        b.pop("wide_applied", None)
        b["n_sims"] = 1                                         # the judged parameters, fewer simulations
        prevs, label = [a, b], "shrink-grow"
    elif what == "chain":
        p1, k1 = _prev_of_kind(W, cfg, None, base)
        p2, k2 = None, k1
        for t in range(50):
            p2, k2 = _prev_of_kind(W, p1, None, base + 5000 + t)
            if k2 != k1:
                break
        prevs, label = [p2, p1], "chain:%s,%s" % (k2, k1)
    else:
        p1, k1 = _prev_of_kind(W, cfg, what, base)
        prevs, label = [p1], k1
    ctx.count("history:%s" % (label if not label.startswith("chain") else "chain"))
    ctx.count("history_runs_before_the_judged_one", len(prevs))
    return prevs, cfg, label


def run_history(W, prevs, cfg):
    """the earlier configurations, oldest first, then `cfg`, all in ONE folder (generator folder and outputs left
    as each run left them); returns the Result of the last run"""
    import tempfile

    root = tempfile.mkdtemp(prefix="ldarverif_")
    rcs = []
    for pc in prevs[:-1]:
        r0 = W.run_config(pc, workdir=root, keep_inputs=True, debug=True, processes=1, trace=False)
        rcs.append(r0.rc)
    r = W.run_after(prevs[-1], cfg, workdir=root, debug=True, processes=1, trace=True)
    rcs.append(r.prev_rc)
    r.prev_rcs = rcs
    return r


def run_configs(ctx, n, extra_sources_every=0, crash_is_broken=False, shapes=False, n_wide=0, n_history=0, **overrides):
    """n generated configurations run by the real simulator (in parallel); returns list of Result.
    `extra_sources_every=k`: every k-th configuration is granular with the opt-in extra sources
    (non-persistent non-repairable source, second repairable source on one component)"""
    import concurrent.futures as cf
    from harness import wholerun as W

    cfgs, modes = [], []
    for j in range(n_history):
        prevs, cfg, kind = history_job(ctx, W, j, overrides)
        cfgs.append(cfg)
        modes.append({"debug": True, "processes": 1, "prev": prevs, "what_differs": kind})
    for j in range(n_wide):
        ov = dict(overrides)
        ov.update(WIDE_SHAPES[j % len(WIDE_SHAPES)](j // len(WIDE_SHAPES)))
        focus = ov.pop("_focus", None)
        cfg = W.make_config(ctx.rng, **ov)
        if focus is not None:
            focus(cfg)
        cfgs.append(cfg)
        modes.append({"debug": True, "processes": 1})
        ctx.count("wholerun_wide_runs")
        ctx.count("wholerun_wide_shape:%d" % (j % len(WIDE_SHAPES)))
        for a in cfg.get("wide_applied", []):
            ctx.count("wholerun_wide_leaf:%s=%s" % ("/".join(str(x) for x in a["path"] if x not in ("m", "c", "methods")),
                                                    json_short(a["value"])))
    for i in range(n):
        ov = dict(overrides)
        mode = {"debug": True, "processes": 1}
        if shapes:
            ov.update(WHOLERUN_SHAPES[i % len(WHOLERUN_SHAPES)](i // len(WHOLERUN_SHAPES)))
            mode = ov.pop("_mode", mode)
            reverse_programs = ov.pop("_baseline_last", False)
            exact_programs = ov.pop("_exact_programs", False)
        elif extra_sources_every and i % extra_sources_every == extra_sources_every - 1:
            ov.update(granular=True, extra_sources=True)
        cfg = W.make_config(ctx.rng, **ov)
        if shapes and reverse_programs:
            cfg["programs"] = list(reversed(cfg["programs"]))
        if shapes and exact_programs:
            # the chunking needs an exact program count: drop the optional stationary program
            cfg["programs"] = [p for p in cfg["programs"] if p["name"] != "P_fix"]
            # ... and programs that really tag and repair, so that a program running on the world another one
            # has left behind shows foreign taggers, aged leaks and end dates beyond the period
            cfg["methods"]["OGI"].update({"months": list(range(1, 13)), "surveys_per_year": 6, "spatial": 1.0,
                                          "mdl": 0.125, "survey_time": 60, "crew_count": 2, "consider_daylight": False})
            cfg["consider_weather"] = False
            cfg["daylight"] = None
            cfg["pre_sim_emissions"] = True
            cfg["rep"] = {"epr": 0.03125, "duration": [120, 365][i // len(WHOLERUN_SHAPES) % 2], "multi": True}
            ctx.count("wholerun_chunked_pool:%d-programs/%d-processes" % (len(cfg["programs"]), mode["processes"]))
        cfgs.append(cfg)
        modes.append(mode)
        if shapes:
            ctx.count("wholerun_shape:%d" % (i % len(WHOLERUN_SHAPES)))
    with cf.ThreadPoolExecutor(max_workers=min(12, max(1, len(cfgs)))) as ex:
        def go(cm):
            cfg, mode = cm
            if mode.get("prev") is not None:
                r = run_history(W, mode["prev"], cfg)
                r.history = mode["what_differs"]
                return r
            return W.run_config(cfg, debug=mode["debug"], processes=mode["processes"], trace=True)

        results = list(ex.map(go, zip(cfgs, modes)))
    for r in results:
        if getattr(r, "history", None) and any(getattr(r, "prev_rcs", [])):
            ctx.count("history_earlier_run_stopped")
            ctx.note("history (%s): an earlier run in the folder stopped (rcs %s)" % (r.history, r.prev_rcs))
    good = []
    for r in results:
        if r.rc != 0:
            ctx.count("wholerun_config_crashed")
            tail = r.log.strip().splitlines()[-1][:200] if r.log.strip() else "(no output)"
            if crash_is_broken:
                # never a silent skip: the generated configurations are valid, so a crash means the current
                # code no longer runs what the correspondence is about; the other stages keep searching
                ctx.broke("whole run crashed", {"cfg": {k: r.cfg[k] for k in ("granular", "start", "end", "n_sites", "n_sims")},
                                                "programs": [p["name"] for p in r.cfg["programs"]],
                                                "log_tail": r.log[-1500:]})
            ctx.note("whole run crashed: " + tail)
            last = r.log
            r.cleanup()
            continue
        good.append(r)
    if not good and results:
        from harness import core

        known = {f["signature"] for f in core.load_findings().get("findings", []) if f["property"] == ctx.prop}
        if ctx.disagreements or any(v["signature"] not in known for v in ctx.violations):
            # the earlier stages already hold a failing input / a disagreement: the crash of every whole
            # run is most likely the same change of the code showing up again - report what was found
            ctx.note("every whole run crashed; verdict rests on the unit stages: " + last.strip().splitlines()[-1][:200])
            return good
        raise RuntimeError("every whole run failed (infrastructure): " + last[-2000:])
    return good


def tagging_methods(cfg, prog):
    """from the configuration only: the methods of program `prog` that can tag at all - component-scale
    methods whose spatial and temporal coverage are both > 0 (coverage 0 means no emission is ever visible
    to the method, `Emission.check_spatial_cov` / `check_temporal_cov` draw Bernoulli(coverage))"""
    names = next((p["methods"] for p in cfg["programs"] if p["name"] == prog), [])
    return [m for m in names if cfg["methods"][m]["measurement_scale"] == "component"
            and float(cfg["methods"][m]["spatial"]) > 0 and float(cfg["methods"][m]["temporal"]) > 0]


def configured_reporting_delay(cfg, method, logged=None):
    m = cfg["methods"].get(method)
    return int(m["reporting_delay"]) if m is not None else logged


def json_short(v):
    import json

    t = json.dumps(v, sort_keys=True)
    return t if len(t) <= 40 else t[:37] + "..."


def record_key(row):
    return (row["Site ID"], row["Equipment"], row["Component"], row["Repairable"], row["Emissions ID"])


def int_days(vol, rate):
    x = float(vol) / (float(rate) * 86.4)
    if abs(x - round(x)) > 1e-6:
        return None
    return int(round(x))


def _ident(row):
    return (row["Date Began"], row['"True" Rate (g/s)'])


def records(res):
    """yields dict per (program, sim, emission) with integer-day fields and the baseline's twin.

    Emission ids are unique per *source*; two sources of the same repairability on one component (the
    opt-in `extra_sources` configurations) produce rows with equal (site, equipment, component,
    repairable, id).  Such rows are paired with their baseline twin through (start date, rate) as well;
    a pair that is still ambiguous is yielded with "ambiguous_twin" (oracles skip and count it), and
    rows whose key is shared carry "dup_key" (their detection-only events cannot be attributed)."""
    cfg = res.cfg
    src_of = {}
    if cfg["granular"]:
        for s in cfg["sources"]:
            prev = src_of.get((s["component"], s["repairable"]))
            kind = (True,) if s["persistent"] else (False, s["active"], s["inactive"])
            if prev is not None and kind != ((True,) if prev["persistent"] else (False, prev["active"], prev["inactive"])):
                raise RuntimeError("two sources of one component and repairability differ in intermittency: "
                                   "records cannot be attributed")
            src_of[(s["component"], s["repairable"])] = s
    for sim in range(res.n_sims):
        base = {}
        for r in (res.emissions(cfg["baseline"], sim) or []):
            base.setdefault(record_key(r), []).append(r)
        for prog in res.programs:
            rows = res.emissions(prog, sim) or []
            tr = next((t for t in res.trace if t["prog"] == prog and t["sim"] == sim), {"events": []})
            tags = {}
            dets = {}
            for idx, e in enumerate(tr["events"]):
                if e[0] == "tag":
                    tags.setdefault((e[2], e[3], e[4]), []).append((idx, e))
                elif e[0] == "detect":
                    dets.setdefault((e[2], e[3], e[4], e[7], e[6]), []).append((idx, e))
            surveys = [e for e in tr["events"] if e[0] == "survey"]
            n_key = {}
            for r in rows:
                n_key[record_key(r)] = n_key.get(record_key(r), 0) + 1
            for r in rows:
                rep = r["Repairable"] == "True"
                kind = cfg["rep"] if rep else cfg["nonrep"]
                comp_type = r["Component"].rsplit("_", 1)[0]
                src = src_of.get((comp_type, rep))
                inter = bool(src) and not src["persistent"]
                start = res.day_index(r["Date Began"])
                rate = float(r['"True" Rate (g/s)'])
                dup = n_key[record_key(r)] > 1
                cands = base.get(record_key(r), [])
                ambiguous = False
                if len(cands) > 1 or dup:
                    cands = [b for b in cands if _ident(b) == _ident(r)]
                    mine = [x for x in rows if record_key(x) == record_key(r) and _ident(x) == _ident(r)]
                    ambiguous = len(cands) > 1 or len(mine) > 1
                twin = cands[0] if len(cands) == 1 and not ambiguous else None
                det_events = [] if dup else dets.get((r["Site ID"], r["Equipment"], r["Component"], rep, r["Emissions ID"]), [])
                d = {
                    "prog": prog, "sim": sim, "key": record_key(r), "row": r, "base": twin,
                    "ambiguous_twin": ambiguous, "dup_key": dup,
                    "repairable": rep, "intermittent": inter,
                    "adur": src["active"] if inter else 1, "idur": src["inactive"] if inter else 0,
                    "start": start, "nrd": kind["duration"], "rate": rate,
                    "status": r["Status"], "activeDays": int(r["Days Active"]),
                    "daysEmitting": int(r["Days Emitting"]),
                    "emitDays": int_days(r['"True" Volume Emitted (Kg Methane)'], rate),
                    "mitDays": int_days(r["Mitigated Emissions (Kg Methane)"], rate),
                    "endDate": res.day_index(r["Date Repaired or Expired"]),
                    "by": r["Tagged By"] if rep else r["Recorded By"],
                    "tagged": (r["Tagged"] if rep else r["Recorded"]) == "True",
                    "initDetect": res.day_index(r["Initially Detected Date"]),
                    "initDetectBy": r["Initially Detected By"],
                    # tag requests reaching the record's component and detection-only events of this
                    # emission, merged in the order the simulator produced them
                    "tags": [e for _, e in sorted(
                        tags.get((r["Site ID"], r["Equipment"], r["Component"]), []) + det_events,
                        key=lambda x: x[0])],
                    "surveys": surveys,
                }
                yield d


def model_line_for_record(rec, delay, n, method_ids, methods=None):
    """`methods` = cfg["methods"]: the reporting delay of a tag request is read from the configuration of the
    method that issued it, not from the TaggingInfo the simulator built"""
    def trd(e):
        m = (methods or {}).get(e[5])
        return int(m["reporting_delay"]) if m is not None and "reporting_delay" in m else e[6]
    evs = [(e[1], method_ids[e[5]], trd(e)) if e[0] == "tag" else (e[1], method_ids[e[5]], 0, 1) for e in rec["tags"]]
    return "case %d %d %d %d %d %d %d %d %s" % (
        rec["start"], rec["nrd"], delay, int(rec["repairable"]), int(rec["intermittent"]), rec["adur"], rec["idur"],
        n, "[" + ",".join("[" + ",".join(str(x) for x in e) + "]" for e in evs) + "]")


def record_summary(rec, method_ids):
    def by(x):
        if x in ("", "None", "N/A", None):
            return "-"
        if x == "natural":
            return "natural"
        if x == "expired":
            return "expire"
        return "c%d" % method_ids[x]
    idb = rec["initDetectBy"]
    return "%s %d %s %s %s %s %d %s %s" % (
        rec["status"], rec["activeDays"], rec["emitDays"], rec["mitDays"],
        "-" if rec["endDate"] is None else rec["endDate"], by(rec["by"]), 1 if rec["tagged"] else 0,
        "-" if rec["initDetect"] is None else rec["initDetect"], by(idb))


def conform_records(ctx, res, recs):
    """trace conformance: each record must be reproduced by the Lean model from (start, nrd, kind,
    tag events of its component) for at least one of the configured repair delays"""
    method_ids = {m: i + 1 for i, m in enumerate(sorted(res.cfg["methods"]))}
    from harness.adapters.emission import ceil_days

    # the model takes whole days: a fractional configured delay enters as its ceiling (C04_fractional_delay)
    delays = sorted({ceil_days(x) for x in res.cfg["repair_delay"]})
    lines, owners = [], []
    for rec in recs:
        for dl in (delays if rec["repairable"] else delays[:1]):
            lines.append(model_line_for_record(rec, dl, res.ndays, method_ids, res.cfg["methods"]))
            owners.append(rec)
    out = LeanDriver("drv_emission").run(lines)
    ok = {}
    got = {}
    def rk(rec):
        return (rec["prog"], rec["sim"], rec["key"], rec["row"]["Date Began"], rec["row"]['"True" Rate (g/s)'],
                rec["status"], rec["activeDays"])

    def cut(line, rec):
        # rows sharing their key with another row: detection-only events cannot be attributed, the two
        # "initially detected" fields are left out of the comparison
        return " ".join(line.split()[:7]) if rec["dup_key"] else line

    for rec, ml in zip(owners, out):
        want = cut(record_summary(rec, method_ids), rec)
        k = rk(rec)
        got.setdefault(k, []).append(ml.split(" | ")[0])
        if cut(ml.split(" | ")[0], rec) == want:
            ok[k] = True
    for rec in recs:
        k = rk(rec)
        ctx.evaluations += 1
        ctx.traces += 1
        if not ok.get(k):
            ctx.disagree("emission/whole-run-record",
                         {"cfg": res.cfg, "prog": rec["prog"], "sim": rec["sim"], "key": list(rec["key"]),
                          "tags": rec["tags"]},
                         got.get(k), record_summary(rec, method_ids))
            ctx.count("wholerun_disagree")
        ctx.count("wholerun_records")


def base_fields(rec):
    """integer-day view of the baseline twin of a whole-run record (None if missing)"""
    b = rec["base"]
    if b is None:
        return None
    rate = float(b['"True" Rate (g/s)'])
    return {"status": b["Status"], "activeDays": int(b["Days Active"]),
            "emitDays": int_days(b['"True" Volume Emitted (Kg Methane)'], rate),
            "mitDays": int_days(b["Mitigated Emissions (Kg Methane)"], rate),
            "endDateStr": b["Date Repaired or Expired"]}


def wholerun_stage(ctx, n_quick, n_thorough, per_record, per_result=None, wide_quick=5, wide_thorough=12,
                   history_quick=2, history_thorough=7, **overrides):
    """runs generated configurations through the real simulator; trace conformance of every record
    against the Lean model; `per_record(ctx, res, rec)` evaluates the property's oracle"""
    results = run_configs(ctx, ctx.pick(n_quick, n_thorough), shapes=True, crash_is_broken=True,
                          n_wide=ctx.pick(wide_quick, wide_thorough),
                          n_history=ctx.pick(history_quick, history_thorough), **overrides)
    try:
        for res in results:
            recs = list(records(res))
            conform_records(ctx, res, recs)
            for rec in recs:
                if rec["ambiguous_twin"]:
                    ctx.count("wholerun_ambiguous_twin_skipped")
                    continue
                if rec["dup_key"]:
                    ctx.count("wholerun_records_sharing_key_with_other_source")
                if rec["emitDays"] is None or rec["mitDays"] is None:
                    ctx.violate("volume-not-integer-days",
                                "a reported volume is not an integer number of days x rate x 86.4",
                                {"cfg": res.cfg, "row": rec["row"]})
                    continue
                per_record(ctx, res, rec)
                ctx.nontrivial.add(("wr", rec["repairable"], rec["intermittent"], rec["status"], rec["by"],
                                    rec["start"] < 0, min(rec["activeDays"], 40), len(rec["tags"]) > 0))
            if per_result is not None:
                per_result(ctx, res, recs)
            ctx.count("wholerun_configs")
            ctx.sample({"whole_run": {k: res.cfg[k] for k in ("granular", "start", "end", "n_sites", "n_sims", "repair_delay")},
                        "programs": [p["name"] for p in res.cfg["programs"]], "processes": res.cfg.get("processes"),
                        "wide_applied": res.cfg.get("wide_applied"), "history": getattr(res, "history", None),
                        "sources": [(x["source"], x["component"], x["repairable"], x["persistent"])
                                    for x in res.cfg.get("sources", [])],
                        "records": len(recs)}, cap=8)
            ctx.count("wholerun_simulations", res.n_sims)
    finally:
        for res in results:
            res.cleanup()


# ------------------------------------------------------------------------------------------------
# several emissions sharing real Components (interaction between emissions of one component:
# list handling in Component.update_emissions_state / tag_emissions)
# ------------------------------------------------------------------------------------------------
def small_world(rng):
    n = rng.randint(1, 10)
    comps = []
    for _ in range(rng.randint(1, 3)):
        ems = []
        for _ in range(rng.randint(1, 4)):
            rep, inter, ad, idur = rng.choice(KINDS)
            nrd = rng.randint(1, 7)
            ems.append((rng.randint(-nrd, n), nrd, rng.randint(0, 3), rep, inter, ad, idur, rng.choice([256, 512, 1024, 2048])))
        evs = []
        for _ in range(rng.choice([0, 1, 1, 2, 3])):
            if rng.random() < 0.3:
                evs.append((rng.randrange(n), rng.randint(4, 5), 0, 1))
            else:
                evs.append((rng.randrange(n), rng.randint(1, 3), rng.choice([0, 0, 1, 2])))
        evs.sort(key=lambda e: e[0])
        comps.append((ems, evs))
    return n, comps


def world_emission_results(world, with_events=True, traces=None):
    """drive real Components holding several emissions each; returns [(case_tuple, summary_dict)];
    `traces` (a list) receives the per-day trace of every emission, in the order of the result"""
    from datetime import timedelta
    from harness.adapters import emission as E
    from file_processing.output_processing.output_utils import EmisInfo, TsEmisData
    from scheduling.schedule_dataclasses import TaggingInfo

    n, comps = world
    real = []
    per_day = {}
    for ems, evs in comps:
        objs = [E.make_emission(st, nrd, dl, rep, inter, ad, idur, rate=r / 1024.0) for (st, nrd, dl, rep, inter, ad, idur, r) in ems]
        real.append((E.make_component(objs), evs if with_events else [], ems, objs))
    for dn in range(E.simulated_days(n)):
        cur = E.SIM_START + timedelta(days=dn)
        for comp, evs, _, _ in real:
            comp.activate_emissions(cur, 0)
        for comp, evs, _, _ in real:
            for ev in evs:
                if ev[0] != dn:
                    continue
                if len(ev) > 3 and ev[3] == 1:
                    for e_ in comp._active_emissions:
                        e_.update_detection_records(company=f"c{ev[1]}", detect_date=cur)
                elif comp._active_emissions:
                    comp.tag_emissions(TaggingInfo(2.0, cur, 5, f"c{ev[1]}", "1", ev[2]))
        info, data = EmisInfo(), TsEmisData()
        for comp, _, _, _ in real:
            comp.update_emissions_state(info, data)
        if traces is not None:
            for comp, _, _, objs in real:
                for em in objs:
                    per_day.setdefault(id(em), []).append("%s:%d:%d:%d:%d:%d" % (
                        em.get_status(), em._active_days, em.get_days_emitting(),
                        1 if getattr(em, "_tagged", getattr(em, "_record", False)) else 0,
                        getattr(em, "_days_since_tagged", 0), 1 if em.is_emitting() else 0))
    out = []
    for comp, evs, ems, objs in real:
        for spec, em in zip(ems, objs):
            sd = em.get_summary_dict(E.summary_end_date(n))
            case = tuple(spec[:7]) + (n, list(evs))
            out.append((case, parse_summary(E.summary_line(em, sd, rate=spec[7] / 1024.0))))
            if traces is not None:
                traces.append(per_day.get(id(em), []))
    return out


def shared_component_stage(ctx, per_emission, per_trace=None):
    """`per_emission(ctx, case, result, baseline_result, world)` evaluates a property's oracle on every
    emission of random worlds in which several emissions share a component; also checks each emission
    against the single-emission Lean model (emissions of one component must not influence each other).
    `per_trace(ctx, case, per_day, baseline_per_day, world)` (optional) sees the per-day traces."""
    worlds = [small_world(ctx.rng) for _ in range(ctx.pick(800, 15000))]
    lines, owners = [], []
    from harness.adapters import emission as E

    for w in worlds:
        t1, t0 = ([], []) if per_trace is not None else (None, None)
        try:
            with_ev = world_emission_results(w, True, traces=t1)
            without = world_emission_results(w, False, traces=t0)
        except (Exception, SystemExit) as e:  # noqa: BLE001
            ctx.disagree("emission/shared-component", {"world": w}, "no exception",
                         "implementation: %s: %s" % (type(e).__name__, e))
            ctx.count("impl_exception")
            continue
        for i, ((case, res), (_, base)) in enumerate(zip(with_ev, without)):
            lines.append(E.case_line(case))
            owners.append((w, case, res, base))
            if per_trace is not None:
                per_trace(ctx, case, t1[i], t0[i], w)
    out = LeanDriver("drv_emission").run(lines)
    for (w, case, res, base), ml in zip(owners, out):
        ctx.evaluations += 1
        mres = parse_summary(ml)
        if mres != res:
            ctx.disagree("emission/shared-component", {"world": w, "case": list(case)}, mres, res)
            ctx.count("shared_component_disagree")
        per_emission(ctx, case, res, base, w)
        count_hypotheses(ctx, case, res, prefix="hyp-shared:")
        k = nontrivial_key(case, res)
        if k is not None:
            ctx.nontrivial.add(("sc",) + k)
    ctx.traces += len(worlds)
    ctx.count("shared_component_worlds", len(worlds))


# ------------------------------------------------------------------------------------------------
# hardening stages (audit/LESSONS.md items 1-4, 7), shared by C02 / C03 / C04.
# `per_case(ctx, case, result, baseline_result, origin)` is the property's own oracle.
# ------------------------------------------------------------------------------------------------
# copy / pickle hooks and shared containers of the modelled classes as they are in the accepted tree.
# A NEW entry (a __deepcopy__ hook, a class-level cache, ...) re-opens the obligation "per-program copies of
# the world share nothing" that the model takes for granted (it has no cross-case state).
EXPECTED_HOOKS = [
    "component.py:Component.__reduce__",
    "emission.py:Emission.EMIS_SUMMARY_DTYPES={}",
    "emission.py:Emission.__reduce__",
    "emission.py:Emission.__setstate__",
    "intermittent_non_repairable_emission.py:IntermittentNonRepairableEmission.__reduce__",
    "intermittent_non_repairable_emission.py:IntermittentNonRepairableEmission.__setstate__",
    "intermittent_repairable_emission.py:IntermittentRepairableEmission.__reduce__",
    "intermittent_repairable_emission.py:IntermittentRepairableEmission.__setstate__",
    "non_repairable_emissions.py:NonRepairableEmission.__reduce__",
    "non_repairable_emissions.py:NonRepairableEmission.__setstate__",
    "repairable_emission.py:RepairableEmission.__reduce__",
    "repairable_emission.py:RepairableEmission.__setstate__",
    "sources.py:Source.__reduce__",
]

CALENDAR_STARTS = [(2023, 12, 30), (2024, 12, 30), (2024, 2, 27), (2023, 2, 27), (2024, 1, 1), (2020, 2, 29),
                   (2022, 12, 31), (2022, 3, 1)]  # the last one: the default start shifted by exactly one year

MARKER_NAMES = ["natural", "expired", "N/A", "None", "", "OGI_FU", "OGI_FU2", "kept", "0", "c1_", "Logs"]


def hook_table_stage(ctx):
    from harness.adapters import emission as E

    problems, table = E.hook_table()
    for p in problems:
        ctx.broke("copy-hook table of the emission classes", p)
    new = [t for t in table if t not in EXPECTED_HOOKS]
    gone = [t for t in EXPECTED_HOOKS if t not in table]
    if new:
        ctx.broke("copy-hook / shared-container table of the emission classes",
                  "entries that the accepted tree does not have (per-program copies and consecutive cases may now "
                  "share state; the copy / history stages look for a failing input): %s" % new)
    if gone:
        ctx.note("copy-hook table: entries of the accepted tree no longer present: %s" % gone)
    ctx.extra["copy_hook_table"] = table


def _sample(ctx, results, k, pred=lambda c, res: True):
    pool = [(c, res, il) for (c, res, ml, il) in results if pred(c, res)]
    ctx.rng.shuffle(pool)
    return pool[:k]


def history_stage(ctx, results, per_case):
    """same-process history: cases whose identifiers collide (every case uses emission id 1, component
    "comp_1", source "S") but whose values differ are run one after another, in both orders; each result must
    be the one the case gave before (and gives alone - the model has no cross-case state)"""
    from harness.adapters import emission as E

    sample = _sample(ctx, results, ctx.pick(400, 5000), lambda c, res: res["status"] != "inactive")
    for order, seq in (("forward", sample), ("reverse", list(reversed(sample)))):
        for c, res, il in seq:
            got, err = E.safe_impl_line(c)
            ctx.evaluations += 1
            if err is not None or got != il:
                ctx.disagree("emission/same-process-history(%s)" % order, {"case": list(c)}, il,
                             got if err is None else "implementation: " + err[1])
                ctx.count("history_disagree")
                if err is None:
                    base = impl_result(without_events(c))
                    per_case(ctx, c, parse_summary(got), base, "history")
    ctx.count("history_cases", 2 * len(sample))


def shared_input_stage(ctx, per_case):
    """several real emissions created by ONE real Source from ONE delay list / cost list / pair of coverage
    dictionaries: the shared inputs must be deep-equal afterwards, emissions with equal (start, drawn delay)
    must end equal, and every emission must behave like the model with its drawn delay"""
    from harness.adapters import emission as E

    specs = []
    for _ in range(ctx.pick(150, 2500)):
        rep, inter, ad, idur = ctx.rng.choice(KINDS)
        n = ctx.rng.randint(2, 10)
        nrd = ctx.rng.randint(1, 7)
        specs.append({"rep": rep, "inter": inter, "ad": ad, "idur": idur, "nrd": nrd,
                      "delays": (ctx.rng.choice([[2.5, 6.5], [0.75, 10.25], [0.5], [1.5, 3], [2, 2.25, 0.25]])
                                 if ctx.rng.random() < 0.3 else
                                 [ctx.rng.randint(0, 4) for _ in range(ctx.rng.randint(1, 4))]),
                      "costs": [float(ctx.rng.choice([64, 128, 256])) for _ in range(ctx.rng.randint(1, 3))],
                      "covs": {"c1": 1.0, "c2": 0.5},
                      "starts": [ctx.rng.randint(-nrd, n) for _ in range(ctx.rng.randint(2, 5))],
                      "events": sorted((ctx.rng.randrange(n), ctx.rng.randint(1, 2), ctx.rng.choice([0, 0, 2]))
                                       for _ in range(ctx.rng.choice([0, 1, 1, 2]))),
                      "n": n, "seed": ctx.rng.randrange(1 << 30)})
    lines, owners = [], []
    for sp in specs:
        try:
            out = E.run_shared_source(sp)
        except (Exception, SystemExit) as e:  # noqa: BLE001
            ctx.disagree("emission/shared-inputs", {"shared_source_spec": sp}, "no exception", "implementation: %s: %s" % (type(e).__name__, e))
            ctx.count("impl_exception")
            continue
        ctx.evaluations += 1
        if not out["inputs_unchanged"]:
            ctx.disagree("emission/shared-inputs", {"shared_source_spec": sp}, "inputs deep-equal before/after",
                         {"before": out["inputs_before"], "after": out["inputs_after"]})
            ctx.count("shared_inputs_mutated")
        same = {}
        for drawn, st, line in out["results"]:
            if same.setdefault((drawn, st), line) != line:
                ctx.disagree("emission/shared-inputs", {"shared_source_spec": sp}, same[(drawn, st)], line)
                ctx.count("shared_inputs_equal_specs_differ")
            case = (st, sp["nrd"], drawn, sp["rep"], sp["inter"], sp["ad"], sp["idur"], sp["n"], list(sp["events"]))
            lines.append(E.case_line(case))
            owners.append((sp, case, line))
    model = LeanDriver("drv_emission").run(lines)
    for (sp, case, line), ml in zip(owners, model):
        if ml.split(" | ")[0] != line:
            ctx.disagree("emission/shared-inputs", {"shared_source_spec": sp, "case": list(case)}, ml.split(" | ")[0], line)
            ctx.count("shared_inputs_disagree")
            per_case(ctx, case, parse_summary(line), impl_result(without_events(case)), "shared-inputs")
    ctx.traces += len(specs)
    ctx.count("shared_input_specs", len(specs))
    ctx.count("shared_input_emissions", len(owners))


def copy_stage(ctx, per_case):
    """what simulate() does to the world: every program works on its own deep copy, pool workers on an
    unpickled copy.  One real Component (several emissions of mixed kinds) is built once; a deep copy runs a
    program (events), then a second deep copy of the SAME original runs without events, then a pickle round
    trip runs the program again.  Every copy must end like a freshly built world, the original must still be
    pristine, and no emission object may be shared between the original and a copy."""
    import copy
    import pickle
    from harness.adapters import emission as E

    worlds = [small_world(ctx.rng) for _ in range(ctx.pick(250, 4000))]
    for w in worlds:
        n = w[0]
        try:
            fresh_prog = [x for comp, evs, _, _ in _driven(E, w, True) for x in E.component_summaries(comp, n, None)]
            fresh_base = [x for comp, evs, _, _ in _driven(E, w, False) for x in E.component_summaries(comp, n, None)]
            original = E.build_components(w)
            pristine = pickle.dumps([c for c, _, _, _ in original])
            c1 = [(copy.deepcopy(comp), evs) for comp, evs, _, _ in original]
            shared = [type(a).__name__ for (comp, _, _, _), (cc, _) in zip(original, c1)
                      for a in E.component_emissions(comp) for b in E.component_emissions(cc) if a is b]
            E.drive_components(c1, n, True)
            got_prog = [x for cc, _ in c1 for x in E.component_summaries(cc, n, None)]
            c2 = [(copy.deepcopy(comp), evs) for comp, evs, _, _ in original]
            E.drive_components(c2, n, False)
            got_base = [x for cc, _ in c2 for x in E.component_summaries(cc, n, None)]
            c3 = [(pickle.loads(pickle.dumps(comp)), evs) for comp, evs, _, _ in original]
            E.drive_components(c3, n, True)
            got_pickled = [x for cc, _ in c3 for x in E.component_summaries(cc, n, None)]
            still_pristine = pickle.dumps([c for c, _, _, _ in original]) == pristine
        except (Exception, SystemExit) as e:  # noqa: BLE001
            ctx.disagree("emission/copies", {"world": w}, "no exception", "implementation: %s: %s" % (type(e).__name__, e))
            ctx.count("impl_exception")
            continue
        ctx.evaluations += 1
        inp = {"world": w}
        if shared:
            ctx.violate(ctx.prop + ":world-copies-share-emissions",
                        "a deep copy of a Component (what every program of a simulation works on) shares emission "
                        "objects with the original: %s" % sorted(set(shared)), inp)
        for name, got, want in (("program on first deep copy", got_prog, fresh_prog),
                                ("no-LDAR run on a second deep copy, after the first copy ran a program", got_base, fresh_base),
                                ("program on a pickle round trip", got_pickled, fresh_prog)):
            if got != want:
                ctx.disagree("emission/copies: " + name, inp, want, got)
                ctx.count("copies_disagree")
        if not still_pristine:
            ctx.disagree("emission/copies: original after its copies ran", inp, "unchanged (pickle-equal)", "changed")
            ctx.count("copies_original_touched")
        if got_base != fresh_base or shared:
            # failing input for the properties: judge the (contaminated) no-LDAR copy against the fresh one
            for g, f in zip(got_base, fresh_base):
                if g != f:
                    ctx.violate(ctx.prop + ":no-ldar-run-depends-on-earlier-program",
                                "the no-LDAR run of a world differs when another program ran on a copy of the same "
                                "world before it in the same process (%s vs alone %s)" % (g, f), inp)
                    break
    ctx.traces += len(worlds)
    ctx.count("copy_worlds", len(worlds))


def _driven(E, world, with_events):
    real = E.build_components(world)
    E.drive_components([(c, evs) for c, evs, _, _ in real], world[0], with_events)
    return real


def calendar_stage(ctx, results, per_case):
    """the same cases with other first simulated days: New Year and Feb 29 inside the period, day-of-year 366,
    a start on Dec 31, the default start shifted by exactly one year.  Results are compared in day indices
    (obtained by Python date subtraction): the model is calendar-free (`run_shift`), so must the code be."""
    from datetime import date
    from harness.adapters import emission as E

    small = _sample(ctx, results, ctx.pick(250, 3000), lambda c, res: res["status"] != "inactive")
    big = _sample(ctx, results, ctx.pick(12, 150), lambda c, res: c[7] > 300)
    for (y, m, d) in CALENDAR_STARTS:
        with E.sim_start(date(y, m, d)):
            for c, res, il in small + big:
                got, err = E.safe_impl_line(c)
                ctx.evaluations += 1
                if err is not None or got != il:
                    ctx.disagree("emission/calendar(start %04d-%02d-%02d)" % (y, m, d), {"case": list(c), "sim_start": [y, m, d]},
                                 il, got if err is None else "implementation: " + err[1])
                    ctx.count("calendar_disagree")
                    if err is None:
                        try:
                            base = impl_result(without_events(c))
                            per_case(ctx, c, parse_summary(got), base, "calendar %04d-%02d-%02d" % (y, m, d))
                        except (Exception, SystemExit):  # noqa: BLE001
                            pass
    ctx.count("calendar_cases", len(CALENDAR_STARTS) * (len(small) + len(big)))
    ctx.count("calendar_starts", len(CALENDAR_STARTS))


def marker_name_stage(ctx, results, per_case):
    """method names that coincide with markers the code uses itself ("natural", "expired", "N/A", ...), names
    with underscores / digits / prefixes of each other, the empty name: the label must not matter.  Each case
    is re-run with company k named <name> (k = 1) / <name>_<k>; the result must be the plain one with the
    labels replaced.  Known: a method named "natural" is never credited with mitigation (finding C02-natural)."""
    from harness.adapters import emission as E

    sample = _sample(ctx, results, ctx.pick(120, 1500),
                     lambda c, res: c[8] and res["by"].startswith("c") or (not c[3] and res["initDetectBy"].startswith("c")))
    for name in MARKER_NAMES:
        def company(k, name=name):
            return name if k == 1 else "%s_%d" % (name, k)

        for c, res, il in sample:
            got, err = E.safe_impl_line(c, company=company)
            ctx.evaluations += 1
            want = il.split(" | ")[0].split()
            if err is not None:
                ctx.disagree("emission/method-name(%r)" % name, {"case": list(c), "method_name": name}, " ".join(want), "implementation: " + err[1])
                ctx.count("marker_name_disagree")
                continue
            g = got.split(" | ")[0]
            # re-label the plain result: fields 5 (by) and 8 (initDetectBy) carry company labels
            def relabel(x):
                if x.startswith("c") and x[1:].isdigit():
                    lab = company(int(x[1:]))
                    return "expire" if lab == "expired" else lab
                return x
            w = list(want)
            w[5], w[8] = relabel(w[5]), relabel(w[8])
            # the harness' own line format splits on blanks: compare token lists built the same way
            if g.split(" ") != " ".join(w).split(" ") or got.split(" | ")[1:] != il.split(" | ")[1:]:
                gres = parse_summary_tokens(g, w)
                plain = parse_summary(il)
                if (name == "natural" and c[3] and plain["by"] == "c1" and plain["status"] == "repaired"
                        and plain["mitDays"] > 0 and gres is not None and gres["mitDays"] == 0
                        and all(gres[k] == plain[k] for k in ("status", "activeDays", "emitDays", "endDate", "initDetect"))):
                    if ctx.prop == "C02":  # a statement about mitigation: C03 / C04 do not judge it
                        ctx.violate("C02:identity:method-named-natural",
                                    "a method named `natural` repairs a leak but is not credited with the mitigation",
                                    {"case": list(c), "method_name": name, "implementation": g, "plain_name_result": " ".join(want)})
                    ctx.count("marker_name:natural-not-credited(C02-natural)")
                    continue
                ctx.disagree("emission/method-name(%r)" % name, {"case": list(c), "method_name": name}, " ".join(w), g)
                ctx.count("marker_name_disagree")
                if gres is not None:
                    per_case(ctx, c, gres, impl_result(without_events(c)), "method name %r" % name)
    ctx.count("marker_name_cases", len(MARKER_NAMES) * len(sample))


def parse_summary_tokens(line, like):
    """parse a summary line whose label fields may be empty / contain no blanks; None if it cannot be aligned"""
    toks = line.split(" ")
    if len(toks) != len(like):
        return None
    try:
        return parse_summary(" ".join(t if t != "" else "-" for t in toks))
    except (ValueError, KeyError):
        return None


def hardening_stages(ctx, results, per_case):
    hook_table_stage(ctx)
    history_stage(ctx, results, per_case)
    shared_input_stage(ctx, per_case)
    copy_stage(ctx, per_case)
    calendar_stage(ctx, results, per_case)
    marker_name_stage(ctx, results, per_case)



def tie_stage(ctx):
    """layer 3 for the emission classes (see harness/props/_tie.py)"""
    from harness.props import _tie
    return _tie.emission_tie(ctx)
