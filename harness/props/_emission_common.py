"""Shared by C02 / C03 / C04: generators of emission cases, the correspondence between the real
emission classes (driven through the real Component/Source) and the Lean model, parsed results."""
from __future__ import annotations

from harness.core import LeanDriver

KINDS = [  # (repairable, intermittent, activeDur, inactiveDur)
    (True, False, 1, 0),
    (False, False, 1, 0),
    (True, True, 1, 1),
    (True, True, 2, 1),
    (True, True, 1, 2),
    (True, True, 2, 3),
    (False, True, 1, 1),
    (False, True, 2, 3),
]


def parse_summary(line):
    head = line.split(" | ")[0].split()
    keys = ["status", "activeDays", "emitDays", "mitDays", "endDate", "by", "tagged", "initDetect", "initDetectBy"]
    d = dict(zip(keys, head))
    for k in ("activeDays", "emitDays", "mitDays", "tagged"):
        d[k] = int(d[k])
    for k in ("endDate", "initDetect"):
        d[k] = None if d[k] == "-" else int(d[k])
    return d


def boundary_cases():
    """the structured exhaustive core: persistent kinds, one tag event, all relative timings"""
    for n in range(1, 9):
        for start in range(-7, n + 1):
            for nrd in range(1, 7):
                for delay in (0, 1, 2, 3):
                    for tag in [None] + list(range(n)):
                        for rep in (True, False):
                            evs = [] if tag is None else [(tag, 1, 0)]
                            yield (start, nrd, delay, rep, False, 1, 0, n, evs)


def random_case(rng, big=False):
    if big:
        n = rng.randint(20, 400)
        nrd = rng.randint(1, 500)
        start = rng.randint(-nrd, n)
        delay = rng.choice([0, 1, 2, 7, 14, 30, 60, rng.randint(0, 90)])
        ntags = rng.choice([0, 1, 1, 2, 3, 5])
    else:
        n = rng.randint(1, 9)
        nrd = rng.randint(1, 7)
        start = rng.randint(-8, n)
        delay = rng.randint(0, 3)
        ntags = rng.choice([0, 1, 1, 1, 2, 2, 3])
    rep, inter, ad, idur = rng.choice(KINDS)
    if big and inter:
        ad, idur = rng.randint(1, 9), rng.randint(1, 9)
    evs = sorted((rng.randrange(n), rng.randint(1, 3), rng.choice([0, 0, 1, 2, 3] if not big else [0, 1, 2, 5, 14]))
                 for _ in range(ntags))
    return (start, nrd, delay, rep, inter, ad, idur, n, evs)


def build_cases(ctx):
    cases = []
    seen = set()

    def add(c):
        key = repr(c)
        if key not in seen:
            seen.add(key)
            cases.append(c)

    core = list(boundary_cases())
    if ctx.quick:
        ctx.rng.shuffle(core)
        core = core[:12000]
    for c in core:
        add(c)
    for _ in range(ctx.pick(6000, 150000)):
        add(random_case(ctx.rng))
    for _ in range(ctx.pick(150, 3000)):
        add(random_case(ctx.rng, big=True))
    return cases


def without_events(case):
    return case[:8] + ([],)


def nontrivial_key(case, res):
    """a case is non-trivial when the emission becomes active inside the horizon; distinct by its
    qualitative shape: kind, pre-period?, how it ended, tag relative to natural end, horizon cut"""
    (start, nrd, delay, rep, inter, ad, idur, n, evs) = case
    if res["status"] == "inactive":
        return None
    return (rep, inter, start < 0, start == -nrd, res["status"], res["by"][:1], len(evs) > 1,
            min(nrd, 7), min(delay, 4), min(n, 9), res["activeDays"] if res["activeDays"] < 8 else 8)


def correspond(ctx, cases, component="emission"):
    """runs implementation and model on the cases; returns list of (case, impl_result_dict, model_line, impl_line)"""
    from harness.adapters import emission as E

    lines = [E.case_line(c) for c in cases]
    model = LeanDriver("drv_emission").run(lines)
    out = []
    for c, ml in zip(cases, model):
        il = E.impl_line(c)
        ctx.evaluations += 1
        if il != ml:
            ctx.disagree(component, {"case": list(c)}, ml, il)
            ctx.count("disagree")
        res = parse_summary(il)
        k = nontrivial_key(c, res)
        if k is not None:
            ctx.nontrivial.add(k)
        ctx.count("kind:%s%s" % ("rep" if c[3] else "nonrep", "-interm" if c[4] else ""))
        ctx.count("end:" + res["status"] + "/" + (res["by"] if not res["by"].startswith("c") else "company"))
        out.append((c, res, ml, il))
    ctx.traces += len(cases)
    return out


def impl_result(case):
    from harness.adapters import emission as E

    return parse_summary(E.impl_line(case))
