"""C19 — sensitivity sets differ from the base case exactly in the varied parameters.

Lean: Props/C19.lean over Model/Holder.lean (updNested, alterD, unpack, vary).
Tie: the REAL ParametersHolder / GenericParameters / HighLevelParameters, process_parameter_variations
and vary_parameter_values are run on base parameters produced by the real intake from the repo's
default files, with generated sensitivity descriptions at the three levels; the compiled model
(drv_vary) gets the same inputs (and the holder mappings read from the ParametersHolder class).
Oracle (independent of the model, on the implementation's own sets): every set equals the base with
exactly the described leaf paths holding the i-th listed value, baseline program carried over
unchanged, names distinct, output folder out/i, base dictionaries and base holder deep-equal before
and after.
"""
from __future__ import annotations

import copy
import json
import shutil
import tempfile

from harness import core

# an import failure of the modelled modules is a broken obligation, not an infrastructure error (LESSONS 7)
try:
    from harness.adapters import tree as T
    from harness.adapters import vary as V
    from harness.props import _tree_common as G
    IMPORT_ERROR = None
except Exception:  # noqa: BLE001
    import traceback as _tb
    T = V = G = None
    IMPORT_ERROR = _tb.format_exc()


class BaseRejected(Exception):
    """the real intake refuses a generated (valid) base: reported once as a broken obligation"""

MANIFEST_ENTRY = {
    "text": "Lean theorems over an executable model of the parameter holders and the variator (update_nested_dictionary / _merge_variation, alter_parameter at the three holder kinds, unpack_parameter_variations, vary_parameter_values): upd_varied / upd_frame_leaf_and_node (a nested update writes exactly the listed leaf paths), alter_is_nested_update, alter_frame_other, unpack_slice / unpack_direct (set i receives exactly the i-th listed value of every described leaf), vw_sets / vw_frame / vw_varied and vw_described (description -> value for the virtual world: every described leaf path holds vals[i] in set i, every untouched leaf its base value; n sets, settings unchanged except the output folder out/i, programs and outputs unchanged), program_copy / program_in_set / names_present_programs (programs level: the copy P_i is P with the name changed, untouched leaves kept, described leaves at the listed value), method_copy (methods level: other methods kept, the varied method is the nested update of the original stored under m_i, labels updated), baseline_unchanged_*, names_present_no_clash, names_distinct, out_folder, out_folders_distinct; C19_counterexample_names proves the full-strength name clause false (recorded finding F19a; the relatives F19b/F19c are recorded too). base_not_modified is a statement about aliasing: it is discharged on every run by the deep-equality oracle on the real objects (base dictionaries, base holder, description before/after) plus an identity walk asserting that no mutable object is shared between the base holder and any produced set, as DESIGN 5.19 plans. The model is tied on every run to the real classes on base parameters built by the real intake from the repo's default files, with generated sensitivity descriptions at all three levels (a share through get_sensitivity_info, one case per level through SensitivitySimulationManager), and the property's clauses are evaluated directly on the implementation's sets.",
    "design_ref": "DESIGN.md 5.19, 4.4",
    "note": "trusted: Lean kernel + propext/Classical.choice/Quot.sound; the hand-written model, in which a holder is its dictionary plus the sub-parameter mapping (that the real constructor/to_dict round-trips is checked by correspondence, not proved); copy.deepcopy is the identity in the model — aliasing is covered only by the before/after oracle on the real objects; descriptions are assumed well-formed (one list of n values per described leaf); programs that are neither baseline nor varied are dropped by the variator by design",
    "technique": "Lean 4 structural-induction proofs over parameter trees + differential correspondence with the real holder/variator classes + direct oracle incl. deep equality before/after",
}

MODULE = "LdarModel.Props.C19"
FILE = "LdarModel/Props/C19.lean"

SIG_CLASH = "C19:names:clash-with-existing-program"
SIG_BASECLASH = "C19:baseline-changed:clash-with-varied-name"
SIG_METHCLASH = "C19:names:method-clash-with-existing-method"
SIG_BASEM = "C19:names:methods-level-clash-with-baseline-name"


def lean(lines):
    return core.LeanDriver("drv_vary").run(lines)


def check_constants(ctx):
    want = {
        "method_name": "Method Name", "method_params": "Method Sensitivity Parameters",
        "program_name": "Program Name", "program_params": "Program Sensitivity Parameters",
        "method_rename": "{method_name}_{i}", "program_rename": "{program_name}_{i}",
        "mapping": {"Sensitivity Parameter Level": "parameter_level",
                    "Sensitivity Sets Provided": "number_of_sensitivity_sets",
                    "Sensitivity Sets": "parameter_variations",
                    "Sensitivity Summary Outputs Information": "Sensitivity Summary Outputs Information"},
    }
    ctx.obligations.append("table:sensitivity-constants")
    got = V.constants_table()
    if got != want:
        ctx.broke("table:sensitivity-constants", f"{got} != {want}")
    else:
        ctx.discharged.append("table:sensitivity-constants")


EXPECTED_STATE = [
    "constants/sensitivity_analysis_constants.py:SensitivityAnalysisMapping:SENS_PARAM_MAPPING:dict",
    "constants/sensitivity_analysis_constants.py:SensitivityVariationsMapping:FIXED_COLUMN_NAMES:list",
    "constants/sensitivity_analysis_constants.py:SensitivityVariationsMapping:FLEXIBLE_COLUMNS_NAMES:list",
    "constants/sensitivity_analysis_constants.py:TrueEstimatedEmisionsSens:COLUMNS:list",
    "constants/sensitivity_analysis_constants.py:TrueEstimatedEmisionsSens:DATA_SOURCE_MAPPING:dict",
    "constants/sensitivity_analysis_constants.py:ValidParametersForSensitivityAnalysis:METHODS:list",
    "constants/sensitivity_analysis_constants.py:ValidParametersForSensitivityAnalysis:PROGRAMS:list",
    "constants/sensitivity_analysis_constants.py:ValidParametersForSensitivityAnalysis:VIRTUAL_WORLD:list",
    "parameters/parameters_holder.py:ParametersHolder:METHOD_SUB_PARAMETER_MAPPING:dict",
    "parameters/parameters_holder.py:ParametersHolder:OUTPUTS_SUB_PARAMETER_MAPPING:dict",
    "parameters/parameters_holder.py:ParametersHolder:PROGRAM_SUB_PARAMETER_MAPPING:dict",
    "parameters/parameters_holder.py:ParametersHolder:VIRTUAL_WORLD_SUB_PARAMETER_MAPPING:dict",
]


def check_state_table(ctx):
    """class- / module-level mutable containers, caches, copy / pickle hooks of the holder and variator
    modules (LESSONS 1).  The table is fixed: the four class-level mappings of ParametersHolder and the
    constant lists; no cache, no __deepcopy__/__reduce__ hook, no `global`.  Anything new re-opens the
    obligation; the listed containers are snapshotted here and compared at the end of the run."""
    ctx.obligations.append("table:holder-variator-cross-case-state")
    try:
        rows = T.mutable_state_table(V.C19_SOURCES)
    except Exception as e:  # noqa: BLE001
        ctx.broke("table:holder-variator-cross-case-state", f"cannot scan the sources: {e!r}")
        return None, None
    if rows != EXPECTED_STATE:
        new = sorted(set(rows) - set(EXPECTED_STATE))
        gone = sorted(set(EXPECTED_STATE) - set(rows))
        ctx.broke("table:holder-variator-cross-case-state", f"new state carriers: {new}; no longer there: {gone}")
    else:
        ctx.discharged.append("table:holder-variator-cross-case-state")
    try:
        return rows, T.snapshot_state(rows)
    except Exception as e:  # noqa: BLE001
        ctx.broke("snapshot of class-level containers", repr(e))
        return rows, None


# ----------------------------------------------------------------------------------------------
# base parameters from the real intake
# ----------------------------------------------------------------------------------------------
def make_base(rng, defs, scratch, clash=False, want_files=False):
    """clash: False | "program" (programs P_OGI, P_OGI_1) | "baseline" (baseline called P_OGI_0) |
    "method" (methods OGI and OGI_0 in the sensitivity program)"""
    df = T.DEF_FILES
    n_meth = rng.choice([1, 2, 3])
    mnames = rng.sample(G.METHOD_POOL, n_meth)
    baseline = rng.choice(["P_none", "Base", "P none"])
    pnames = rng.sample([p for p in G.NAME_POOL if p != baseline], rng.choice([1, 1, 2]))
    if clash is True or clash == "program":
        pnames = ["P_OGI", "P_OGI_1"]
    elif clash == "baseline":
        pnames, baseline = ["P_OGI"], "P_OGI_0"
    elif clash == "method":
        pnames, mnames = ["P_OGI"], ["OGI", "OGI_0"] + [m for m in mnames if m not in ("OGI", "OGI_0")][:1]
    files = []
    for nm in mnames:
        dep = rng.choice(["mobile", "stationary"])
        f = G.user_subset(rng, defs[df[dep]], rng.choice([0.1, 0.5]), skip=G.SPECIAL)
        f.update({"parameter_level": "methods", "method_name": nm, "deployment_type": dep})
        files.append(f)
    progs = [{"parameter_level": "programs", "program_name": baseline}]
    for j, nm in enumerate(pnames):
        labels = [m for m in mnames if rng.random() < 0.7] or [mnames[0]]
        if clash == "method":
            labels = list(mnames)
        f = G.user_subset(rng, defs[df["programs"]], 0.5, skip=G.SPECIAL)
        f.update({"parameter_level": "programs", "program_name": nm, "method_labels": labels})
        progs.append(f)
    if not clash:
        rng.shuffle(progs)
    files += progs
    sim = G.user_subset(rng, defs[df["simulation_settings"]], 0.4, skip=G.SPECIAL | {"baseline_program"})
    sim.update({"parameter_level": "simulation_settings", "baseline_program": baseline})
    if want_files:
        # the manager resolves these two to paths (get_abs_path): they must be real strings, not placeholders
        sim.update({"input_directory": "./inputs", "output_directory": "./outputs"})
    files.append(sim)
    vw = G.user_subset(rng, defs[df["virtual_world"]], rng.choice([0.2, 0.8]), skip=G.SPECIAL)
    vw["parameter_level"] = "virtual_world"
    files.append(vw)
    if rng.random() < 0.5:
        out = G.user_subset(rng, defs[df["outputs"]], 0.2, skip=G.SPECIAL)
        out["parameter_level"] = "outputs"
        files.append(out)
    paths, _ = scratch.write(files)
    r = T.real_intake_paths(paths)
    scratch.drop_last()
    if r[0] != "ok":
        raise BaseRejected(f"generated base parameters rejected by the real intake: {r[1:]} files={json.dumps(files)[:600]}")
    full = r[1]
    base = {"programs": full.pop("programs"), "vw": full.pop("virtual_world"), "out": full.pop("outputs"), "sim": full}
    return (base, files) if want_files else base


# ----------------------------------------------------------------------------------------------
# descriptions
# ----------------------------------------------------------------------------------------------
def value_like(rng, v):
    if v is None:
        return G.rand_scalar(rng)
    return G.valid_value(rng, v)


class _Absent:
    """set i does not list this path (per-set descriptions): the base value must stay"""

    def __repr__(self):
        return "<not listed>"


ABSENT = _Absent()


def gen_description(rng, tree, n, exclude_top, kmax=4, per_set=None):
    """a sensitivity description for `tree` in the forms the code accepts, and what it means:
    lists[path] = [value of set 0, ..., value of set n-1], ABSENT where a set does not list the path.
      * nested form: the tree's shape with a list of n values at k leaf paths (every set lists them);
      * per-set form (`key: [ {..set 0..}, ..., {..set n-1..} ]`, the already unpacked shape that
        unpack_parameter_variations hands through): each set names ITS OWN leaf paths below a
        section - one-at-a-time designs, overlapping and disjoint path sets, sets that list nothing.
    Both forms are mixed in one description (on different top-level keys)."""
    if per_set is None:
        per_set = rng.random() < 0.4
    paths = [p for p, v in G.leaves(tree) if p[0] not in exclude_top]
    desc, lists = {}, {}
    used_top = set()
    if per_set and n >= 1:
        sections = sorted({p[0] for p in paths if len(p) >= 2})
        rng.shuffle(sections)
        for sec in sections[: rng.choice([1, 1, 2])]:
            below = [p for p in paths if p[0] == sec]
            style = rng.choice(["one-at-a-time", "overlap", "random"])
            per = []
            for i in range(n):
                if style == "one-at-a-time":
                    mine = [below[i % len(below)]] if (i < len(below) or rng.random() < 0.5) else []
                elif style == "overlap":
                    mine = rng.sample(below, min(len(below), rng.choice([1, 2, 2, 3])))
                else:
                    mine = [q for q in below if rng.random() < 0.4]
                d = {}
                for q in mine:
                    val = value_like(rng, G.get_path(tree, q))
                    G.set_path(d, q[1:], val)
                    lists.setdefault(q, [ABSENT] * n)[i] = val
                per.append(d)
            desc[sec] = per
            used_top.add(sec)
    rest = [p for p in paths if p[0] not in used_top]
    if rest and (not used_top or rng.random() < 0.7):
        k = rng.randint(1, min(kmax, len(rest)))
        for p in rng.sample(rest, k):
            vals = [value_like(rng, G.get_path(tree, p)) for _ in range(n)]
            G.set_path(desc, p, vals)
            lists[p] = vals
    if not desc:     # nothing chosen (tiny tree): fall back to one listed leaf
        p = rng.choice(paths)
        vals = [value_like(rng, G.get_path(tree, p)) for _ in range(n)]
        G.set_path(desc, p, vals)
        lists[p] = vals
    return desc, lists


def lists_of(params, n):
    """the meaning of a description (either form), read from the description alone"""
    lists = {}
    for p, v in G.leaves(params):
        if len(p) == 1 and isinstance(v, list) and len(v) == n and v and all(isinstance(x, dict) for x in v):
            for i, x in enumerate(v):
                for q, val in G.leaves(x):
                    lists.setdefault(p + q, [ABSENT] * n)[i] = val
        else:
            lists[p] = v
    return lists


def spec_apply(tree, lists, i):
    """the independent expectation for set i: the base tree with exactly the leaves THIS set lists
    replaced (nothing of any other set)"""
    exp = copy.deepcopy(tree)
    for p, vals in lists.items():
        if vals[i] is not ABSENT:
            G.set_path(exp, p, copy.deepcopy(vals[i]))
    return exp


def classify_diff(exp, got, lists, i=None):
    """first difference, classified for set i: `varied` on / below / above a path THIS set lists, else `frame`"""
    from harness.props.c18 import first_diff
    d = first_diff(exp, got)
    if d is None:
        return None
    rel = tuple(d)
    for p in lists:
        if i is not None and lists[p][i] is ABSENT:
            continue
        if rel[: len(p)] == p or p[: len(rel)] == rel:
            return "varied", rel
    return "frame", rel


# ----------------------------------------------------------------------------------------------
# one case per level
# ----------------------------------------------------------------------------------------------
def run_case(ctx, jobs, base, level, n, description, lists_by_target, via_file=None, tag=""):
    """runs the real unpack + vary; queues the model lines; evaluates the oracle"""
    inp = {"base": base, "level": level, "n": n, "description": description, "tag": tag}
    if via_file is not None:
        desc_file = {"Sensitivity Parameter Level": level, "Sensitivity Sets Provided": n,
                     "Sensitivity Sets": description,
                     "Sensitivity Summary Outputs Information": {"Confidence Interval": [85]}}
        r = V.real_sens_info(via_file, desc_file)
        ctx.count("route:file")
        if r[0] == "ok":
            ru = ("ok", r[1]["parameter_variations"])
            if r[1]["parameter_level"] != level or r[1]["number_of_sensitivity_sets"] != n:
                ctx.violate("C19:wiring:sens-info", "get_sensitivity_info returns another level / set count", inp)
        else:
            ru = r
    else:
        ru = V.real_unpack(level, n, description)
    ctx.evaluations += 1
    jobs.append(("unpack", [level, n, description], T.show(ru), inp))
    if ru[0] != "ok":
        ctx.count("unpack:" + T.show(ru))
        return None
    unpacked = ru[1]
    rv, info = V.real_vary(base, level, n, unpacked)
    ctx.evaluations += 1
    req = {"maps": V.maps(), "sim": base["sim"], "programs": base["programs"], "vw": base["vw"], "out": base["out"],
           "baseline": base["sim"].get("baseline_program"), "sens": info["sens"], "level": level, "n": n, "vars": unpacked}
    jobs.append(("vary", req, T.show(rv), inp))
    if tag == "" and rv[0] == "ok":  # (clash / malformed cases are outside the theorems' hypotheses)
        # hypotheses of the Lean frame / varied theorems, evaluated on this (well-formed) case
        if level == "virtual_world":
            jobs.append(("hyp", [V.maps()["vw"], base["vw"], n, unpacked], "virtual_world", inp))
        elif level == "programs":
            for pn, pvars in unpacked.items():
                pm = dict(V.maps()["prog"])
                pm["methods"] = {m: V.maps()["method"] for m in base["programs"][pn].get("method_labels", [])}
                prog = dict(base["programs"][pn])
                jobs.append(("hypp", [pm, prog, n, pvars, pn], "programs", inp))
    ctx.count(f"vary:{level}:" + ("ok" if rv[0] == "ok" else T.show(rv)))
    if not info["base_dicts_unchanged"]:
        ctx.violate("C19:base-modified:dictionaries", "the base parameter dictionaries differ after producing the sets", inp)
    if not info["base_holder_unchanged"]:
        ctx.violate("C19:base-modified:holder", "the base parameters holder differs after producing the sets", inp)
    want_sens = V.independent_sens(base)
    if level == "methods" and info["sens"] != want_sens:
        ctx.violate("C19:wiring:sensitivity-program",
                    f"the program varied at the methods level is {info['sens']!r}; the first non-baseline program of the configuration is {want_sens!r}", inp)
    if info["shared_with_base"]:
        ctx.violate("C19:aliasing:set-shares-object-with-base",
                    "a produced set shares a mutable object (by identity) with the base holder: "
                    + str(info["shared_with_base"][:3]), inp)
    ctx.count("aliasing-walks")
    if not info["description_unchanged"]:
        ctx.violate("C19:description-modified", "the (unpacked) sensitivity description is modified by producing the sets", inp)
    return rv, info


def oracle_sets(ctx, base, level, n, lists_by_target, rv, info, inp, clash=None):
    """clash: None | "program" | "baseline" | "method" — which recorded name-clash finding a deviation of the
    name sets belongs to (only the dedicated clash stage passes one)"""
    bsim = base["sim"]
    baseline = bsim["baseline_program"]
    # the recorded name-clash findings are recognised by their CAUSE, read from the configuration
    # (not from the stage that generated the case): does a generated name <x>_<i> already exist?
    sens_cfg = V.independent_sens(base)
    existing_methods = set(base["programs"].get(sens_cfg, {}).get("methods", {})) if level == "methods" else set()
    method_clash = {k for k in range(n) for mn in lists_by_target if f"{mn}_{k}" in existing_methods} if level == "methods" else set()
    if rv[0] != "ok":
        if method_clash:
            # F19c, crashing variant: the overwritten method is then asked for parameters it does not have
            ctx.violate(SIG_METHCLASH, "methods level, a varied method takes the name of an existing method: " + rv[2][:150], inp)
            return
        ctx.violate(f"C19:valid-rejected:{level}:{rv[1]}", "a well-formed sensitivity description is rejected: " + rv[2][:150], inp)
        return
    sets = rv[1]
    want_sets = n if level == "virtual_world" else 1
    if len(sets) != want_sets:
        ctx.violate(f"C19:set-count:{level}", f"{len(sets)} parameter sets instead of {want_sets}", inp)
        return
    for i, s in enumerate(sets):
        exp_sim = copy.deepcopy(bsim)
        exp_sim["output_directory"] = f"{bsim['output_directory']}/{i}"
        if T.canon(s["sim"]) != T.canon(exp_sim):
            what = "out-folder" if s["sim"].get("output_directory") != exp_sim["output_directory"] else "frame:simulation_settings"
            ctx.violate(f"C19:{what}:{level}", "simulation settings of the set are not the base settings with output folder out/i", inp)
        if T.canon(s["out"]) != T.canon(base["out"]):
            ctx.violate(f"C19:frame:outputs:{level}", "outputs parameters of the set differ from the base", inp)
        if level == "virtual_world":
            exp = spec_apply(base["vw"], lists_by_target["vw"], i)
            if T.canon(s["vw"]) != T.canon(exp):
                kind, where = classify_diff(exp, s["vw"], lists_by_target["vw"], i)
                ctx.violate(f"C19:{kind}:virtual_world", f"set {i}: virtual world differs from base-with-listed-values at {list(where)}", inp)
            if T.canon(s["programs"]) != T.canon(base["programs"]):
                ctx.violate("C19:frame:programs:virtual_world", "programs of a virtual-world set differ from the base", inp)
            continue
        if T.canon(s["vw"]) != T.canon(base["vw"]):
            ctx.violate(f"C19:frame:virtual_world:{level}", "virtual world of the set differs from the base", inp)
        progs = s["programs"]
        if baseline not in progs or T.canon(progs[baseline]) != T.canon(base["programs"][baseline]):
            f19b = (level == "programs" and baseline in progs
                    and any(f"{pn}_{k}" == baseline for pn in lists_by_target for k in range(n)))
            ctx.violate(SIG_BASECLASH if f19b else f"C19:baseline-changed:{level}",
                        "the baseline program is not carried over unchanged", inp)
        if level == "programs":
            want = {baseline}
            for pn, lists in lists_by_target.items():
                for k in range(n):
                    want.add(f"{pn}_{k}")
            n_want = 1 + n * len(lists_by_target)     # every listed program once per set, nothing overwritten
            if set(progs) != want or len(progs) != n_want:
                # recorded case F19b only: the BASELINE itself is called <program>_<i> and is overwritten by that copy
                # (name set as expected, exactly one entry fewer).  A clash of a varied copy with a NON-baseline
                # original program must lose nothing at this level (originals are removed first): a violation.
                f19b = (any(f"{pn}_{k}" == baseline for pn in lists_by_target for k in range(n))
                        and set(progs) == want and len(progs) == n_want - 1
                        and T.canon(progs[baseline]) != T.canon(base["programs"][baseline]))
                ctx.violate(SIG_BASECLASH if f19b else "C19:names:programs",
                            f"programs of the set are {sorted(progs)} ({len(progs)}) instead of {sorted(want)} ({n_want})", inp)
                continue
            for pn, lists in lists_by_target.items():
                for k in range(n):
                    exp = spec_apply(base["programs"][pn], lists, k)
                    exp["program_name"] = f"{pn}_{k}"
                    if T.canon(progs[f"{pn}_{k}"]) != T.canon(exp):
                        kind, where = classify_diff(exp, progs[f"{pn}_{k}"], lists, k)
                        ctx.violate(f"C19:{kind}:programs", f"program {pn}_{k} differs from base-with-listed-values at {list(where)}", inp)
        else:
            sens = info["sens"]
            want = {baseline} | {f"{sens}_{k}" for k in range(n)}
            if set(progs) != want or len(progs) != 1 + n:
                # recorded cases, in their exact shape only:
                #  F19a - a NON-baseline base program is already called <sens>_<i>: exactly those copies are missing
                #  F19d - the BASELINE is called <sens>_<i>: the copy of that set is missing, the baseline sits under the name
                others = {p for p in base["programs"] if p != baseline}
                lost = {f"{sens}_{k}" for k in range(n)} & others
                sig = "C19:names:methods-level-programs"
                if lost and set(progs) == want - lost:
                    sig = SIG_CLASH
                elif baseline in {f"{sens}_{k}" for k in range(n)} and set(progs) == want \
                        and len(progs) == n and T.canon(progs[baseline]) == T.canon(base["programs"][baseline]):
                    sig = SIG_BASEM
                ctx.violate(sig, f"programs of the set are {sorted(progs)} ({len(progs)}) instead of {sorted(want)} ({1 + n})", inp)
                continue
            bp = base["programs"][sens]
            for k in range(n):
                # names first, computed WITHOUT overwriting: no method may disappear, labels stay distinct
                gotp = progs[f"{sens}_{k}"]
                labels = list(gotp.get("method_labels", []))
                base_labels = list(bp.get("method_labels", []))
                if len(gotp["methods"]) != len(bp["methods"]) or (
                        len(set(map(str, base_labels))) == len(base_labels) and len(set(map(str, labels))) != len(labels)):
                    ctx.violate(SIG_METHCLASH if k in method_clash else "C19:names:methods",
                                f"program {sens}_{k}: {len(gotp['methods'])} methods {sorted(gotp['methods'])} with labels {labels} "
                                f"instead of {len(bp['methods'])} methods with distinct labels (a method was overwritten)", inp)
                    continue
                exp = copy.deepcopy(bp)
                exp["program_name"] = f"{sens}_{k}"
                for mn, lists in lists_by_target.items():
                    m = spec_apply(exp["methods"].pop(mn), lists, k)
                    m["method_name"] = f"{mn}_{k}"
                    exp["methods"][f"{mn}_{k}"] = m
                    exp["method_labels"] = [f"{mn}_{k}" if x == mn else x for x in exp["method_labels"]]
                got = copy.deepcopy(progs[f"{sens}_{k}"])
                if sorted(map(str, got.get("method_labels", []))) != sorted(map(str, exp["method_labels"])):
                    ctx.violate("C19:names:method-labels", "method labels of the varied program are not the base labels with the varied methods renamed", inp)
                got["method_labels"] = sorted(got.get("method_labels", []), key=str)
                exp["method_labels"] = sorted(exp["method_labels"], key=str)
                if set(got["methods"]) != set(exp["methods"]):
                    ctx.violate("C19:names:methods", f"methods of {sens}_{k} are {sorted(got['methods'])} instead of {sorted(exp['methods'])}", inp)
                    continue
                if T.canon(got) != T.canon(exp):
                    flat = {("methods", f"{mn}_{k}") + p: v for mn, ls in lists_by_target.items() for p, v in ls.items()}
                    kind, where = classify_diff(exp, got, flat, k)
                    ctx.violate(f"C19:{kind}:methods", f"program {sens}_{k} differs from base-with-listed-values at {list(where)}", inp)


def gen_case(rng, base, level, n, per_set=None):
    """(description in file format, lists_by_target)"""
    baseline = base["sim"]["baseline_program"]
    if level == "virtual_world":
        desc, lists = gen_description(rng, base["vw"], n, exclude_top=(), kmax=5, per_set=per_set)
        return desc, {"vw": lists}
    if level == "programs":
        cands = [p for p in base["programs"] if p != baseline]
        chosen = rng.sample(cands, rng.randint(1, len(cands)))
        out, lbt = [], {}
        for pn in chosen:
            desc, lists = gen_description(rng, base["programs"][pn], n,
                                          exclude_top=("program_name", "method_labels", "methods"), kmax=3, per_set=per_set)
            out.append({"Program Name": pn, "Program Sensitivity Parameters": desc})
            lbt[pn] = lists
        return out, lbt
    sens = next(p for p in base["programs"] if p != baseline)
    ms = list(base["programs"][sens]["methods"])
    chosen = rng.sample(ms, rng.randint(1, len(ms)))
    out, lbt = [], {}
    for mn in chosen:
        desc, lists = gen_description(rng, base["programs"][sens]["methods"][mn], n, exclude_top=("method_name",), kmax=4, per_set=per_set)
        out.append({"Method Name": mn, "Method Sensitivity Parameters": desc})
        lbt[mn] = lists
    return out, lbt


def malformed(rng, base, level, n, desc):
    """descriptions outside the well-formed domain: correspondence only"""
    d = copy.deepcopy(desc)
    target = d if level == "virtual_world" else d[0][("Program" if level == "programs" else "Method") + " Sensitivity Parameters"]
    r = rng.random()
    paths = [p for p, v in G.leaves(target)]
    p = rng.choice(paths)
    if r < 0.25:
        G.set_path(target, p, G.get_path(target, p)[:-1])           # short list
    elif r < 0.45:
        G.set_path(target, p, rng.choice([5, "x", None, True]))      # scalar leaf
    elif r < 0.65:
        G.set_path(target, p, G.get_path(target, p) * 2)             # 2n values
    elif r < 0.8:
        target["zz_unknown"] = [1] * n                               # key the holder lacks
    elif r < 0.9 and level != "virtual_world":
        d[0]["Program Name" if level == "programs" else "Method Name"] = "no_such"
    else:
        d = {"x": 1} if level != "virtual_world" else [1, 2]
    return d


def comp_alter(ctx):
    """update_nested_dictionary / _merge_variation and alter_parameter on random trees and mappings"""
    rng = ctx.rng
    jobs = []
    for _ in range(ctx.pick(800, 20000)):
        cur = G.rand_tree(rng, 3, placeholders=False)
        cur = cur if isinstance(cur, dict) else {"a": cur}
        new = G.mutate_tree(rng, cur) if rng.random() < 0.8 else G.rand_tree(rng, 3, False)
        new = new if isinstance(new, dict) else {"b": new}
        jobs.append(("upd", [cur, new]))
    for _ in range(ctx.pick(1200, 30000)):
        d = G.rand_tree(rng, 3, placeholders=False)
        d = d if isinstance(d, dict) and d else {"a": d, "b": {"c": 1, "k k": {"a": 2}}}
        mapping = None
        if rng.random() < 0.7:
            mapping = {}
            for k, v in d.items():
                if isinstance(v, dict) and rng.random() < 0.6:
                    sub = None
                    if rng.random() < 0.5:
                        sub = {k2: None for k2, v2 in v.items() if isinstance(v2, dict) and rng.random() < 0.7}
                    mapping[k] = sub
        key = rng.choice(list(d) + ["zz"])
        cur = d.get(key)
        val = G.mutate_tree(rng, cur) if cur is not None and rng.random() < 0.8 else G.rand_tree(rng, 2, False)
        plain_dict = isinstance(cur, dict) and mapping is not None and key not in mapping
        if plain_dict and isinstance(val, list) and val:
            val = []      # dict.update(list of pairs) is outside the model's domain
        jobs.append(("alter", [mapping, d, key, val]))
    model = lean([op + " " + T.to_line(arg) for (op, arg) in jobs])
    for (op, arg), ml in zip(jobs, model):
        ctx.evaluations += 1
        if op == "upd":
            a, b = V.real_upd(arg[0], arg[1])
            il = T.canon(a)
            if T.canon(a) != T.canon(b):
                ctx.disagree("update_nested_dictionary vs _merge_variation", {"op": "upd", "args": arg}, T.canon(b)[:300], il[:300])
        else:
            r = V.real_alter(*arg)
            il = T.show(r)
            ctx.count("alter:" + ("ok" if r[0] == "ok" else il))
        mlc = ml if ml.startswith("reject:") or ml == "bad-op" else T.canon(json.loads(ml))
        if il != mlc:
            ctx.disagree(op, {"op": op, "args": arg}, mlc[:400], il[:400])
        ctx.nontrivial.add((op, il[:14] if il.startswith("reject") else "ok", arg[0] is None if op == "alter" else len(arg[1])))
    ctx.traces += len(jobs)


def safe_base(ctx, *a, **kw):
    """make_base; a base the real intake refuses is a broken obligation (reported once), the search goes on"""
    try:
        return make_base(*a, **kw)
    except BaseRejected as e:
        if not any(b["obligation"] == "generated base accepted by the real intake" for b in ctx.broken):
            ctx.broke("generated base accepted by the real intake", str(e))
        ctx.count("base-rejected")
        return None


def history(ctx, jobs, base, rng):
    """same-process history (LESSONS 1): ONE holder, built once, serves several analyses in a row whose
    targets collide (same level, same programs / methods / keys) and whose listed values differ:
    A, B, A.  Every call must give what the same call gives on a fresh holder (and what the
    specification says), the holder, its input dictionaries and a twin holder built from the same
    input objects must still be the base afterwards."""
    level = rng.choice(["virtual_world", "programs", "methods"])
    n = rng.choice([1, 2, 3])
    desc_a, lbt_a = gen_case(rng, base, level, n, per_set=False)
    # B: the same described paths with other values (colliding keys, different content)
    desc_b, lbt_b = copy.deepcopy(desc_a), {}
    for tgt, lists in lbt_a.items():
        lbt_b[tgt] = {}
        if level == "virtual_world":
            tree, dnode = base["vw"], desc_b
        elif level == "programs":
            tree = base["programs"][tgt]
            dnode = next(d for d in desc_b if d["Program Name"] == tgt)["Program Sensitivity Parameters"]
        else:
            tree = base["programs"][V.independent_sens(base)]["methods"][tgt]
            dnode = next(d for d in desc_b if d["Method Name"] == tgt)["Method Sensitivity Parameters"]
        for p in lists:
            vals = [value_like(rng, G.get_path(tree, p)) for _ in range(n)]
            G.set_path(dnode, p, vals)
            lbt_b[tgt][p] = vals
    ua, ub = V.real_unpack(level, n, desc_a), V.real_unpack(level, n, desc_b)
    if ua[0] != "ok" or ub[0] != "ok":
        return
    outs, info = V.real_vary_history(base, [(level, n, ua[1]), (level, n, ub[1]), (level, n, ua[1])])
    ctx.evaluations += 3
    ctx.count("history:same-holder-A-B-A")
    inp = {"base": base, "level": level, "n": n, "description": desc_a, "tag": "history", "description_b": desc_b}
    alone_a, _ = V.real_vary(base, level, n, ua[1])
    alone_b, _ = V.real_vary(base, level, n, ub[1])
    for k, (got, alone, lbt, d) in enumerate([(outs[0], alone_a, lbt_a, desc_a), (outs[1], alone_b, lbt_b, desc_b),
                                               (outs[2], alone_a, lbt_a, desc_a)]):
        if T.show(got) != T.show(alone):
            ctx.violate("C19:history:result-depends-on-earlier-analyses",
                        f"call {k + 1} of A, B, A on one holder differs from the same call on a fresh holder", inp)
        elif got[0] == "ok":
            oracle_sets(ctx, base, level, n, lbt, got, {"sens": V.independent_sens(base)},
                        {"base": base, "level": level, "n": n, "description": d, "tag": "history"})
    for flag, what in (("inputs_unchanged", "the dictionaries the holder was built from"),
                       ("holder_unchanged", "the holder"), ("twin_unchanged", "a second holder built from the same dictionaries")):
        if not info[flag]:
            ctx.violate(f"C19:history:{flag.replace('_unchanged', '')}-modified",
                        f"after three analyses in a row {what} no longer render(s) the base parameters", inp)
    ctx.nontrivial.add(("history", level, n, outs[0][0]))


def edge_shapes(ctx, jobs, base, rng):
    """configuration shapes (LESSONS 3): empty descriptions, zero sets, one value where the base has a list"""
    for level, desc in (("virtual_world", {}), ("programs", [])):
        n = rng.choice([1, 2])
        lbt = {"vw": {}} if level == "virtual_world" else {}
        res = run_case(ctx, jobs, base, level, n, desc, lbt, tag="empty-description")
        if res is not None:
            rv, info = res
            oracle_sets(ctx, base, level, n, lbt, rv, info, {"base": base, "level": level, "n": n, "description": desc, "tag": "empty"})
            ctx.nontrivial.add((level, "empty-description", rv[0]))
    # correspondence only: nothing to vary at the methods level, zero sets at every level
    run_case(ctx, jobs, base, "methods", 2, [], {}, tag="empty-description")
    for level in ("virtual_world", "programs", "methods"):
        desc, lbt = gen_case(rng, base, level, 1)
        res = run_case(ctx, jobs, base, level, 0, desc, lbt, tag="zero-sets")
        if res is not None:
            ctx.nontrivial.add((level, "zero-sets", res[0][0] if res[0][0] == "ok" else res[0][1]))


def run(ctx):
    ctx.rule = ("cases = base parameters built by the real intake from the repo's default files (baseline + 1-2 programs, "
                "1-3 mobile/stationary methods, random user overrides) x sensitivity level (virtual_world, programs, methods) x "
                "n in 1..4 sets x 1-5 described leaf paths at any depth (scalars, list-valued parameters, nested sections), a "
                "share of them read through get_sensitivity_info from a YAML file; malformed descriptions (short / scalar / 2n "
                "lists, unknown keys / names) for the correspondence only; random trees and mappings for alter_parameter and "
                "the nested-update helpers. non-trivial = distinct (level, n, number and depths of described paths, targets, outcome)")
    core.lean_stage(ctx, MODULE, FILE, drivers=["drv_vary"])
    if IMPORT_ERROR is not None:
        ctx.obligations.append("import of the holder / variator modules")
        ctx.broke("import of the holder / variator modules", IMPORT_ERROR)
        return
    try:
        check_constants(ctx)
    except Exception as e:  # noqa: BLE001
        ctx.broke("table:sensitivity-constants", f"cannot read the constants: {e!r}")
    state_rows, state_before = check_state_table(ctx)
    try:
        defs = T.load_defaults()
    except Exception as e:  # noqa: BLE001
        ctx.broke("default parameter files", f"cannot load src/default_parameters: {e!r}")
        return
    try:
        comp_alter(ctx)
    except Exception:  # noqa: BLE001
        import traceback
        ctx.broke("stage alter_parameter crashed", traceback.format_exc())
    rng = ctx.rng
    scratch = T.Scratch()
    sens_dir = tempfile.mkdtemp(prefix="ldar_c19_")
    jobs = []
    try:
        nb = ctx.pick(250, 1800)
        for b in range(nb):
            base = safe_base(ctx, rng, defs, scratch)
            if base is None:
                continue
            rt = V.real_roundtrip(base)
            ctx.evaluations += 1
            if rt[0] != "ok" or T.canon(rt[1]) != T.canon(base):
                ctx.violate("C19:holder-roundtrip", "ParametersHolder(...).get_*() is not the dictionaries it was built from", {"base": base})
            if b % 4 == 0:
                rr = V.real_roundtrips(base)
                ctx.evaluations += 1
                if rr[0] != "ok" or not (rr[1]["deepcopy_equal"] and rr[1]["pickle_equal"] and rr[1]["baseline_kept"]) \
                        or rr[1]["deepcopy_shared"] or rr[1]["pickle_shared"]:
                    ctx.violate("C19:history:holder-copy-roundtrip",
                                f"copy.deepcopy / pickle of the parameters holder is not an independent equal copy: {rr[1:]}", {"base": base})
                ctx.count("holder-copy-roundtrips")
                history(ctx, jobs, base, rng)
            if b % 16 == 0:
                edge_shapes(ctx, jobs, base, rng)
            for _ in range(ctx.pick(16, 40)):
                level = rng.choice(["virtual_world", "programs", "methods"])
                n = rng.choice([1, 2, 2, 3, 3, 4])
                desc, lbt = gen_case(rng, base, level, n)
                via = sens_dir if rng.random() < 0.15 else None
                res = run_case(ctx, jobs, base, level, n, desc, lbt, via_file=via)
                inp = {"base": base, "level": level, "n": n, "description": desc}
                if res is None:
                    ctx.violate(f"C19:valid-rejected:{level}:unpack", "a well-formed sensitivity description is rejected while unpacking", inp)
                    continue
                rv, info = res
                oracle_sets(ctx, base, level, n, lbt, rv, info, inp)
                depths = tuple(sorted(len(p) for ls in lbt.values() for p in ls))
                ctx.nontrivial.add((level, n, depths, len(lbt), rv[0]))
                if len(ctx.samples) < 3:
                    ctx.sample({"level": level, "n": n, "description": desc, "sets": len(rv[1]) if rv[0] == "ok" else rv[1]})
                if rng.random() < 0.3:
                    bad = malformed(rng, base, level, n, desc)
                    res2 = run_case(ctx, jobs, base, level, n, bad, lbt, tag="malformed")
                    if res2 is not None:
                        ctx.nontrivial.add((level, "malformed", res2[0][0] if res2[0][0] == "ok" else res2[0][1]))
        # bases whose program / baseline / method names clash with the renaming scheme (recorded findings)
        for _ in range(ctx.pick(3, 20)):
            for kind in ("program", "baseline", "method"):
                base = safe_base(ctx, rng, defs, scratch, clash=kind)
                if base is None:
                    continue
                for level in (("methods",) if kind == "method" else ("programs", "methods")):
                    n = rng.choice([2, 3])
                    desc, lbt = gen_case(rng, base, level, n)
                    if level == "programs":
                        # always vary P_OGI itself (programs P_OGI + P_OGI_1, or baseline P_OGI_0; n >= 2 > k)
                        d1, l1 = gen_description(rng, base["programs"]["P_OGI"], n,
                                                 exclude_top=("program_name", "method_labels", "methods"), kmax=3)
                        desc, lbt = [{"Program Name": "P_OGI", "Program Sensitivity Parameters": d1}], {"P_OGI": l1}
                        if kind == "program" and rng.random() < 0.5:
                            # both X and X_1 listed: 2n distinctly named copies expected
                            d2, l2 = gen_description(rng, base["programs"]["P_OGI_1"], n,
                                                     exclude_top=("program_name", "method_labels", "methods"), kmax=2)
                            desc.append({"Program Name": "P_OGI_1", "Program Sensitivity Parameters": d2})
                            lbt["P_OGI_1"] = l2
                    if kind == "method":
                        m = base["programs"]["P_OGI"]["methods"]["OGI"]
                        d1, l1 = gen_description(rng, m, n, exclude_top=("method_name",), kmax=3)
                        desc, lbt = [{"Method Name": "OGI", "Method Sensitivity Parameters": d1}], {"OGI": l1}
                    res = run_case(ctx, jobs, base, level, n, desc, lbt, tag="clash:" + kind)
                    if res is None:
                        continue
                    rv, info = res
                    inp = {"base": base, "level": level, "n": n, "description": desc, "tag": "clash:" + kind}
                    if level == "methods" and info["sens"] != "P_OGI":
                        continue
                    if level == "programs" and "P_OGI" not in lbt:
                        continue
                    oracle_sets(ctx, base, level, n, lbt, rv, info, inp, clash=kind)
                    ctx.nontrivial.add((level, "clash", kind, rv[0]))
        # one case per level through the route a sensitivity run really takes (SensitivitySimulationManager)
        for level in ("virtual_world", "programs", "methods"):
            bf = safe_base(ctx, rng, defs, scratch, want_files=True)
            if bf is None:
                continue
            base, files = bf
            n = rng.choice([2, 3])
            desc, lbt = gen_case(rng, base, level, n)
            ru = V.real_unpack(level, n, desc)
            if ru[0] != "ok":
                continue
            paths, _ = scratch.write(files)
            rm = V.real_manager(paths, level, n, ru[1])
            scratch.drop_last()
            ctx.evaluations += 1
            ctx.count("route:SensitivitySimulationManager")
            inp = {"base": base, "level": level, "n": n, "description": desc, "tag": "manager"}
            if rm[0] != "ok" and rm[1] in ("crash:ImportError", "crash:ModuleNotFoundError", "crash:SyntaxError"):
                ctx.broke("route through SensitivitySimulationManager", rm[2])
                continue
            if rm[0] != "ok":
                ctx.violate(f"C19:wiring:manager:{rm[1]}", "SensitivitySimulationManager fails on a well-formed case: " + rm[2][:150], inp)
                continue
            sets = [{k: s0[k] for k in ("sim", "programs", "vw", "out")} for s0 in rm[1]["sets"]]
            oracle_sets(ctx, base, level, n, lbt, ("ok", sets), {"sens": rm[1]["sens"]}, inp)
            for s0 in rm[1]["sets"]:
                want_m = sorted(str(m) for p in s0["programs"].values() for m in p.get("method_labels", []))
                if s0["methods"] != sorted(set(want_m)) or s0["base_program"] != base["sim"]["baseline_program"]:
                    ctx.violate("C19:wiring:manager:methods", "set_simulation_parameters: methods / baseline handed to the simulation are not those of the set", inp)
            ctx.nontrivial.add((level, "manager", n))
        # model on everything that was run
        lines = [op + " " + T.to_line(arg) for (op, arg, _, _) in jobs]
        model = lean(lines)
        hyp = {}
        for (op, arg, il, inp), ml in zip(jobs, model):
            if op in ("hyp", "hypp"):
                h = hyp.setdefault(il, [0, 0])
                h[1] += 1
                h[0] += ml == "1"
                if ml not in ("0", "1"):
                    ctx.disagree("hyp", {"op": op}, ml, il)
                continue
            mlc = ml if ml.startswith("reject:") or ml == "bad-op" else T.canon(json.loads(ml))
            if il != mlc:
                ctx.disagree(op, {"op": op, "input": inp if op == "unpack" else {k: inp[k] for k in ("level", "n", "description")},
                                  "base": inp["base"] if op == "vary" else None}, mlc[:500], il[:500])
        ctx.traces += len(jobs)
        if state_before is not None:
            after = T.snapshot_state(state_rows)
            changed = sorted(k for k in state_before if after.get(k) != state_before[k])
            if changed:
                ctx.violate("C19:history:class-level-container-modified",
                            "class-/module-level containers of the holder / variator modules were modified by the run: " + ", ".join(changed),
                            {"containers": changed, "before": {k: state_before[k][:300] for k in changed},
                             "after": {k: after[k][:300] for k in changed}})
            ctx.count("class-level-containers-compared", len(state_before))
        ctx.extra["hypothesis_hit_rate"] = {
            "vars.wf && varsOK on well-formed virtual_world cases (hypotheses of vw_frame / vw_varied / vw_described)":
                hyp.get("virtual_world", [0, 0]),
            "flatD(rename) && vars.wf && varsOK on the renamed copy, per varied program of well-formed programs cases (hypotheses of program_copy)":
                hyp.get("programs", [0, 0]),
        }
        for lvl, (okc, tot) in hyp.items():
            if okc < tot:
                ctx.note(f"varsOK false on {tot - okc} of {tot} well-formed {lvl} cases (theorem hypotheses not met there)")
    finally:
        scratch.close()
        shutil.rmtree(sens_dir, ignore_errors=True)
    ctx.assumptions.append("sensitivity descriptions: one list of n values per described leaf path of the base tree (other shapes: correspondence only)")
    ctx.assumptions.append("base_not_modified is checked by deep equality of the real base dictionaries / holder before and after, not by a Lean theorem (the model has no aliasing)")


def replay(ctx, data):
    inp = data.get("input", {})
    if IMPORT_ERROR is not None:
        print("replay: the holder / variator modules cannot be imported:", IMPORT_ERROR[-400:])
        return 1
    if "containers" in inp:
        print("replay: class-level containers modified during the run:", inp["containers"])
        return 1
    if "base" not in inp or "level" not in inp:
        print("replay: broken obligation / correspondence:", data.get("broken_obligations"), data.get("correspondence_disagreements"))
        return 1
    base, level, n, desc = inp["base"], inp["level"], inp["n"], inp["description"]
    ru = V.real_unpack(level, n, desc)
    print("process_parameter_variations ->", T.show(ru)[:600])
    if ru[0] != "ok":
        return 1
    rv, info = V.real_vary(base, level, n, ru[1])
    print("vary_parameter_values ->", T.show(rv)[:1500])
    print("base unchanged:", info)
    # rebuild the per-target lists from the description
    lbt = {}
    if level == "virtual_world":
        lbt["vw"] = lists_of(desc, n)
    else:
        nk = "Program Name" if level == "programs" else "Method Name"
        pk = "Program Sensitivity Parameters" if level == "programs" else "Method Sensitivity Parameters"
        for d in desc:
            lbt[d[nk]] = lists_of(d[pk], n)
    tag = inp.get("tag") or ""
    oracle_sets(ctx, base, level, n, lbt, rv, info, inp, clash=tag.split(":", 1)[1] if tag.startswith("clash:") else None)
    if not (info["base_dicts_unchanged"] and info["base_holder_unchanged"]):
        ctx.violate("C19:base-modified", "base modified", inp)
    for v in ctx.violations:
        print("oracle:", v["signature"], "-", v["what"])
    return 1 if ctx.violations else 0
