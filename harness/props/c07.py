"""C07 — no survey request is lost or duplicated; unfinished work keeps priority.

Lean: Props/C07.lean over Model/Queue.lean + Model/Planner.lean (`scheduleDay`, `run`).
Tie: the REAL MobileSchedule(GenericSchedule) / StationarySchedule / FollowUpMobileSchedule, Workplan,
PriorityQueueWithFIFO, ScheduledSurveyPlanner / StationarySurveyPlanner / FollowUpSurveyPlanner and
Method.deploy_crews / ComponentLevelMethod.deploy_crews are driven day by day with duck-typed sites;
after every day the issued requests, the work plan, the minutes surveyed, the canonical queue content
in pop order (from a copy), the planners' counters, flags and report progress are compared with
drv_sched.  Oracle: the clauses of the property evaluated on the implementation's own traces.
"""
from __future__ import annotations

import itertools
import os

from harness import core
from harness.props import _sched_common as SC
from harness.props import _sched_hardening as H

MANIFEST_ENTRY = {
    "text": "Lean theorems (Props/C07.lean) prove for the schedule model, for every number of sites and crews, capacity, day count and per-request crew outcome: C07_conservation (the requests taken on a day are, as a permutation, the completed ones plus the ones put back exactly once; every planned request carries a report; the completion counter of the day's year rises by exactly one per completed request), C07_no_duplicates (a site never has two outstanding requests: invariant queued <-> in the queue, queue sites Nodup, proved by induction over arbitrary histories of days, first flags and re-detections), C07_priority (pop order is ascending in (class, rate, counter); class 1 <-> survey in progress, class 3 <-> never planned for routine schedules, so interrupted surveys come before unattended before new requests), C07_fifo (requests put back on one day into the same class keep the plan order and stay behind older entries of that class), C07_minutes / minutes_add_up (running sum of the daily minutes = report minutes, = survey time at completion), applyOutcome_refines_step + minutes_add_up_crew (the outcomes are a refinement of the crew model's surveyStep; with the crew arithmetic 0 < P < S while in progress), C07_routine_waiting_is_new (in routine schedules only new requests ever wait, so the order of waiting requests is stable across days), C07_followup_duplicate_counterexample (without the callers' guarantee in RunOK the follow-up queue does hold duplicates: F13). The model is tied to the real GenericSchedule/StationarySchedule/FollowUpMobileSchedule/Workplan/PriorityQueueWithFIFO/planner classes and Method/ComponentLevelMethod.deploy_crews by day-by-day differential correspondence (exhaustive small histories + random larger runs) on every run; the property's clauses are evaluated directly on the implementation traces and on whole-simulation traces. Layer 3 (every run): Method.survey_site (with _determine_if_site_survey_can_be_completed) is translated from the current source to Lean (harness/extract/py2lean.py, crew_src.py -> Generated/CrewSrc.lean) and Props/CrewTie.lean is re-checked: report, crew minutes, returned values and dates after the translated call are Crew.surveyStep / applyStep for all inputs; a method outside the translated subset is a note, a failing tie theorem a broken obligation.",
    "design_ref": "DESIGN.md 5.7, 4.3",
    "note": "trusted: Lean kernel + propext/Classical.choice/Quot.sound; the hand-written schedule model (tied by sampled/exhaustive correspondence, not proof); the heap of queue.PriorityQueue is modelled by its specification (sorted list); what the crews achieve per request and day is an input of the model (the crew arithmetic is C08's model); harness adapters and stubs (site, weather cube)",
    "technique": "Lean 4 invariant proofs over the queue/planner/work-plan model + differential correspondence with the real classes + direct oracle on component and whole-run traces",
}

SIG_F13 = "C07:duplicate-outstanding:site-flagged-twice-by-callers"
MODULE = "LdarModel.Props.C07"
FILE = "LdarModel/Props/C07.lean"


# ------------------------------------------------------------------------------------------------
# reference order (independent of the heap): stable sort by (class, rate)
# ------------------------------------------------------------------------------------------------
def stable_by_class(entries):
    return sorted(entries, key=lambda e: (e[0], e[1]))  # Python's sort is stable


def oracle_trace(ctx, case, trace, followup=False, static=None):
    """the clauses of C07 on one implementation trace"""
    kind = case["kind"]
    sid = lambda es: [e[2] for e in es]  # noqa: E731
    S = {s["id"]: s["S"] for s in case["sites"]}
    prev_queue = []
    prev_done = {}
    charged = {}  # minutes charged to crews for the running survey of a site (sum of time_surveyed_current_day)
    acc = {}  # minutes accumulated for the running survey of a site
    booked = {}  # site -> minutes its unfinished survey has on the report (from the reports' minutes, i.e. the
    #              HISTORY of the survey; "interrupted" = booked > 0 and not complete, never the in-progress flag)
    # crew_count 0 = LDAR-Sim's own (documented) estimate, computed from the configuration by the harness
    n_crews = case["crews"] if case["crews"] > 0 else (case.get("_crews_estimate") or case.get("_crews_used") or 0)
    cap_c = case["cap"] if case.get("cap") is not None else case.get("_cap_documented", case["_cap_used"])
    n_cap = None if kind == "stationary" else n_crews * cap_c
    for k, rec in enumerate(trace):
        if rec["crash"]:
            yr_missing = static is not None and any(rec["date"][0] not in st["sim_years"] for st in static)
            if rec["crash"] == "key_error" and not yr_missing:
                ctx.violate("C07:crash:KeyError:unexpected",
                            f"KeyError raised by the schedule on {rec['date']} (every planner has a counter for that year)",
                            {"case": strip(case), "day": k})
            if rec["crash"] != "key_error":  # KeyError over New Year (year without counter) is C06's finding F12
                ctx.violate("C07:crash:" + rec["crash"], f"{rec['crash']} raised by the schedule on {rec['date']}",
                            {"case": strip(case), "day": k})
            break
        inp = {"case": strip(case), "day": k}
        seen = set(rec["plan"]) | {e[2] for e in rec["queue"]} | {e[2] for e in rec["queue_after_take"]}
        if not seen <= set(S):
            ctx.violate("C07:history:request-of-a-site-that-is-not-in-this-schedule",
                        f"sites {sorted(seen - set(S))} are planned / queued but the method was built for {sorted(S)} "
                        f"(a request that belongs to another schedule or an earlier case)", inp)
            break
        if followup and case.get("_double_add"):
            qb = sid(rec["queue_before"])
            if len(set(qb)) != len(qb):
                # outside RunOK: the caller flagged a site that already had an outstanding follow-up (F13)
                ctx.violate(SIG_F13, f"two follow-up requests of one site in the queue {qb} after the site was "
                            f"flagged a second time", inp)
                ctx.count("followup_histories_outside_RunOK_checked")
                break
        plan = rec["plan"]
        outs = {o[0]: o for o in rec["outcomes"]}
        completed = [i for i in plan if outs[i][1] == "C"]
        # ---- conservation
        if rec["n_taken"] != len(plan):
            ctx.violate("C07:conservation:popped-request-not-in-work-plan",
                        f"{rec['n_taken']} requests popped from the queue, work plan holds {len(plan)}", inp)
        if sorted(rec["reports"]) != sorted(plan):
            ctx.violate("C07:conservation:report-missing",
                        "a planned request has no report after deploy_crews", inp)
        rest = sid(rec["queue_after_take"])
        after = sid(rec["queue"])
        requeued = list(after)
        for i in rest:
            if i in requeued:
                requeued.remove(i)
            else:
                ctx.violate("C07:conservation:waiting-request-vanished",
                            "a request that was not taken today left the queue", inp)
        if sorted(requeued + completed) != sorted(plan):
            lost = [i for i in plan if i not in requeued and i not in completed]
            sig = "C07:conservation:lost-request" if lost else "C07:conservation:duplicated-request"
            ctx.violate(sig, f"taken {sorted(plan)} != completed {sorted(completed)} + requeued {sorted(requeued)}", inp)
        # ---- counted exactly once, on today's year
        if followup:
            done_now = {(i, rec["date"][0]): n for i, n in rec["totals"].items()}
            # the REAL counters of the planner objects planned today: {year: 1} iff the survey completed
            for i, real in rec["real_done"]:
                want = [[rec["date"][0], 1]] if i in completed else []
                if real != want:
                    ctx.violate("C07:done-count", f"follow-up site {i}: completed today={i in completed}, the "
                                f"planner's _surveys_this_year is {real}", inp)
        else:
            done_now = {(p["site"], y): n for p in rec["planners"] for y, n in p["done"]}
        for (i, y), n in done_now.items():
            inc = n - prev_done.get((i, y), 0)
            want = 1 if (i in completed and y == rec["date"][0]) else 0
            if followup:
                inc = n - sum(v for (j, _), v in prev_done.items() if j == i)
            if inc != want:
                ctx.violate("C07:done-count",
                            f"site {i} year {y}: completed today={i in completed}, counter moved by {inc}", inp)
        prev_done = done_now
        # ---- no duplicates
        if len(set(after)) != len(after):
            ctx.violate("C07:duplicate-outstanding", f"a site is twice in the queue: {after}", inp)
        if len(set(plan)) != len(plan) or set(plan) & set(rest):
            ctx.violate("C07:duplicate-outstanding", "a site is planned twice / planned and still queued", inp)
        if followup:
            flags = set(rec["flags"])
        else:
            flags = {p["site"] for p in rec["planners"] if p["queued"]}
        if flags != set(after):
            ctx.violate("C07:queued-flag", f"queued flags {sorted(flags)} != sites in the queue {sorted(after)}", inp)
        # ---- "interrupted" from the history: minutes on the report of a survey that has not completed
        for op in rec.get("ops") or []:
            if op[0] == "add":
                booked.pop(op[2], None)            # a new plan object starts with a fresh report
            elif op[0] == "redetect" and op[3] == 0:
                booked.pop(op[1], None)            # dropped together with its progress
        for i in plan:
            o = outs[i]
            if o[1] == "C":
                booked.pop(i, None)
            elif o[1] != "?":
                booked[i] = o[3]
        for i in list(booked):
            if i not in after:
                booked.pop(i)
        for cls, rate, i in rec["queue"]:
            interrupted = booked.get(i, 0) > 0
            if (cls == 1) != interrupted:
                ctx.violate("C07:priority:interrupted-survey-not-in-class-1",
                            f"site {i}: {booked.get(i, 0)} minutes already surveyed and not complete "
                            f"(interrupted={interrupted}), queued in class {cls}", inp)
        # ---- priority: class reflects the state of the survey
        if followup:
            reps = {p[0]: p[1] for p in rec["planners"]}
        else:
            reps = {p["site"]: p["report"] for p in rec["planners"]}
        for cls, rate, i in rec["queue"]:
            r = reps.get(i)
            inprog = r is not None and r[0] == 1
            if (cls == 1) != inprog:
                ctx.violate("C07:priority:class-state",
                            f"site {i}: class {cls}, survey in progress={inprog}", inp)
            if not followup and (cls == 3) != (r is None):
                ctx.violate("C07:priority:class-state", f"site {i}: class {cls}, report {r}", inp)
        # ---- priority: today's plan is the prefix of yesterday's queue + today's new requests
        cand = stable_by_class(prev_queue_after_ops(rec, prev_queue) + [[3, 0, i] for i in rec["issued"]])
        n = len(cand) if n_cap is None else min(n_cap, len(cand))
        if plan != sid(cand[:n]):
            ctx.violate("C07:priority:plan-prefix",
                        f"plan {plan} is not the first {n} of {sid(cand)}", inp)
        # ---- FIFO: queue after the day = stable order of (waiting, then re-queued in plan order)
        requ = []
        for i in plan:
            if outs[i][1] != "C":
                cls = 1 if booked.get(i, 0) > 0 else 2   # interrupted (history) -> 1, planned-not-attended -> 2
                rate = next((e[1] for e in rec["queue"] if e[2] == i), 0)
                requ.append([cls, rate, i])
        expect = stable_by_class(rec["queue_after_take"] + requ)
        if expect != rec["queue"]:
            ctx.violate("C07:priority:fifo", f"queue {rec['queue']} != expected {expect}", inp)
        if not rec["heap_ok"]:
            ctx.violate("C07:priority:pop-order", "pop order of the heap differs from the sorted entries", inp)
        # ---- minutes
        for i in plan:
            o = outs[i]
            if o[1] in "CP":
                acc[i] = acc.get(i, 0) + o[2]
                charged[i] = charged.get(i, 0) + o[4]
                if o[1] == "C":
                    if charged[i] != S[i] and kind != "stationary":
                        ctx.violate("C07:minutes:charged-minutes-differ-from-survey-time",
                                    f"site {i}: the minutes surveyed day by day add up to {charged[i]}, the survey time "
                                    f"is {S[i]}", inp)
                    charged.pop(i)
                if o[4] != o[2]:
                    ctx.violate("C07:minutes", f"site {i}: time_surveyed_current_day {o[4]} != minutes added {o[2]}", inp)
                if o[1] == "C":
                    if acc[i] != S[i] and kind != "stationary":
                        ctx.violate("C07:minutes", f"site {i}: minutes over the days {acc[i]} != survey time {S[i]}", inp)
                    acc.pop(i)
                elif not (0 < acc[i] < S[i]) or acc[i] != o[3]:
                    ctx.violate("C07:minutes", f"site {i}: in progress with {acc[i]} of {S[i]} minutes (report {o[3]})", inp)
        # a dropped follow-up discards its progress with the plan object
        for i in list(charged):
            if i not in after:
                charged.pop(i)
        for i in list(acc):
            if i not in after:
                acc.pop(i)
        prev_queue = rec["queue"]
        ctx.count("oracle_days")


def prev_queue_after_ops(rec, prev_queue):
    return rec["queue_before"] if "queue_before" in rec else prev_queue


def strip(case):
    return {k: v for k, v in case.items()}


# ------------------------------------------------------------------------------------------------
# generators
# ------------------------------------------------------------------------------------------------
TIMES = [  # (hours, travel, survey times cycled over the sites)
    (1, 0, [30]), (1, 0, [60]), (1, 0, [90]), (1, 15, [30]), (1, 15, [45, 20]), (1, 30, [30]),
    (2, 15, [120, 30]), (2, 0, [150, 60]), (1, 30, [10]), (2, 30, [90]), (2, 45, [60, 200]),
    (1, 20, [20]), (1, 10, [100, 40]), (2, 0, [240]), (2, 30, [60, 61]), (1, 0, [59, 1, 60]),
]
FREQS = [(1, [1]), (12, [1, 2]), (24, [1, 2]), (3, [1]), (12, [2])]


def exhaustive_cases(max_days=5):
    for ns in (1, 2, 3, 4):
        for crews in (1, 2):
            for cap in (1, 2):
                for (hours, T, Ss) in TIMES:
                    for (freq, months) in FREQS:
                        for nd in (max_days,):
                            for mask in itertools.product((1, 0), repeat=nd):
                                yield {
                                    "kind": "routine", "method_class": "site" if (ns + crews) % 2 else "component",
                                    "start": [2024, 1, 29], "end": [2024, 12, 31], "ndays": nd,
                                    "crews": crews, "cap": cap, "T": T, "hours": hours,
                                    "sites": [{"id": i + 1, "freq": freq, "deploy": True, "months": months,
                                               "years": [], "S": Ss[i % len(Ss)]} for i in range(ns)],
                                    "weather": list(mask),
                                }


def random_routine(rng, big=False):
    ns = rng.randint(3, 12) if big else rng.randint(1, 5)
    nd = rng.randint(8, 40) if big else rng.randint(2, 7)
    hours = rng.choice([1, 2, 4, 8])
    T = rng.choice([0, 15, 30, 45])
    start = rng.choice([[2024, 1, 29], [2023, 12, 28], [2024, 2, 27], [2025, 6, 15], [2024, 12, 30], [2023, 2, 27],
                        [2024, 1, 1], [2024, 12, 31]])
    sites = []
    for i in range(ns):
        months = sorted(rng.sample(range(1, 13), rng.randint(1, 12))) if rng.random() < 0.5 else list(range(1, 13))
        if start[1] not in months and rng.random() < 0.8:
            months = sorted(set(months + [start[1]]))
        sites.append({"id": i + 1, "freq": rng.choice([None, 0, 1, 2, 4, 12, 24, 52, 365]),
                      "deploy": rng.random() < 0.9, "months": months,
                      "years": rng.choice([[], [], [start[0]], [start[0], start[0] + 1]]),
                      "S": rng.choice([10, 30, 45, 60, 90, 120, 200, 300, 480, 600])})
    weather = []
    for _ in range(nd):
        r = rng.random()
        weather.append(1 if r < 0.6 else (0 if r < 0.8 else [rng.choice([0, 1]) for _ in range(ns)]))
    extra = {}
    if rng.random() < 0.12:
        extra = {"daylight": rng.choice([7.625, 6.8125, 5.375, 3.5]), "scale": 16}
    if rng.random() < 0.15:
        T = rng.choice([[15, 45], [0, 30, 60], [10.4, 20.6]])  # several travel times (sampled per visit)
    return H.decorate(rng, {"kind": "routine", "method_class": rng.choice(["site", "component"]), "start": start,
                            "end": [start[0] + 1, 12, 31], "ndays": nd, "crews": rng.randint(1, 3),
                            "cap": rng.choice([None, 1, 2, 3]), "T": T, "hours": hours, "sites": sites,
                            "weather": weather, **extra})


def boundary_histories():
    """periods of 1 and 2 days, Dec 31 / Jan 1, Feb 28 / 29 / Mar 1, a period and the same period one year later,
    simulation end = last stepped day"""
    out = []
    for (start, end, nd) in [([2024, 12, 31], [2024, 12, 31], 1), ([2024, 1, 1], [2024, 1, 1], 1),
                             ([2024, 2, 29], [2024, 2, 29], 1), ([2024, 2, 28], [2024, 2, 29], 2),
                             ([2023, 2, 28], [2023, 3, 1], 2), ([2024, 12, 30], [2024, 12, 31], 2),
                             ([2023, 12, 31], [2024, 12, 31], 3), ([2024, 12, 31], [2025, 12, 31], 3),
                             ([2024, 2, 27], [2024, 12, 31], 5), ([2023, 2, 27], [2023, 12, 31], 5),
                             ([2024, 12, 29], [2025, 12, 31], 5), ([2023, 12, 29], [2024, 12, 31], 5)]:
        for kind in ("routine", "stationary"):
            for ns, crews, cap, hours, T, S in ((1, 1, 1, 1, 0, 90), (3, 1, 2, 2, 15, 60), (4, 2, 1, 1, 30, 30)):
                for mask in ([1] * nd, [0] + [1] * (nd - 1), [1] * (nd - 1) + [0]):
                    out.append({"kind": kind, "method_class": "site", "start": start, "end": end, "ndays": nd,
                                "crews": crews, "cap": cap if kind == "routine" else None, "T": T, "hours": hours,
                                "sites": [{"id": i + 1, "freq": 12, "deploy": True, "months": list(range(1, 13)),
                                           "years": [], "S": S} for i in range(ns)], "weather": mask})
    return out


def daylight_histories():
    """fractional daylight hours (workday minutes with a fraction) and surveys that take several days: the minutes
    booked and charged over the days must still add up to the survey time exactly"""
    out = []
    for dl in (7.625, 6.8125, 5.375):
        for (S, T) in ((600, 0), (900, 15), (1000, 30), (500, 15)):
            for crews, cap, ns in ((1, 1, 2), (2, 1, 3), (1, 2, 3)):
                for mask in ([1] * 6, [1, 1, 0, 1, 1, 1]):
                    out.append({"kind": "routine", "method_class": "component" if crews == 1 else "site",
                                "start": [2024, 1, 29], "end": [2024, 12, 31], "ndays": 6, "crews": crews, "cap": cap,
                                "T": T, "hours": 10, "daylight": dl, "scale": 16,
                                "sites": [{"id": i + 1, "freq": 12, "deploy": True, "months": [1, 2], "years": [],
                                           "S": S if i % 2 == 0 else 60} for i in range(ns)], "weather": mask})
    return out


def random_stationary(rng):
    c = random_routine(rng, big=rng.random() < 0.3)
    c["kind"] = "stationary"
    c["method_class"] = "site"
    c["cap"] = None
    return c


def random_followup(rng, big=False):
    ns = rng.randint(3, 9) if big else rng.randint(1, 4)
    nd = rng.randint(6, 25) if big else rng.randint(2, 6)
    hours = rng.choice([1, 2, 4, 8])
    case = {"kind": "followup", "method_class": rng.choice(["component", "site"]),
            "start": [2024, 3, 1], "end": [2024, 12, 31], "ndays": nd,
            "crews": rng.randint(1, 2), "cap": rng.choice([None, 1, 2]), "T": rng.choice([0, 15, 30]),
            "hours": hours,
            "sites": [{"id": i + 1, "S": rng.choice([20, 30, 60, 90, 150, 300, 600])} for i in range(ns)],
            "weather": [1 if rng.random() < 0.7 else 0 for _ in range(nd)], "ops": []}

    double = rng.random() < 0.04  # a history outside RunOK: one site is flagged twice (two screening methods)

    H.decorate(rng, case)

    def ops_fn(k, flagged):
        ops = []
        flagged = set(flagged)
        for s in case["sites"]:
            i = s["id"]
            r = rng.random()
            if double and i in flagged and not case.get("_double_add") and r > 0.6:
                ops.append(["add", rng.choice([3, 2]), i, rng.randint(1, 4)])
                case["_double_add"] = True
            elif i not in flagged and r < 0.45:
                ops.append(["add", rng.choice([3, 3, 2]), i, rng.randint(1, 4)])
                flagged.add(i)
            elif i in flagged and r < 0.3:
                cls = rng.choice([3, 3, 2, 0])
                ops.append(["redetect", i, rng.randint(1, 4), cls])
                if cls == 0:
                    flagged.discard(i)
        rng.shuffle(ops)
        return ops

    return case, ops_fn


def _closed_followup(rng):
    """a follow-up history with its operations fixed (realised once), so that it can be re-run verbatim"""
    from harness.adapters import sched as A

    case, fn = random_followup(rng)
    try:
        A.run_followup(case, fn)      # fills case["ops"] with the realised operations
    except BaseException as e:  # noqa: BLE001 - reported by the stage that re-runs the case
        if isinstance(e, KeyboardInterrupt):
            raise
    return case


# ------------------------------------------------------------------------------------------------
# run
# ------------------------------------------------------------------------------------------------
def nontrivial_key(case, trace):
    """non-trivial: at least one request was taken and not completed the same day (re-queued);
    distinct by schedule kind, method class, sizes, the multiset of (class after the day) patterns"""
    pats = set()
    requeue = False
    for rec in trace:
        if rec["crash"]:
            pats.add("crash")
            break
        st = "".join(sorted(o[1] for o in rec["outcomes"]))
        cl = "".join(str(e[0]) for e in rec["queue"])
        if any(o[1] != "C" for o in rec["outcomes"]):
            requeue = True
        pats.add((st, cl[:6]))
    if not requeue:
        return None
    return (case["kind"], case.get("method_class"), min(len(case["sites"]), 5), case["crews"],
            case.get("_cap_used"), str(case["T"]), case["hours"], tuple(sorted(pats, key=str))[:6])


def run_cases(ctx, cases, followup_fns=None):
    from harness.adapters import sched as A

    batches, metas = [], []
    for idx, case in enumerate(cases):
        if case["kind"] == "followup":
            fn = followup_fns.get(id(case)) if followup_fns else None
            trace = H.drive(ctx, "C07", A.run_followup, case, fn)
            if trace is None:
                continue
            ctx.count("followup_histories")
            if case.get("_double_add"):
                req, exp = [], []  # outside the model's hypothesis RunOK: oracle only
            else:
                ctx.count("followup_histories_RunOK")
                req, exp = SC.lines_followup(case, trace)
            static = None
        else:
            r = H.drive(ctx, "C07", A.run_routine, case)
            if r is None:
                continue
            static, trace = r
            req, exp = SC.lines_routine(case, static, trace)
        batches.append(req)
        metas.append((case, static, trace, req, exp))
    models = SC.run_model(batches)
    for (case, static, trace, req, exp), mod in zip(metas, models):
        ctx.evaluations += 1
        ok = SC.compare(ctx, "sched:" + case["kind"], strip(case), req, exp, mod)
        ctx.count("corr:" + case["kind"] + (":outside-RunOK" if not req else (":ok" if ok else ":DIFF")))
        ctx.traces += 1
        ctx.count("days", len(trace))
        try:
            oracle_trace(ctx, case, trace, followup=case["kind"] == "followup", static=static)
        except Exception as e:  # an implementation trace of a shape the oracle cannot read
            import traceback
            ctx.broke(f"C07: oracle could not evaluate an implementation trace ({type(e).__name__})",
                      str({k_: v for k_, v in case.items() if k_ != "weather"})[:1200] + "\n" + traceback.format_exc()[-1200:])
            continue
        k = nontrivial_key(case, trace)
        if k is not None:
            ctx.nontrivial.add(k)
        for rec in trace:
            for o in rec.get("outcomes") or []:
                ctx.count("outcome:" + o[1])
            if rec["crash"]:
                ctx.count("crash:" + rec["crash"])
    return metas


def run(ctx):
    ctx.rule = ("histories = (schedule kind, method class, sites, crews, capacity, workday, travel and survey "
                "times, deployment months, survey frequency, per-day weather mask, days); exhaustive core: "
                "sites<=4 x crews<=2 x capacity<=2 x 16 time combinations x 5 frequency/month settings x all 32 "
                "weather masks of 5 days (subsampled by seed in quick) + random routine / stationary / follow-up "
                "runs (follow-up with first flags, re-detections, drops); non-trivial = some taken request was "
                "not completed the same day; distinct by (kind, class, sizes, times, outcome/class patterns)")
    core.lean_stage(ctx, MODULE, FILE, drivers=["drv_sched"])
    from harness.props import _tie
    _tie.crew_tie(ctx)  # layer 3: Method.survey_site, translated from the current source, is Crew.surveyStep/applyStep
    _tie.estimate_tie(ctx)  # layer 3: crews of a method and the daily capacity estimate (ceil), translated over Q
    rng = ctx.rng
    cases = list(exhaustive_cases())
    ctx.extra["exhaustive_core_size"] = len(cases)
    if ctx.quick:
        rng.shuffle(cases)
        cases = cases[:ctx.pick(5000, None)]
    else:
        ctx.exhaustive = True
    fns = {}
    for _ in range(ctx.pick(1500, 12000)):
        cases.append(random_routine(rng))
    for _ in range(ctx.pick(120, 1500)):
        cases.append(random_routine(rng, big=True))
    for _ in range(ctx.pick(400, 3000)):
        cases.append(random_stationary(rng))
    for k in range(ctx.pick(1600, 14000)):
        c, fn = random_followup(rng, big=(k % 10 == 0))
        fns[id(c)] = fn
        cases.append(c)
    cases += boundary_histories() + daylight_histories()
    # the stored witness of F13 (a site flagged twice by its callers), always replayed
    cases.append({"kind": "followup", "method_class": "component", "start": [2024, 3, 1], "end": [2024, 12, 31],
                  "ndays": 2, "crews": 1, "cap": 2, "T": 0, "hours": 8, "sites": [{"id": 1, "S": 60}, {"id": 2, "S": 60}],
                  "weather": [], "_double_add": True, "ops": [[["add", 3, 1, 5], ["add", 3, 1, 4]], []]})
    # in chunks, so that a disagreement early does not cost the whole budget
    metas = []
    CH = 2000
    for a in range(0, len(cases), CH):
        m = run_cases(ctx, cases[a:a + CH], fns)
        metas = (metas + m[:2])[:2] + m[-2:]  # only a few are kept for the evidence samples
        del m
    for (case, static, trace, req, exp) in metas:
        ctx.sample({"case": strip(case), "first_day_reply": exp[1] if len(exp) > 1 else None})
    # ---- hardening stages (audit/LESSONS.md 1, 3): shared state table, history, shared input
    table_ok = H.shared_state_table(ctx, "C07")
    npairs = ctx.pick(18, 300) * (1 if table_ok else 6)
    H.history_stage(ctx, "C07", H.colliding_pairs(rng, random_routine, npairs)
                    + H.colliding_pairs(rng, random_stationary, npairs // 3)
                    + H.colliding_pairs(rng, lambda r: _closed_followup(r), npairs // 2))
    H.shared_input_stage(ctx, "C07", [random_routine(rng) for _ in range(ctx.pick(30, 300))]
                         + [random_stationary(rng) for _ in range(ctx.pick(10, 100))])
    wholerun_oracle(ctx)
    ctx.extra["hypothesis_hit_rate"] = {
        "RunOK (follow-up histories whose callers flag a site only while it has no outstanding follow-up)":
            [ctx.counts.get("followup_histories_RunOK", 0), ctx.counts.get("followup_histories", 0)],
        "routine / stationary histories need no hypothesis": [ctx.counts.get("corr:routine:ok", 0)
                                                              + ctx.counts.get("corr:stationary:ok", 0)] * 2}
    ctx.assumptions.append("crew outcomes per planned request (completed / in progress with minutes / unattended) "
                           "are inputs of the model, read from the real reports after deploy_crews")


# ------------------------------------------------------------------------------------------------
# whole-run oracle
# ------------------------------------------------------------------------------------------------
def wholerun_oracle(ctx):
    path = os.path.join(core.VERIF, "harness", "wholerun.py")
    if not os.path.exists(path):
        ctx.note("whole-run oracle skipped: harness/wholerun.py absent")
        return
    try:
        from harness.props import _sched_wholerun as W
    except ImportError:
        ctx.note("whole-run oracle skipped: harness/props/_sched_wholerun.py absent")
        return
    W.run_c07(ctx)


def replay(ctx, data):
    from harness.adapters import sched as A

    inp = data.get("input", {})
    if "case" not in inp:
        print("replay: broken obligation / correspondence:", data.get("broken_obligations"),
              data.get("correspondence_disagreements"))
        return 1
    if inp.get("history"):
        H.history_stage(ctx, "C07", [(inp["case"], inp["earlier_case"])])
        for v in ctx.violations:
            print("oracle:", v["signature"], "-", v["what"])
        return 1 if ctx.violations else 0
    if inp.get("wholerun") or (inp.get("case") or {}).get("wholerun"):
        from harness.props import _sched_wholerun as W

        return W.replay_c07(ctx, inp)
    case = inp["case"]
    if case["kind"] == "followup":
        trace = A.run_followup(case)
        oracle_trace(ctx, case, trace, followup=True)
    else:
        static, trace = A.run_routine(case)
        oracle_trace(ctx, case, trace, static=static)
    for rec in trace:
        print(rec["date"], "plan", rec.get("plan"), "outcomes", rec.get("outcomes"), "queue", rec.get("queue"))
    for v in ctx.violations:
        print("oracle:", v["signature"], "-", v["what"])
    return 1 if ctx.violations else 0
