"""C05 — a method never acts on emissions it cannot see (MDL, coverage, intermittency).

Lean: Props/C05.lean (C05 : C05_statement; C05_report_sound, C05_frame, C05_spatial_sticky(_survey),
C05_zero_coverage_is_baseline, C05_unreachable_mdl_is_baseline, ...) over Model/Sensor.lean.
Tie: harness/adapters/sensor.py drives the real survey_site -> Default*LevelSensor.detect_emissions
on real Site objects of generated infrastructures (three scales, three predictors, coverage
probabilities incl. 0 and 1, persistent / intermittent, repairable / not) in multi-day, multi-survey
scenes; every survey is replayed through drv_sensor (recorded rolls and shifts are the inputs, the
model threads the coverage store itself) and the lines are diffed.  The real follow-up candidate
decision (SiteLevelMethod.update_mobile, fresh site) is diffed against `flagCandidate`.
Oracle: the property's clauses evaluated directly on the implementation's outputs of every survey,
against a visibility recomputed from the emission objects (not from what the code returned).
Whole-run stage (when harness/wholerun.py is present): a program whose methods all have spatial
coverage 0, and one whose methods have MDL 1e9, must produce emission records identical to the
baseline's (every column except the '<method> Spatial Coverage' columns).
"""
from __future__ import annotations

import importlib.util
import os
import random
from fractions import Fraction

from harness import core

MANIFEST_ENTRY = {
    "text": "Lean theorem C05 (with C05_report_sound, C05_contributors_are_visible, C05_tag_needs_visible_rate, C05_flag_needs_detection, C05_frame, C05_spatial_sticky, C05_spatial_sticky_survey, C05_zero_coverage_is_baseline, C05_unreachable_mdl_is_baseline) proves for every site layout, emission list, detection limit, quantification shift and outcome of every coverage roll, at component / equipment-group / site scale: measured rates are >= 0, non-zero only when the summed true rate of the visible emissions of that unit is >= MDL, zero when nothing is visible; tag requests only at component scale for components whose visible rate reaches the MDL; the report, tags and follow-up decision are a function of the visible emissions only (invisible ones can be replaced or dropped); a stored spatial-coverage outcome is returned unchanged without a roll ever after; with all spatial rolls 0, or MDL above the site's total rate, no measured rate / tag / detection record / follow-up candidate arises and the run of every emission equals its baseline run (emission state machine of C02-C04). The model is tied on every run to the real survey_site -> Default{Component,EquipmentGroup,Site}LevelSensor.detect_emissions -> Site/Equipment_Group/Component.get_detectable_emissions -> Emission.check_spatial_cov/check_temporal_cov and the real tagging path, on real infrastructures built from generated input folders, by replaying every recorded survey (rolls and shifts as inputs) through the compiled model and diffing exact integers; the property's clauses are also evaluated directly on the implementation outputs, and whole simulations with zero-coverage / MDL-1e9 programs are compared record by record with the baseline program.",
    "design_ref": "DESIGN.md 5.5, 4.1",
    "note": "trusted: Lean kernel + propext/Classical.choice/Quot.sound; the hand-written sensor model (tied by sampled correspondence, not proof); harness adapter and its observation-only wrappers; rates/MDLs on a dyadic grid (unit 1/64 g/s) and quantification shifts snapped to multiples of 25 % by the harness-side random source so that doubles are exact; only the 'default' sensor type is covered (OGI_camera_*, METEC_* sensors have their own probability-of-detection curves and are outside C05's threshold-type statement); scope note: a component-scale tag request tags all active emissions of the component (Component.tag_emissions), the property is about the measured rate at the measurement scale; an instant follow-up threshold <= 0 would queue sites with measured rate 0 (excluded by hypothesis in C05_flag_needs_detection)",
    "technique": "Lean 4 theorems over an executable sensor/visibility model + differential correspondence with the real sensors on real Site objects + direct oracle + whole-run metamorphic comparison with the baseline program",
}

MODULE = "LdarModel.Props.C05"
FILE = "LdarModel/Props/C05.lean"

MDL_GRID = [0.0, 0.125, 0.25, 0.5, 1.0, 2.0, 3.0, 8.0, 64.0, 1e9]
SHIFTS = [-150.0, -125.0, -100.0, -75.0, -25.0, 0.0, 25.0, 50.0, 100.0]
WHOLERUN_PRESENT = importlib.util.find_spec("harness.wholerun") is not None


# ------------------------------------------------------------------------------------------------
# case generation (everything from the case rng; a case replays from (world_seed, case_seed))
# ------------------------------------------------------------------------------------------------
def gen_case(world, crng):
    from harness.adapters import sensor as S

    n_days = crng.randint(2, 6)
    n_em = crng.choice([0, 1, 2, 4, 6, 9, 14])
    plan = []
    for _ in range(n_em):
        plan.append((crng.randrange(8), crng.randrange(8), crng.randrange(8), crng.randrange(8),
                     crng.randint(-2, n_days), crng.choice(S.RATES)))
    rate_sums = sorted({sum(p[5] for p in crng.sample(plan, crng.randint(1, min(3, len(plan)))))
                        for _ in range(4)}) if plan else []
    surveys = []
    for d in range(n_days):
        for _ in range(crng.choice([1, 1, 2, 3])):
            name = crng.choice(world.names)
            si = crng.randrange(8)
            override = None
            if crng.random() < 0.8:
                mdl = crng.choice(rate_sums) if (rate_sums and crng.random() < 0.55) else crng.choice(MDL_GRID)
                qtype = crng.choice(["default", "uniform", "sample"])
                if qtype == "sample":
                    qp = [S.QE_FILE, crng.choice(sorted(S.QE_COLUMNS))]
                else:
                    lo = crng.choice(SHIFTS)
                    qp = [lo, lo + crng.choice([0.0, 0.0, 25.0, 75.0])]
                override = (mdl, qtype, qp)
            surveys.append((d, name, si, override))
    return {"plan": plan, "days": n_days, "surveys": surveys}


def run_case(world, case, case_seed):
    """runs one scene on the real code; returns list of (request, impl reply, facts)"""
    import numpy as np
    from harness.adapters import sensor as S

    crng = random.Random(case_seed ^ 0x5EED)
    np.random.seed(case_seed % (1 << 31))
    scene = S.Scene(world, case["plan"])
    out = []
    for d in range(case["days"]):
        scene.day_start(d)
        for (sd, name, si, override) in case["surveys"]:
            if sd != d:
                continue
            info = None if override is None else S.sensor_info_variant(world, name, *override)
            mm, code = S.make_method(world, name, info)
            req, rep, res = S.run_survey(scene, mm, code, si % len(scene.sites), d, crng)
            res.scene = scene
            res.override = override
            out.append((req, rep, res))
        scene.day_end()
    return out


# ------------------------------------------------------------------------------------------------
# direct oracle on the implementation outputs of one survey
# ------------------------------------------------------------------------------------------------
def oracle_survey(ctx, res, inp):
    from harness.adapters import sensor as S

    scene, rec, report = res.scene, res.rec, res.report
    name, code, si, mdl = res.name, res.code, res.si, Fraction(float(res.mdl))
    facts = {"n_vis": 0, "hidden_spatial": 0, "hidden_off": 0, "hidden_temporal": 0, "hidden_inactive": 0,
             "detected_units": 0, "undetected_nonzero_units": 0, "at_mdl": 0}

    def V(sig, what, extra=None):
        d = dict(inp)
        d["finding"] = extra
        ctx.violate(sig, what, d)

    returned = set()
    for _, ids in rec.detectable:
        returned.update(ids)
    truth = {}
    for (n, act) in res.before:
        em = scene.em_obj[n]
        (act0, emitting, cov_before, tagged_before, by_before) = res.state_before[n]
        cov_after = res.cov_after[n]
        in_site = scene.em_place[n][0] == si
        sp = rec.spatial.get(n)
        drew = sp[1] if sp else 0
        # -- scope: only members of active lists of the surveyed site are examined
        if not (act and in_site):
            if sp is not None or n in rec.temporal or n in returned or cov_after != cov_before:
                V("C05:scope:emission-outside-active-lists-of-site-examined",
                  "an emission that is not in an active list of the surveyed site was examined / rolled / returned",
                  {"emission": n, "active": act, "in_site": in_site})
        # -- sticky coverage
        k = (n, name)
        if drew:
            scene.spatial_draws[k] = scene.spatial_draws.get(k, 0) + drew
        if cov_before is not None and (drew or cov_after != cov_before):
            V("C05:sticky:spatial-coverage-rerolled",
              "spatial coverage of an emission for a method was rolled again / changed after it had been fixed",
              {"emission": n, "before": cov_before, "after": cov_after, "draws": drew})
        if scene.spatial_draws.get(k, 0) > 1:
            V("C05:sticky:spatial-coverage-rerolled",
              "more than one spatial-coverage roll for one (emission, method)", {"emission": n})
        if cov_after is not None:
            first = scene.stored.setdefault(k, cov_after)
            if first != cov_after:
                V("C05:sticky:spatial-coverage-rerolled", "stored spatial coverage changed over the emission's life",
                  {"emission": n, "first": first, "now": cov_after})
        # -- independent visibility
        t = rec.temporal.get(n)
        vis = bool(act and in_site and cov_after == 1 and emitting and t == 1)
        truth[n] = vis
        if vis:
            facts["n_vis"] += 1
        elif in_site:
            if not act:
                facts["hidden_inactive"] += 1
            elif cov_after != 1:
                facts["hidden_spatial"] += 1
            elif not emitting:
                facts["hidden_off"] += 1
            else:
                facts["hidden_temporal"] += 1
        if n in returned and not vis:
            why = ("inactive-or-foreign" if not (act and in_site) else "outside-spatial-coverage" if cov_after != 1
                   else "not-emitting" if not emitting else "temporal-roll-0")
            V("C05:visible:invisible-emission-contributes:" + why,
              "get_detectable_emissions returned an emission the method cannot see (" + why + ")",
              {"emission": n, "cov": cov_after, "emitting": emitting, "temporal": t})

    def vrate(pred):
        tot = Fraction(0)
        for (n, _) in res.before:
            if truth[n] and pred(scene.em_place[n]):
                tot += Fraction(float(scene.em_obj[n].get_rate()))
        return tot

    scale_name = {"c": "component", "g": "equipment-group", "s": "site"}[code]

    def check_unit(label, true_rep, meas_rep, vr, predicted):
        m = Fraction(float(meas_rep))
        if m < 0:
            V("C05:measured:negative", "negative measured rate at " + scale_name + " scale",
              {"unit": label, "measured": float(meas_rep)})
        if m != 0 and vr < mdl:
            V("C05:mdl:nonzero-measured-below-mdl:" + scale_name,
              "non-zero measured rate although the summed true rate of the visible emissions of the unit is below the MDL",
              {"unit": label, "measured": float(meas_rep), "visible_rate": float(vr), "mdl": float(mdl)})
        if vr == 0 and m != 0:
            V("C05:measured:nonzero-with-nothing-visible", "non-zero measured rate although nothing is visible",
              {"unit": label, "measured": float(meas_rep)})
        if Fraction(float(true_rep)) != vr:
            V("C05:scale:reported-true-rate-differs-from-visible-rate:" + scale_name,
              "the unit's reported true rate is not the summed rate of its visible emissions",
              {"unit": label, "reported": float(true_rep), "visible_rate": float(vr)})
        if predicted is not None:
            if predicted and vr < mdl:
                V("C05:mdl:quantified-below-mdl:" + scale_name, "predictor consulted for a unit below the MDL",
                  {"unit": label, "visible_rate": float(vr), "mdl": float(mdl)})
            if not predicted and vr >= mdl:
                V("C05:threshold:rate-at-or-above-mdl-not-detected:" + scale_name,
                  "threshold sensor did not detect a unit whose visible rate is at or above the MDL",
                  {"unit": label, "visible_rate": float(vr), "mdl": float(mdl)})
            if not predicted and m != 0:
                V("C05:measured:nonzero-when-not-detected", "non-zero measured rate for an undetected unit",
                  {"unit": label, "measured": float(meas_rep)})
            if predicted:
                facts["detected_units"] += 1
            elif vr > 0:
                facts["undetected_nonzero_units"] += 1
            if vr == mdl and vr > 0:
                facts["at_mdl"] += 1

    tested = res.tested
    any_unit_ok = False
    k = 0
    comp_rate = {}
    if code == "c":
        for er in report.equipment_groups_surveyed:
            for cr in er.emissions_detected:
                g, c = er.equipment_group, cr.component
                vr = vrate(lambda p, g=g, c=c: p[0] == si and p[1] == g and p[2] == c)
                comp_rate[(g, c)] = vr
                pred = tested[k]["predict"] is not None if k < len(tested) else None
                k += 1
                check_unit(f"{g}/{c}", cr.true_rate, cr.measured_rate, vr, pred)
                any_unit_ok = any_unit_ok or vr >= mdl
            if Fraction(float(er.measured_rate)) < 0:
                V("C05:measured:negative", "negative equipment-group total", {"unit": er.equipment_group})
    elif code == "g":
        for er in report.equipment_groups_surveyed:
            g = er.equipment_group
            vr = vrate(lambda p, g=g: p[0] == si and p[1] == g)
            pred = tested[k]["predict"] is not None if k < len(tested) else None
            k += 1
            check_unit(g, er.true_rate, er.measured_rate, vr, pred)
            any_unit_ok = any_unit_ok or vr >= mdl
    site_vr = vrate(lambda p: p[0] == si)
    if code == "s":
        pred = tested[0]["predict"] is not None if tested else None
        check_unit("site", report.site_true_rate, report.site_measured_rate, site_vr, pred)
        any_unit_ok = site_vr >= mdl
        if report.equipment_groups_surveyed:
            pass
    sm = Fraction(float(report.site_measured_rate))
    if sm < 0:
        V("C05:measured:negative", "negative site measured rate", {"measured": float(sm)})
    if sm != 0 and not any_unit_ok:
        V("C05:mdl:nonzero-measured-below-mdl:site-total",
          "non-zero site measured rate although no unit of the method's scale reaches the MDL",
          {"measured": float(sm), "mdl": float(mdl)})
    if Fraction(float(report.site_true_rate)) != site_vr:
        V("C05:scale:reported-true-rate-differs-from-visible-rate:site-total",
          "site true rate of the report is not the summed rate of the visible emissions",
          {"reported": float(report.site_true_rate), "visible_rate": float(site_vr)})
    # -- tags
    for (g, c) in rec.tags:
        if code != "c":
            V("C05:tag:non-component-scale-method-tags", "a method that is not component-scale tagged a component",
              {"tag": [g, c]})
        elif comp_rate.get((g, c), Fraction(-1)) < mdl:
            V("C05:tag:component-below-mdl-tagged",
              "tag request for a component whose visible rate is below the MDL",
              {"tag": [g, c], "visible_rate": float(comp_rate.get((g, c), -1)), "mdl": float(mdl)})
    tagset = set(rec.tags)
    for n in rec.tagged:
        p = scene.em_place[n]
        act = dict(res.before)[n]
        if not (act and p[0] == si and (p[1], p[2]) in tagset):
            V("C05:tag:emission-outside-tagged-component-tagged",
              "tag reached an emission that is not an active emission of a tagged component", {"emission": n})
    for n in rec.sensor_records:
        if not truth.get(n) or site_vr < mdl:
            V("C05:record:detection-record-for-invisible-emission",
              "sensor wrote a detection record for an emission it cannot see / below the MDL", {"emission": n})
    # -- hypotheses of C05_zero_coverage_is_baseline / C05_unreachable_mdl_is_baseline evaluated on the
    #    real state; their conclusion (Quiet) checked on the implementation
    in_scope = [n for (n, act) in res.before if act and scene.em_place[n][0] == si]
    zero_cov = all(res.state_before[n][2] != 1 and not (rec.spatial.get(n, (0, 0))[1] and rec.spatial[n][0] == 1)
                   for n in in_scope)
    total = sum((Fraction(float(scene.em_obj[n].get_rate())) for (n, _) in res.before if scene.em_place[n][0] == si),
                Fraction(0))
    unreachable = mdl > total
    quiet = sm == 0 and not rec.tags and not rec.sensor_records and not rec.tagged
    facts["hyp_zero_cov"] = bool(zero_cov and in_scope)
    facts["hyp_unreachable"] = bool(unreachable and in_scope)
    if (zero_cov or unreachable) and not quiet:
        V("C05:baseline:acted-under-zero-coverage-or-unreachable-mdl",
          "all spatial rolls 0 / MDL above the site's total rate, yet the survey measured, tagged or recorded",
          {"zero_coverage": zero_cov, "unreachable_mdl": unreachable, "measured": float(sm), "tags": rec.tags})
    # -- zero coverage method: nothing at all may happen
    sp_prob = scene.world.methods[name]["coverage"]["spatial"]
    if sp_prob == 0 and (sm != 0 or rec.tags or rec.sensor_records or rec.tagged or returned):
        V("C05:zero-coverage:method-acted", "a method with spatial coverage 0 measured / tagged / recorded something",
          {"measured": float(sm), "tags": rec.tags})
    return facts


# ------------------------------------------------------------------------------------------------
# stages
# ------------------------------------------------------------------------------------------------
def component_stage(ctx):
    from harness.adapters import sensor as S

    n_worlds = ctx.pick(8, 24)
    n_cases = ctx.pick(550, 2000)
    drv = core.LeanDriver("drv_sensor")
    sample_left = 3
    for w in range(n_worlds):
        world_seed = ctx.rng.randrange(1 << 30)
        world = S.build_world(random.Random(world_seed))
        try:
            ctx.count("worlds")
            for m in world.names:
                p = world.methods[m]
                ctx.count("method:%s:spatial=%s:temporal=%s:%s" % (
                    p["measurement_scale"], p["coverage"]["spatial"], p["coverage"]["temporal"],
                    p["sensor"]["quantification_error"]["quantification_type"]))
            lines, expected, metas = [], [], []
            for _ in range(n_cases):
                case_seed = ctx.rng.randrange(1 << 30)
                case = gen_case(world, random.Random(case_seed))
                results = run_case(world, case, case_seed)
                lines.append("reset")
                expected.append("ok")
                metas.append(None)
                for idx, (req, rep, res) in enumerate(results):
                    inp = {"stage": "component", "world_seed": world_seed, "case_seed": case_seed,
                           "survey_index": idx, "method": res.name, "scale": res.code, "site_index": res.si,
                           "day": res.day, "mdl": float(res.mdl), "override": res.override,
                           "request": req, "impl": rep}
                    facts = oracle_survey(ctx, res, inp)
                    lines.append(req)
                    expected.append(rep)
                    metas.append((inp, res, facts))
                ctx.traces += 1
            replies = drv.run(lines)
            for ml, il, meta in zip(replies, expected, metas):
                if meta is None:
                    continue
                inp, res, facts = meta
                ctx.evaluations += 1
                if ml != il:
                    ctx.disagree("sensor", {k: v for k, v in inp.items() if k not in ("request", "impl")}
                                 | {"request": inp["request"]}, ml, il)
                    ctx.count("disagree")
                ov = res.override
                qtype = ov[1] if ov else scene_qtype(res)
                ctx.count("scale:" + res.code)
                ctx.count("predictor:" + qtype)
                ctx.count("scale-x-predictor:%s:%s" % (res.code, qtype))
                for kf in ("hidden_spatial", "hidden_off", "hidden_temporal", "hidden_inactive", "at_mdl",
                           "detected_units", "undetected_nonzero_units", "hyp_zero_cov", "hyp_unreachable"):
                    if facts[kf]:
                        ctx.count("surveys-with:" + kf)
                if res.rec.tags:
                    ctx.count("surveys-with:tags")
                if res.rec.sensor_records:
                    ctx.count("surveys-with:sensor-detection-records")
                if any(s and s[1] == 0 for s in res.rec.spatial.values()):
                    ctx.count("surveys-with:sticky-reuse")
                neg = any(u["predict"] is not None and u["predict"][1] is not None and float(u["predict"][1]) < -100
                          for u in res.tested)
                if neg:
                    ctx.count("surveys-with:shift-below-minus-100")
                if facts["n_vis"] or facts["hidden_spatial"] or facts["hidden_off"] or facts["hidden_temporal"]:
                    ctx.nontrivial.add((res.code, qtype, min(facts["n_vis"], 3), min(facts["hidden_spatial"], 2),
                                        min(facts["hidden_off"], 2), min(facts["hidden_temporal"], 2),
                                        min(facts["detected_units"], 2), min(facts["undetected_nonzero_units"], 2),
                                        facts["at_mdl"] > 0, neg, bool(res.rec.tags)))
                if sample_left and facts["n_vis"] and facts["hidden_spatial"]:
                    sample_left -= 1
                    ctx.sample({"request": inp["request"], "impl": il})
        finally:
            world.cleanup()


def scene_qtype(res):
    return res.scene.world.methods[res.name]["sensor"]["quantification_error"]["quantification_type"]


def flag_stage(ctx):
    """real SiteLevelMethod.update_mobile (site not yet in processing) vs the model's flagCandidate"""
    from harness.adapters import sensor as S

    world = S.build_world(random.Random(ctx.rng.randrange(1 << 30)))
    try:
        site = world.fresh()._sites[0]
        grid = [0.0, 0.125, 0.5, 1.0, 2.0, 8.0]
        cases = [(inst, thr, m) for inst in [None, 0.5, 2.0, 8.0] for thr in grid for m in grid]
        lines = []
        for (inst, thr, m) in cases:
            lines.append("flag %s %d %d" % ("-" if inst is None else S.to_units(inst, S.SCALE * 100),
                                            S.to_units(thr, S.SCALE * 100), S.to_units(m, S.SCALE * 100)))
        replies = core.LeanDriver("drv_sensor").run(lines)
        for c, ml in zip(cases, replies):
            il = "1" if S.flag_decision(site, *c) else "0"
            ctx.evaluations += 1
            ctx.count("flag-decisions")
            if il != ml:
                ctx.disagree("sensor.flag", {"stage": "flag", "inst": c[0], "thr": c[1], "measured": c[2]}, ml, il)
            if il == "1" and c[2] == 0:
                ctx.violate("C05:flag:site-with-zero-measured-rate-enters-follow-up",
                            "a site with measured rate 0 became a follow-up candidate",
                            {"stage": "flag", "inst": c[0], "thr": c[1], "measured": c[2]})
    finally:
        world.cleanup()


# ------------------------------------------------------------------------------------------------
# whole-run metamorphic stage
# ------------------------------------------------------------------------------------------------
KEY_COLS = ("Site ID", "Equipment", "Component", "Emissions ID")


def wholerun_config(rng):
    """baseline + a normal program + the same program with every method's spatial coverage 0 + the
    same program with every method's MDL 1e9"""
    import copy
    from harness import wholerun as W

    cfg = W.make_config(rng, n_sims=1, ndays=rng.choice([120, 200, 400]))
    base = cfg["methods"]
    methods = {}
    progs = [{"name": "P_none", "methods": []}]
    for tag, patch in (("N", {}), ("Z", {"spatial": 0.0}), ("B", {"mdl": 1e9})):
        names = []
        for m in ("OGI", "AIR", "OGI_FU"):
            d = copy.deepcopy(base[m])
            d.update(patch)
            if "follow_up" in d:
                d["follow_up"]["preferred_method"] = tag + "_OGI_FU"
            methods[tag + "_" + m] = d
            names.append(tag + "_" + m)
        progs.append({"name": "P_" + tag, "methods": names})
    cfg["methods"] = methods
    cfg["programs"] = progs
    cfg["baseline"] = "P_none"
    return cfg


def compare_with_baseline(res, prog):
    """returns (n_rows, list of differences) between prog's and the baseline's emission records;
    ignored: columns named '<method> Spatial Coverage' (present only where a method exists)"""
    base = res.emissions("P_none", 0)
    rows = res.emissions(prog, 0)
    if base is None or rows is None:
        return 0, [{"problem": "emissions_summary.csv missing", "program": prog}]
    diffs = []

    def index(rs):
        out = {}
        for r in rs:
            out.setdefault(tuple(r.get(k) for k in KEY_COLS), []).append(r)
        return out

    bi, pi = index(base), index(rows)
    if set(bi) != set(pi):
        diffs.append({"problem": "different emission keys", "only_baseline": sorted(set(bi) - set(pi))[:5],
                      "only_program": sorted(set(pi) - set(bi))[:5]})
    def canon(r):
        return tuple(sorted((c, v) for c, v in r.items() if not c.endswith(" Spatial Coverage")))

    for key in sorted(set(bi) & set(pi)):
        # emission ids are per source: a component with several sources can repeat a key, so the rows
        # of one key are compared as multisets
        bl, pl = sorted(map(canon, bi[key])), sorted(map(canon, pi[key]))
        if len(bl) != len(pl):
            diffs.append({"problem": "different number of records", "key": key})
            continue
        for b, p in zip(bl, pl):
            if b != p:
                bd, pd = dict(b), dict(p)
                for col in sorted(set(bd) | set(pd)):
                    if bd.get(col) != pd.get(col):
                        diffs.append({"key": key, "column": col, "baseline": bd.get(col), "program": pd.get(col)})
    return len(rows), diffs


def wholerun_one(seed):
    from harness import wholerun as W

    cfg = wholerun_config(random.Random(seed))
    res = W.run_config(cfg, debug=True, processes=1, trace=True)
    try:
        out = {"seed": seed, "rc": res.rc, "log": res.log[-1500:] if res.rc else "", "programs": {}}
        if res.rc == 0:
            for prog in ("P_N", "P_Z", "P_B"):
                n, diffs = compare_with_baseline(res, prog)
                tags = 0
                for t in res.trace:
                    if t.get("prog") == prog:
                        tags += sum(1 for e in t["events"] if e and e[0] in ("tag", "fuq"))
                out["programs"][prog] = {"rows": n, "diffs": diffs[:20], "n_diffs": len(diffs), "tag_fuq_events": tags}
        return out
    finally:
        res.cleanup()


def wholerun_oracle(ctx):
    if not WHOLERUN_PRESENT:
        ctx.note("whole-run metamorphic stage skipped: harness/wholerun.py absent")
        return
    from concurrent.futures import ThreadPoolExecutor

    n = ctx.pick(2, 10)
    seeds = [ctx.rng.randrange(1 << 30) for _ in range(n)]
    with ThreadPoolExecutor(max_workers=min(n, max(1, (os.cpu_count() or 2) // 2), 8)) as ex:
        outs = list(ex.map(wholerun_one, seeds))
    for out in outs:
        ctx.count("wholerun:configs")
        inp = {"stage": "wholerun", "seed": out["seed"]}
        if out["rc"] != 0:
            raise core.InfraError("whole-run worker failed (seed %d): %s" % (out["seed"], out["log"]))
        ctx.traces += 1
        for prog, what, sig in (("P_Z", "spatial coverage 0", "C05:wholerun:zero-coverage-program-differs-from-baseline"),
                                ("P_B", "MDL 1e9", "C05:wholerun:unreachable-mdl-program-differs-from-baseline")):
            r = out["programs"][prog]
            ctx.evaluations += r["rows"]
            ctx.count("wholerun:rows-compared", r["rows"])
            if r["n_diffs"] or r["tag_fuq_events"]:
                ctx.violate(sig, "program whose methods all have %s: emission records differ from the baseline's "
                            "(or tag / follow-up events were produced)" % what,
                            dict(inp, program=prog, n_diffs=r["n_diffs"], diffs=r["diffs"],
                                 tag_fuq_events=r["tag_fuq_events"]))
        rn = out["programs"]["P_N"]
        if rn["n_diffs"]:
            ctx.count("wholerun:configs-where-normal-program-differs-from-baseline")
            ctx.nontrivial.add(("wholerun", out["seed"] % 7, min(rn["n_diffs"], 3)))
        if len(ctx.samples) < 6:
            ctx.sample({"wholerun_seed": out["seed"], "rows": rn["rows"], "normal_program_diffs": rn["n_diffs"],
                        "zero_coverage_diffs": out["programs"]["P_Z"]["n_diffs"],
                        "mdl_1e9_diffs": out["programs"]["P_B"]["n_diffs"]})


# ------------------------------------------------------------------------------------------------
def run(ctx):
    ctx.rule = ("component stage: generated infrastructures (2-3 sites, granular, 4 source kinds, 9 methods = 3 scales x "
                "coverage variants incl. 0 and 1), scenes of 0-14 real emissions over 2-6 days with 1-3 surveys a day, "
                "MDL from a dyadic grid or equal to a sum of planned rates, shifts on the 25 % grid (3 predictors); "
                "non-trivial = a survey with at least one visible or hidden (spatial / off / temporal) emission in "
                "scope; distinct by (scale, predictor, #visible, #hidden by cause, #detected units, #undetected "
                "non-zero units, rate == MDL present, shift < -100, tags); whole-run stage: generated configurations, "
                "rows of emissions_summary.csv of zero-coverage / MDL-1e9 programs vs baseline")
    core.lean_stage(ctx, MODULE, FILE, drivers=["drv_sensor"])
    component_stage(ctx)
    flag_stage(ctx)
    wholerun_oracle(ctx)
    ctx.assumptions.append("rates / MDLs on the dyadic grid (unit 1/64 g/s), quantification shifts multiples of 25 % "
                           "(harness-side random source snapped); sensor type 'default' only")


def replay(ctx, data):
    from harness.adapters import sensor as S

    inp = data.get("input", {})
    stage = inp.get("stage")
    if stage == "component":
        world = S.build_world(random.Random(inp["world_seed"]))
        try:
            case = gen_case(world, random.Random(inp["case_seed"]))
            results = run_case(world, case, inp["case_seed"])
            lines = ["reset"] + [r[0] for r in results]
            replies = core.LeanDriver("drv_sensor").run(lines)[1:]
            for idx, ((req, rep, res), ml) in enumerate(zip(results, replies)):
                oracle_survey(ctx, res, {"survey_index": idx})
                mark = "<-- recorded failing survey" if idx == inp.get("survey_index") else ""
                print(f"survey {idx} {res.name} scale={res.code} site={res.si} day={res.day} mdl={res.mdl} {mark}")
                print("  impl :", rep)
                print("  model:", ml, "" if ml == rep else "   <-- DISAGREE")
        finally:
            world.cleanup()
    elif stage == "flag":
        world = S.build_world(random.Random(1))
        try:
            site = world.fresh()._sites[0]
            got = S.flag_decision(site, inp["inst"], inp["thr"], inp["measured"])
            print("follow-up candidate:", got)
            if got and inp["measured"] == 0:
                ctx.violate("C05:flag:site-with-zero-measured-rate-enters-follow-up", "", inp)
        finally:
            world.cleanup()
    elif stage == "wholerun":
        out = wholerun_one(inp["seed"])
        for prog, r in out["programs"].items():
            print(prog, "rows", r["rows"], "diffs", r["n_diffs"], "tag/fuq events", r["tag_fuq_events"])
            for d in r["diffs"][:5]:
                print("   ", d)
        for prog, sig in (("P_Z", "zero-coverage"), ("P_B", "unreachable-mdl")):
            r = out["programs"].get(prog, {"n_diffs": 1, "tag_fuq_events": 0})
            if r["n_diffs"] or r["tag_fuq_events"]:
                ctx.violate("C05:wholerun:" + sig, "", inp)
    else:
        dis = data.get("correspondence_disagreements") or []
        if dis and dis[0].get("input", {}).get("stage") in ("component", "flag") and "input" not in data:
            return replay(ctx, {"input": dis[0]["input"]}) or 1
        print("replay: broken obligation / correspondence:", data.get("broken_obligations"), dis)
        return 1
    for v in ctx.violations:
        print("oracle:", v["signature"], "-", v["what"], v["input"].get("finding"))
    return 1 if ctx.violations else 0
