"""C05 — a method never acts on emissions it cannot see (MDL, coverage, intermittency).

Lean: Props/C05.lean (C05 : C05_statement; C05_report_sound, C05_frame, C05_spatial_sticky(_survey),
C05_zero_coverage_is_baseline, C05_unreachable_mdl_is_baseline, ...) over Model/Sensor.lean.
Tie: harness/adapters/sensor.py drives the real survey_site -> Default*LevelSensor.detect_emissions
on real Site objects of generated infrastructures (three scales, three predictors, coverage
probabilities incl. 0 and 1, persistent / intermittent, repairable / not) in multi-day, multi-survey
scenes; every survey is replayed through drv_sensor (recorded rolls and shifts are the inputs, the
model threads the coverage store itself) and the lines are diffed.  The real follow-up candidate
decision (SiteLevelMethod.update_mobile, fresh site) is diffed against `flagCandidate`.
Oracle: the property's clauses evaluated directly on the implementation's outputs of every survey,
against a visibility recomputed from the emission objects (not from what the code returned).
Whole-run stage (when harness/wholerun.py is present): a program whose methods all have spatial
coverage 0, and one whose methods have MDL 1e9, must produce emission records identical to the
baseline's (every column except the '<method> Spatial Coverage' columns).
"""
from __future__ import annotations

import importlib.util
import json
import os
import random
from fractions import Fraction

from harness import core

MANIFEST_ENTRY = {
    "text": "Lean theorem C05 (with C05_report_sound, C05_contributors_are_visible, C05_tag_needs_visible_rate, C05_flag_needs_detection, C05_frame, C05_spatial_sticky, C05_spatial_sticky_survey, C05_zero_coverage_is_baseline, C05_unreachable_mdl_is_baseline) proves for every site layout, emission list, detection limit, quantification shift and outcome of every coverage roll, at component / equipment-group / site scale: measured rates are >= 0, non-zero only when the summed true rate of the visible emissions of that unit is >= MDL, zero when nothing is visible; tag requests only at component scale for components whose visible rate reaches the MDL; the report, tags and follow-up decision are a function of the visible emissions only (invisible ones can be replaced or dropped); a stored spatial-coverage outcome is returned unchanged without a roll ever after; with all spatial rolls 0, or MDL above the site's total rate, no measured rate / tag / detection record / follow-up candidate arises and the run of every emission equals its baseline run (emission state machine of C02-C04). The model is tied on every run to the real survey_site -> Default{Component,EquipmentGroup,Site}LevelSensor.detect_emissions -> Site/Equipment_Group/Component.get_detectable_emissions -> Emission.check_spatial_cov/check_temporal_cov and the real tagging path, on real infrastructures built from generated input folders, by replaying every recorded survey (rolls and shifts as inputs) through the compiled model and diffing exact integers; the property's clauses are also evaluated directly on the implementation outputs, and whole simulations with zero-coverage / MDL-1e9 programs are compared record by record with the baseline program.",
    "design_ref": "DESIGN.md 5.5, 4.1",
    "note": "trusted: Lean kernel + propext/Classical.choice/Quot.sound; the hand-written sensor model (tied by sampled correspondence, not proof); harness adapter and its observation-only wrappers; rates/MDLs on a dyadic grid (unit 1/64 g/s) and quantification shifts snapped to multiples of 25 % by the harness-side random source so that doubles are exact; only the 'default' sensor type is covered (OGI_camera_*, METEC_* sensors have their own probability-of-detection curves and are outside C05's threshold-type statement); scope note: a component-scale tag request tags all active emissions of the component (Component.tag_emissions), the property is about the measured rate at the measurement scale; an instant follow-up threshold <= 0 would queue sites with measured rate 0 (excluded by hypothesis in C05_flag_needs_detection)",
    "technique": "Lean 4 theorems over an executable sensor/visibility model + differential correspondence with the real sensors on real Site objects + direct oracle + whole-run metamorphic comparison with the baseline program",
}

MODULE = "LdarModel.Props.C05"
FILE = "LdarModel/Props/C05.lean"

MDL_GRID = [0.0, 0.125, 0.25, 0.5, 1.0, 2.0, 3.0, 8.0, 64.0, 1e9]
SHIFTS = [-150.0, -125.0, -100.0, -75.0, -25.0, 0.0, 25.0, 50.0, 100.0]
WHOLERUN_PRESENT = importlib.util.find_spec("harness.wholerun") is not None


# ------------------------------------------------------------------------------------------------
# case generation (everything from the case rng; a case replays from (world_seed, case_seed))
# ------------------------------------------------------------------------------------------------
def gen_case(world, crng, exact=True):
    """exact=False: the unsnapped / off-grid variant (oracle only): decimal rates and MDLs whose float
    sums round, real normal / uniform draws, a sample column with values like -100.0000001"""
    from harness.adapters import sensor as S

    n_days = crng.randint(2, 6)
    n_em = crng.choice([0, 1, 2, 4, 6, 9, 14])
    rates = S.RATES if exact else S.OFFGRID_RATES
    plan = []
    for _ in range(n_em):
        plan.append((crng.randrange(8), crng.randrange(8), crng.randrange(8), crng.randrange(8),
                     crng.randint(-2, n_days), crng.choice(rates)))
    rate_sums = sorted({sum(p[5] for p in crng.sample(plan, crng.randint(1, min(3, len(plan)))))
                        for _ in range(4)}) if plan else []
    if not exact:
        # the decimal the float sum approximates (e.g. 0.6 for 0.1 + 0.2 + 0.3 = 0.6000000000000001)
        rate_sums = sorted(set(rate_sums) | {round(x, 6) for x in rate_sums})
    surveys = []
    for d in range(n_days):
        for _ in range(crng.choice([1, 1, 2, 3])):
            name = crng.choice(world.names)
            si = crng.randrange(8)
            override = None
            if crng.random() < (0.8 if exact else 0.95):
                grid = MDL_GRID if exact else [0.0, 0.01, 0.1, 0.3, 0.6, 1.0 / 3.0, 1.1, 2.5, 1e9]
                mdl = crng.choice(rate_sums) if (rate_sums and crng.random() < 0.55) else crng.choice(grid)
                qtype = crng.choice(["default", "uniform", "sample"])
                if qtype == "sample":
                    cols = sorted(S.QE_COLUMNS) if exact else sorted(S.QE_COLUMNS) + sorted(S.QE_COLUMNS_OFFGRID) * 3
                    qp = [S.QE_FILE, crng.choice(cols)]
                elif exact:
                    lo = crng.choice(SHIFTS)
                    qp = [lo, lo + crng.choice([0.0, 0.0, 25.0, 75.0])]
                else:
                    lo = crng.choice([-180.0, -120.0, -100.0, -99.0, -40.0, 0.0, 10.0])
                    qp = [lo, lo + crng.choice([0.0, 1.0, 12.5, 40.0, 120.0])]
                if qtype != "sample" and crng.random() < 0.25:
                    qp = [qp[1], qp[0]]          # upper bound first
                # minimum_detection_limit lists with more values than the default's one; a 4th value
                # (DefaultSensor._min_threshold) must not matter to the default sensors
                tail = crng.choice([[], [], [], [0.5, 1.0], [1.0, 2.0, 1e9], [0.0, 0.0, 0.0]])
                override = (mdl, qtype, qp, tail)
            # span: number of days the survey takes (mobile deployment: left in progress on the first
            # span-1 days, completed on day d); span 1 = completes on the day it starts (stationary or mobile)
            span = crng.choice([1, 1, 1, 2, 2, 3]) if exact else 1
            span = min(span, d + 1)
            surveys.append((d, name, si, override, span, crng.random() < 0.5))
    # what simulate() / a worker pool do between programs: deep copy or pickle round trip of the world
    trips = [(crng.randrange(n_days), crng.choice(["deepcopy", "pickle"]))
             for _ in range(crng.choice([0, 0, 0, 1, 2]))]
    return {"plan": plan, "days": n_days, "surveys": surveys, "exact": exact, "round_trips": trips}


def run_case(world, case, case_seed):
    """runs one scene on the real code; returns list of (request, impl reply, facts)"""
    import numpy as np
    from harness.adapters import sensor as S

    crng = random.Random(case_seed ^ 0x5EED)
    np.random.seed(case_seed % (1 << 31))
    scene = S.Scene(world, case["plan"])
    out = []
    pending = {}
    for d in range(case["days"]):
        scene.day_start(d)
        for (td, how) in case.get("round_trips", []):
            if td == d:
                scene.round_trip(how)
        for idx, sv in enumerate(case["surveys"]):
            (sd, name, si, override) = sv[:4]
            span = sv[4] if len(sv) > 4 else 1
            mobile = (sv[5] if len(sv) > 5 else False) or span > 1
            si = si % len(scene.sites)
            first = sd - span + 1
            if not (first <= d <= sd):
                continue
            if d == first:
                info = None if override is None else S.sensor_info_variant(world, name, *override)
                mm, code = S.make_method(world, name, info, mobile=mobile)
                pending[idx] = (mm, code, S.new_report(scene, si), [])
            mm, code, report, partial = pending[idx]
            if d < sd:
                # a day on which the survey is left in progress: nothing may be sensed, rolled, tagged
                rec = S.run_partial(scene, mm, report, si, d)
                if rec is not None:
                    partial.append((d, rec))
                continue
            req, rep, res = S.run_survey(scene, mm, code, si, d, crng, model=case.get("exact", True), report=report)
            res.scene = scene
            res.override = override
            res.exact = case.get("exact", True)
            res.partial = partial
            res.span = span
            res.mobile = mobile
            del pending[idx]
            out.append((req, rep, res))
        scene.day_end()
    return out


# ------------------------------------------------------------------------------------------------
# direct oracle on the implementation outputs of one survey
# ------------------------------------------------------------------------------------------------
def oracle_survey(ctx, res, inp):
    from harness.adapters import sensor as S

    scene, rec, report = res.scene, res.rec, res.report
    world = scene.world
    # the detection limit comes from the configuration handed to the method, not from the sensor object
    cfg_mdl = world.expected_mdl(res.name, res.override)
    name, code, si, mdl = res.name, res.code, res.si, Fraction(cfg_mdl)
    facts = {"n_vis": 0, "hidden_spatial": 0, "hidden_off": 0, "hidden_temporal": 0, "hidden_inactive": 0,
             "detected_units": 0, "undetected_nonzero_units": 0, "at_mdl": 0, "shift_below_minus_100": False,
             "shift_just_above_minus_100": False, "rounded_sum": False, "own_probs": set(), "first_rolls": 0, "emitting_flag_mismatch": False}

    def V(sig, what, extra=None):
        d = dict(inp)
        d["finding"] = extra
        ctx.violate(sig, what, d)

    # days on which this survey was left in progress: the method must not have consulted its sensor, rolled
    # coverage, written detection records or tagged (what it reports on completion is the completion day's)
    for (pday, prec) in getattr(res, "partial", []):
        if not prec.left_in_progress:
            facts["partial_day_not_in_progress"] = True
            continue
        facts["partial_days"] = facts.get("partial_days", 0) + 1
        if (prec.binomial or prec.detectable or prec.units or prec.tags or prec.tagged or prec.sensor_records
                or prec.ret is not None or prec.report_state[1] != 0):
            V("C05:survey:sensor-consulted-while-the-survey-was-left-in-progress",
              "on a day a multi-day survey was left in progress the method sensed / rolled coverage / recorded / "
              "tagged, or its report already carries a measured rate",
              {"day": pday, "coverage_rolls": len(prec.binomial), "sensor_tests": len(prec.units),
               "detection_records": prec.sensor_records, "tags": prec.tags, "report": list(map(str, prec.report_state))})

    if float(res.mdl) != cfg_mdl:
        V("C05:mdl:sensor-uses-another-limit-than-configured",
          "the sensor's detection limit is not the first value of the configured minimum_detection_limit",
          {"configured": cfg_mdl, "sensor": float(res.mdl), "override": res.override})

    returned = set()
    for _, ids in rec.detectable:
        returned.update(ids)
    truth = {}
    for (n, act) in res.before:
        em = scene.em_obj[n]
        (act0, emitting_flag, cov_before, tagged_before, by_before) = res.state_before[n]
        cov_after = res.cov_after[n]
        in_site = scene.em_place[n][0] == si
        # emitting or not: from the configured on/off cycle of the source and the emission's first active
        # day, not from the emission object's own flag
        emitting = scene.expected_emitting(n, res.day)
        if act and emitting != emitting_flag:
            facts["emitting_flag_mismatch"] = True
        if act and in_site and not emitting and not scene.em_cfg[n][2] and scene.em_cfg[n][4] == 0:
            facts["pause_day_of_zero_inactive"] = True
        # second, independent ground truth: what the emission BOOKS for this day at the daily update (+1 emitting
        # day = volume of the day, or +0); only for emissions that are still active after the update (the update
        # that ends an emission books nothing for its last day)
        bk = scene.booked.get((n, res.day))
        if act and bk is not None and bk[1] == bk[2]:
            if (bk[0] == 1) != emitting:
                facts["booked_differs_from_cycle"] = True
            if bk[0] == 0 and n in returned:
                V("C05:visible:emission-contributes-on-a-day-it-emits-nothing",
                  "get_detectable_emissions returned an emission on a day for which the emission books no emitting "
                  "day (its emitted volume does not grow that day)",
                  {"emission": n, "day": res.day, "source": scene.em_place[n][3], "cycle": list(scene.em_cfg[n][2:]),
                   "is_emitting_flag": emitting_flag, "emitting_by_configured_cycle": emitting})
        sp = rec.spatial.get(n)
        drew = sp[1] if sp else 0
        # -- scope: only members of active lists of the surveyed site are examined
        if not (act and in_site):
            if sp is not None or n in rec.temporal or n in returned or cov_after != cov_before:
                V("C05:scope:emission-outside-active-lists-of-site-examined",
                  "an emission that is not in an active list of the surveyed site was examined / rolled / returned",
                  {"emission": n, "active": act, "in_site": in_site})
        # -- sticky coverage
        k = (n, name)
        if drew:
            scene.spatial_draws[k] = scene.spatial_draws.get(k, 0) + drew
        if cov_before is not None and (drew or cov_after != cov_before):
            V("C05:sticky:spatial-coverage-rerolled",
              "spatial coverage of an emission for a method was rolled again / changed after it had been fixed",
              {"emission": n, "before": cov_before, "after": cov_after, "draws": drew})
        if scene.spatial_draws.get(k, 0) > 1:
            V("C05:sticky:spatial-coverage-rerolled",
              "more than one spatial-coverage roll for one (emission, method)", {"emission": n})
        if cov_after is not None:
            first = scene.stored.setdefault(k, cov_after)
            if first != cov_after:
                V("C05:sticky:spatial-coverage-rerolled", "stored spatial coverage changed over the emission's life",
                  {"emission": n, "first": first, "now": cov_after})
        # -- every coverage outcome is the emission's OWN roll: the harness records each Bernoulli draw
        #    with its probability argument; what is stored at the first check must be the draw made in that
        #    very call with this emission's probability for this method (probability 0 -> 0, 1 -> 1)
        place = scene.em_place[n]
        own_p = world.expected_prob("spatial", name, place[4], place[3])      # from the configuration files
        own_t = world.expected_prob("temporal", name, place[4], place[3])
        if float(em._tech_spat_cov_probs[name]) != own_p or float(em._tech_temp_cov_probs[name]) != own_t:
            V("C05:coverage:emission-carries-another-probability-than-configured",
              "an emission's coverage probability for the method is not the configured one "
              "(sources file > sites file > method parameter)",
              {"emission": n, "site": str(place[4]), "source": place[3], "configured": [own_p, own_t],
               "carried": [float(em._tech_spat_cov_probs[name]), float(em._tech_temp_cov_probs[name])]})
        td = rec.temporal_draws.get(n)
        if td is not None:
            tr = rec.temporal.get(n)
            if len(td) != 1 or td[0][0] != own_t or td[0][1] != tr or (own_t == 0.0 and tr != 0) or (own_t == 1.0 and tr != 1):
                V("C05:coverage:temporal-outcome-is-not-the-emissions-own-roll",
                  "the temporal-coverage outcome is not a Bernoulli draw with this emission's own temporal probability",
                  {"emission": n, "own_probability": own_t, "draws": td, "outcome": tr})
        if act and in_site:
            facts["own_probs"].add(own_p)
        if sp is not None and cov_before is None:
            d = {"emission": n, "emission_number": em._emissions_id, "own_probability": own_p,
                 "draws_in_call": drew, "draw_probability": sp[2], "draw_result": sp[3], "stored": cov_after}
            if drew != 1 or sp[2] != own_p or cov_after != sp[3]:
                V("C05:coverage:stored-outcome-is-not-the-emissions-own-roll",
                  "the spatial-coverage outcome stored for (emission, method) is not the Bernoulli draw made at its "
                  "first check with this emission's own coverage probability", d)
            facts["first_rolls"] += 1
        if cov_after is not None and ((own_p == 0.0 and cov_after != 0) or (own_p == 1.0 and cov_after != 1)):
            V("C05:coverage:outcome-impossible-for-own-probability",
              "stored spatial coverage contradicts the emission's own coverage probability (0 -> 0, 1 -> 1)",
              {"emission": n, "emission_number": em._emissions_id, "own_probability": own_p, "stored": cov_after})
        # -- independent visibility
        t = rec.temporal.get(n)
        vis = bool(act and in_site and cov_after == 1 and emitting and t == 1)
        truth[n] = vis
        if vis:
            facts["n_vis"] += 1
        elif in_site:
            if not act:
                facts["hidden_inactive"] += 1
            elif cov_after != 1:
                facts["hidden_spatial"] += 1
            elif not emitting:
                facts["hidden_off"] += 1
            else:
                facts["hidden_temporal"] += 1
        if n in returned and not vis:
            why = ("inactive-or-foreign" if not (act and in_site) else "outside-spatial-coverage" if cov_after != 1
                   else "not-emitting" if not emitting else "temporal-roll-0")
            V("C05:visible:invisible-emission-contributes:" + why,
              "get_detectable_emissions returned an emission the method cannot see (" + why + ")",
              {"emission": n, "cov": cov_after, "emitting": emitting, "temporal": t})

    # exact grid: eps = 0.  Unsnapped pass: the code's float sums of n non-negative terms are within
    # a relative n * 2^-52 of the exact rational sums; a clause is reported only when it fails for every
    # value in that enclosure ("definitely below" / "definitely at or above"), and additionally on the
    # very floats the code compared.
    exact = getattr(res, "exact", True)
    eps = Fraction(0) if exact else Fraction(len(res.before) + 2, 2 ** 52)
    mdl_f = float(res.mdl)

    def below(vr):          # definitely below the MDL
        return vr * (1 + eps) < mdl

    def reaches(vr):        # definitely at or above the MDL
        return vr * (1 - eps) >= mdl

    def vrate(pred):
        tot = Fraction(0)
        for (n, _) in res.before:
            if truth[n] and pred(scene.em_place[n]):
                tot += Fraction(float(scene.em_obj[n].get_rate()))
        return tot

    scale_name = {"c": "component", "g": "equipment-group", "s": "site"}[code]

    def check_unit(label, true_rep, meas_rep, vr, predicted, unit_rec=None):
        m = Fraction(float(meas_rep))
        tf = float(true_rep)
        if m < 0:
            V("C05:measured:negative", "negative measured rate at " + scale_name + " scale",
              {"unit": label, "measured": float(meas_rep)})
        if m != 0 and (below(vr) or tf < mdl_f):
            V("C05:mdl:nonzero-measured-below-mdl:" + scale_name,
              "non-zero measured rate although the summed true rate of the visible emissions of the unit is below the MDL",
              {"unit": label, "measured": float(meas_rep), "visible_rate": float(vr), "reported_true": tf,
               "mdl": float(mdl)})
        if vr == 0 and m != 0:
            V("C05:measured:nonzero-with-nothing-visible", "non-zero measured rate although nothing is visible",
              {"unit": label, "measured": float(meas_rep)})
        if abs(Fraction(tf) - vr) > eps * vr:
            V("C05:scale:reported-true-rate-differs-from-visible-rate:" + scale_name,
              "the unit's reported true rate is not the summed rate of its visible emissions",
              {"unit": label, "reported": tf, "visible_rate": float(vr)})
        if predicted is not None:
            if predicted and (below(vr) or tf < mdl_f):
                V("C05:mdl:quantified-below-mdl:" + scale_name, "predictor consulted for a unit below the MDL",
                  {"unit": label, "visible_rate": float(vr), "reported_true": tf, "mdl": float(mdl)})
            if not predicted and (reaches(vr) if exact else tf >= mdl_f):
                V("C05:threshold:rate-at-or-above-mdl-not-detected:" + scale_name,
                  "threshold sensor did not detect a unit whose visible rate is at or above the MDL",
                  {"unit": label, "visible_rate": float(vr), "reported_true": tf, "mdl": float(mdl)})
            if not predicted and m != 0:
                V("C05:measured:nonzero-when-not-detected", "non-zero measured rate for an undetected unit",
                  {"unit": label, "measured": float(meas_rep)})
            if predicted and unit_rec is not None and unit_rec["predict"][1] is not None:
                # the quantification formula on the recorded shift, same IEEE operations as the predictors
                inp_rate, shift, out = unit_rec["predict"]
                want = max(inp_rate * (1 + (shift / 100)), 0)
                if not (float(out) == float(want) and float(meas_rep) == float(want) and float(inp_rate) == tf):
                    V("C05:measured:differs-from-quantification-of-unit-rate:" + scale_name,
                      "measured rate is not max(unit true rate * (1 + shift/100), 0) for the drawn shift",
                      {"unit": label, "true": tf, "predictor_input": float(inp_rate), "shift": float(shift),
                       "measured": float(meas_rep), "expected": float(want)})
                if float(shift) < -100:
                    facts["shift_below_minus_100"] = True
                if -100 < float(shift) < -99.99:
                    facts["shift_just_above_minus_100"] = True
            if predicted:
                facts["detected_units"] += 1
            elif vr > 0:
                facts["undetected_nonzero_units"] += 1
            if vr > 0 and (vr == mdl if exact else abs(vr - mdl) <= 4 * eps * vr):
                facts["at_mdl"] += 1
            if not exact and vr > 0 and Fraction(tf) != vr:
                facts["rounded_sum"] = True

    tested = res.tested
    any_unit_ok = False
    k = 0
    comp_rate = {}
    if code == "c":
        for er in report.equipment_groups_surveyed:
            for cr in er.emissions_detected:
                g, c = er.equipment_group, cr.component
                vr = vrate(lambda p, g=g, c=c: p[0] == si and p[1] == g and p[2] == c)
                comp_rate[(g, c)] = vr
                pred = tested[k]["predict"] is not None if k < len(tested) else None
                urec = tested[k] if k < len(tested) else None
                k += 1
                check_unit(f"{g}/{c}", cr.true_rate, cr.measured_rate, vr, pred, urec)
                any_unit_ok = any_unit_ok or not below(vr)
            if Fraction(float(er.measured_rate)) < 0:
                V("C05:measured:negative", "negative equipment-group total", {"unit": er.equipment_group})
    elif code == "g":
        for er in report.equipment_groups_surveyed:
            g = er.equipment_group
            vr = vrate(lambda p, g=g: p[0] == si and p[1] == g)
            pred = tested[k]["predict"] is not None if k < len(tested) else None
            urec = tested[k] if k < len(tested) else None
            k += 1
            check_unit(g, er.true_rate, er.measured_rate, vr, pred, urec)
            any_unit_ok = any_unit_ok or not below(vr)
    site_vr = vrate(lambda p: p[0] == si)
    if code == "s":
        pred = tested[0]["predict"] is not None if tested else None
        check_unit("site", report.site_true_rate, report.site_measured_rate, site_vr, pred, tested[0] if tested else None)
        any_unit_ok = not below(site_vr)
        if report.equipment_groups_surveyed:
            pass
    sm = Fraction(float(report.site_measured_rate))
    if sm < 0:
        V("C05:measured:negative", "negative site measured rate", {"measured": float(sm)})
    if sm != 0 and not any_unit_ok:
        V("C05:mdl:nonzero-measured-below-mdl:site-total",
          "non-zero site measured rate although no unit of the method's scale reaches the MDL",
          {"measured": float(sm), "mdl": float(mdl)})
    if abs(Fraction(float(report.site_true_rate)) - site_vr) > eps * site_vr:
        V("C05:scale:reported-true-rate-differs-from-visible-rate:site-total",
          "site true rate of the report is not the summed rate of the visible emissions",
          {"reported": float(report.site_true_rate), "visible_rate": float(site_vr)})
    # -- tags
    for (g, c) in rec.tags:
        if code != "c":
            V("C05:tag:non-component-scale-method-tags", "a method that is not component-scale tagged a component",
              {"tag": [g, c]})
        elif below(comp_rate.get((g, c), Fraction(-1))) or (g, c) not in comp_rate:
            V("C05:tag:component-below-mdl-tagged",
              "tag request for a component whose visible rate is below the MDL",
              {"tag": [g, c], "visible_rate": float(comp_rate.get((g, c), -1)), "mdl": float(mdl)})
    tagset = set(rec.tags)
    for n in rec.tagged:
        p = scene.em_place[n]
        act = dict(res.before)[n]
        if not (act and p[0] == si and (p[1], p[2]) in tagset):
            V("C05:tag:emission-outside-tagged-component-tagged",
              "tag reached an emission that is not an active emission of a tagged component", {"emission": n})
    for n in rec.sensor_records:
        if not truth.get(n) or below(site_vr):
            V("C05:record:detection-record-for-invisible-emission",
              "sensor wrote a detection record for an emission it cannot see / below the MDL", {"emission": n})
    # -- hypotheses of C05_zero_coverage_is_baseline / C05_unreachable_mdl_is_baseline evaluated on the
    #    real state; their conclusion (Quiet) checked on the implementation
    in_scope = [n for (n, act) in res.before if act and scene.em_place[n][0] == si]
    zero_cov = all(res.state_before[n][2] != 1 and not (rec.spatial.get(n, (0, 0))[1] and rec.spatial[n][0] == 1)
                   for n in in_scope)
    total = sum((Fraction(float(scene.em_obj[n].get_rate())) for (n, _) in res.before if scene.em_place[n][0] == si),
                Fraction(0))
    unreachable = mdl > total * (1 + eps)
    quiet = sm == 0 and not rec.tags and not rec.sensor_records and not rec.tagged
    facts["hyp_zero_cov"] = bool(zero_cov and in_scope)
    facts["hyp_unreachable"] = bool(unreachable and in_scope)
    if (zero_cov or unreachable) and not quiet:
        V("C05:baseline:acted-under-zero-coverage-or-unreachable-mdl",
          "all spatial rolls 0 / MDL above the site's total rate, yet the survey measured, tagged or recorded",
          {"zero_coverage": zero_cov, "unreachable_mdl": unreachable, "measured": float(sm), "tags": rec.tags})
    # -- zero coverage method: nothing at all may happen
    # (the probability that counts is the emission's own: sites can override the method's coverage)
    if in_scope and all(world.expected_prob("spatial", name, scene.em_place[n][4], scene.em_place[n][3]) == 0.0
                        for n in in_scope) and (
            sm != 0 or rec.tags or rec.sensor_records or rec.tagged or returned):
        V("C05:zero-coverage:method-acted", "a method with spatial coverage 0 measured / tagged / recorded something",
          {"measured": float(sm), "tags": rec.tags})
    return facts


# ------------------------------------------------------------------------------------------------
# stages
# ------------------------------------------------------------------------------------------------
def component_stage(ctx):
    from harness.adapters import sensor as S

    n_worlds = ctx.pick(8, 24)
    n_cases = ctx.pick(430, 1450)
    n_hist = ctx.pick(25, 80)
    drv = core.LeanDriver("drv_sensor")
    sample_left = 3
    first_world = None          # kept alive to be re-surveyed after all the other worlds
    for w in range(n_worlds):
        world_seed = ctx.rng.randrange(1 << 30)
        try:
            world = S.build_world(random.Random(world_seed))
        except (Exception, SystemExit) as e:
            # an input shape the real parameter / infrastructure code rejects: an obligation of the tie is
            # open (this world is not covered), the search goes on with the next world
            ctx.broke("component stage: world %d could not be built" % world_seed, _tb(e))
            continue
        history = []
        try:
            ctx.count("worlds")
            ctx.count("world-start:%s" % world.start.isoformat())
            for prob in world.problems:
                ctx.violate("C05:history:construction-depends-on-or-changes-shared-inputs", prob,
                            {"stage": "world", "world_seed": world_seed})
            for m in world.names:
                p = world.methods[m]
                ctx.count("method:%s:spatial=%s:temporal=%s:%s" % (
                    p["measurement_scale"], p["coverage"]["spatial"], p["coverage"]["temporal"],
                    p["sensor"]["quantification_error"]["quantification_type"]))
            lines, expected, metas = [], [], []
            for ci in range(n_cases):
                case_seed = ctx.rng.randrange(1 << 30)
                exact = (ci % 5) != 4          # every fifth scene: unsnapped / off-grid, oracle only
                case = gen_case(world, random.Random(case_seed), exact=exact)
                try:
                    results = run_case(world, case, case_seed)
                except (Exception, SystemExit) as e:
                    ctx.broke("component stage: real code raised in a scene", _tb(e))
                    ctx.disagree("sensor.crash", {"stage": "component", "world_seed": world_seed,
                                                  "case_seed": case_seed, "exact": exact}, "model total", repr(e))
                    continue
                if len(history) < n_hist:
                    history.append((case_seed, exact, case_digest(results)))
                ctx.count("round-trips", sum(1 for _ in case.get("round_trips", [])))
                if exact:
                    lines.append("reset")
                    expected.append("ok")
                    metas.append(None)
                for idx, (req, rep, res) in enumerate(results):
                    inp = {"stage": "component", "world_seed": world_seed, "case_seed": case_seed, "exact": exact,
                           "survey_index": idx, "method": res.name, "scale": res.code, "site_index": res.si,
                           "day": res.day, "mdl": float(res.mdl), "override": res.override,
                           "request": req, "impl": rep}
                    facts = oracle_survey(ctx, res, inp)
                    if exact:
                        lines.append(req)
                        expected.append(rep)
                        metas.append((inp, res, facts))
                    else:
                        unsnapped_bookkeeping(ctx, res, facts)
                ctx.traces += 1
            replies = drv.run(lines)
            for ml, il, meta in zip(replies, expected, metas):
                if meta is None:
                    continue
                inp, res, facts = meta
                ctx.evaluations += 1
                if ml != il:
                    ctx.disagree("sensor", {k: v for k, v in inp.items() if k not in ("request", "impl")}
                                 | {"request": inp["request"]}, ml, il)
                    ctx.count("disagree")
                ov = res.override
                qtype = ov[1] if ov else scene_qtype(res)
                ctx.count("scale:" + res.code)
                ctx.count("predictor:" + qtype)
                ctx.count("scale-x-predictor:%s:%s" % (res.code, qtype))
                for kf in ("hidden_spatial", "hidden_off", "hidden_temporal", "hidden_inactive", "at_mdl",
                           "detected_units", "undetected_nonzero_units", "hyp_zero_cov", "hyp_unreachable"):
                    if facts[kf]:
                        ctx.count("surveys-with:" + kf)
                if res.rec.tags:
                    ctx.count("surveys-with:tags")
                if facts["emitting_flag_mismatch"]:
                    ctx.count("surveys-with:emitting-flag-differs-from-configured-cycle")
                if facts.get("booked_differs_from_cycle"):
                    ctx.count("surveys-with:booked-emitting-day-differs-from-configured-cycle")
                if facts.get("pause_day_of_zero_inactive"):
                    ctx.count("surveys-on-the-pause-day-of-a-source-with-inactive_duration-0")
                if facts.get("partial_days"):
                    ctx.count("surveys-spanning-several-days")
                    ctx.count("in-progress-days-checked", facts["partial_days"])
                    if facts["hidden_off"] or facts["hidden_temporal"] or facts["hidden_inactive"]:
                        ctx.count("surveys-spanning-several-days:with-emissions-hidden-on-the-completion-day")
                if facts.get("partial_day_not_in_progress"):
                    ctx.count("skipped:in-progress-day-where-survey_site-did-not-leave-the-survey-in-progress")
                if getattr(res, "mobile", False):
                    ctx.count("surveys-by-mobile-deployment")
                ctx.count("coverage-first-rolls-checked-against-own-probability", facts["first_rolls"])
                for pr in facts["own_probs"]:
                    ctx.count("surveys-with:own-spatial-probability=%s" % pr)
                if res.rec.sensor_records:
                    ctx.count("surveys-with:sensor-detection-records")
                if any(s and s[1] == 0 for s in res.rec.spatial.values()):
                    ctx.count("surveys-with:sticky-reuse")
                neg = any(u["predict"] is not None and u["predict"][1] is not None and float(u["predict"][1]) < -100
                          for u in res.tested)
                if neg:
                    ctx.count("surveys-with:shift-below-minus-100")
                if facts["n_vis"] or facts["hidden_spatial"] or facts["hidden_off"] or facts["hidden_temporal"]:
                    ctx.nontrivial.add((res.code, qtype, min(facts["n_vis"], 3), min(facts["hidden_spatial"], 2),
                                        min(facts["hidden_off"], 2), min(facts["hidden_temporal"], 2),
                                        min(facts["detected_units"], 2), min(facts["undetected_nonzero_units"], 2),
                                        facts["at_mdl"] > 0, neg, bool(res.rec.tags)))
                if sample_left and facts["n_vis"] and facts["hidden_spatial"]:
                    sample_left -= 1
                    ctx.sample({"request": inp["request"], "impl": il})
            # ---- same-process history: the first scenes of this world once more, after everything else
            #      this process has surveyed since (same emission numbers, same method names, other values)
            rerun_history(ctx, world, world_seed, history, "after-the-other-scenes-of-its-world")
            if not world.methods_unchanged():
                ctx.violate("C05:history:construction-depends-on-or-changes-shared-inputs",
                            "surveying changed the shared method parameter dictionaries",
                            {"stage": "world", "world_seed": world_seed})
        finally:
            if first_world is None:
                first_world = (world, world_seed, history)
            else:
                world.cleanup()
    if first_world is not None:
        try:
            if n_worlds > 1:
                rerun_history(ctx, first_world[0], first_world[1], first_world[2], "after-all-other-worlds")
        finally:
            first_world[0].cleanup()


def _tb(e):
    import traceback

    return "".join(traceback.format_exception(type(e), e, e.__traceback__))[-2500:]


def case_digest(results):
    """what a scene produced, survey by survey: the implementation's protocol line (exact grid) or the
    raw report, tags and coverage store (unsnapped pass)"""
    out = []
    for (req, rep, res) in results:
        if rep is not None:
            out.append(rep)
        else:
            out.append(repr((res.report.site_true_rate, res.report.site_measured_rate, sorted(res.rec.tags),
                             sorted(res.cov_after.items()), sorted(res.rec.tagged))))
    return out


def rerun_history(ctx, world, world_seed, history, when):
    """a scene replays exactly from (world, case seed); its surveys must not depend on what the process
    did before: re-run and compare with the first run"""
    for (case_seed, exact, digest) in history:
        case = gen_case(world, random.Random(case_seed), exact=exact)
        try:
            again = case_digest(run_case(world, case, case_seed))
        except (Exception, SystemExit) as e:
            again = ["raised " + repr(e)]
        ctx.evaluations += 1
        ctx.count("history:scenes-rerun:" + when)
        if again != digest:
            k = next((i for i, (a, b) in enumerate(zip(digest, again)) if a != b), min(len(digest), len(again)))
            ctx.violate("C05:history:survey-outcome-depends-on-earlier-cases-in-the-process",
                        "the same scene (same world, same seeds, hence same rolls) gave another survey outcome when "
                        "run again later in the same process",
                        {"stage": "history", "world_seed": world_seed, "case_seed": case_seed, "exact": exact,
                         "when": when, "survey_index": k,
                         "first": digest[k] if k < len(digest) else None,
                         "again": again[k] if k < len(again) else None})


def unsnapped_bookkeeping(ctx, res, facts):
    ctx.evaluations += 1
    ctx.count("unsnapped:surveys")
    qtype = res.override[1] if res.override else scene_qtype(res)
    ctx.count("unsnapped:scale-x-predictor:%s:%s" % (res.code, qtype))
    for kf in ("detected_units", "undetected_nonzero_units", "at_mdl", "shift_below_minus_100",
               "shift_just_above_minus_100", "rounded_sum", "hidden_spatial", "hidden_off", "hidden_temporal"):
        if facts.get(kf):
            ctx.count("unsnapped:surveys-with:" + kf)
    if res.rec.tags:
        ctx.count("unsnapped:surveys-with:tags")
    if facts["n_vis"] or facts["hidden_spatial"] or facts["hidden_off"] or facts["hidden_temporal"]:
        ctx.nontrivial.add(("unsnapped", res.code, qtype, min(facts["n_vis"], 3), min(facts["detected_units"], 2),
                            min(facts["undetected_nonzero_units"], 2), facts["at_mdl"] > 0,
                            bool(facts["shift_below_minus_100"]), bool(facts["rounded_sum"]), bool(res.rec.tags)))


def scene_qtype(res):
    return res.scene.world.methods[res.name]["sensor"]["quantification_error"]["quantification_type"]


SIG_FLAG_INST = "C05:flag:zero-measured-site-enters-follow-up:instant-threshold<=0"
SIG_FLAG_STAT = "C05:flag:zero-measured-site-enters-follow-up:stationary-small-window-threshold<=0"


def flag_stage(ctx):
    """real SiteLevelMethod.update_mobile (site not yet in processing) vs `flagCandidate`, and the real
    stationary SiteLevelMethod.update on the first record of a site vs `flagStationaryFresh`.  The grids
    include the region excluded by the hypotheses of C05_flag_needs_detection(_stationary) (instant /
    small-window threshold <= 0): counted as hypothesis misses; a flag with measured rate 0 there is the
    known finding, anywhere else a new violation."""
    from harness.adapters import sensor as S

    world = S.build_world(random.Random(ctx.rng.randrange(1 << 30)))
    hits = {"mobile": [0, 0], "stationary": [0, 0]}
    try:
        site = world.fresh()._sites[0]
        grid = [0.0, 0.125, 0.5, 1.0, 2.0, 8.0]
        cases = [(inst, thr, m) for inst in [None, 0.5, 2.0, 8.0, 0.0, -1.0] for thr in grid for m in grid]
        lines = []
        for (inst, thr, m) in cases:
            lines.append("flag %s %d %d" % ("-" if inst is None else S.to_units(inst, S.SCALE * 100),
                                            S.to_units(thr, S.SCALE * 100), S.to_units(m, S.SCALE * 100)))
        scases = [(st, lg, m) for st in [0.0, 0.125, 1.0, -0.5] for lg in [None, 0.0, 2.0] for m in grid]
        for (st, lg, m) in scases:
            lines.append("flags %d %d" % (S.to_units(st, S.SCALE * 100), S.to_units(m, S.SCALE * 100)))
        replies = core.LeanDriver("drv_sensor").run(lines)
        for c, ml in zip(cases, replies[:len(cases)]):
            il = "1" if S.flag_decision(site, *c) else "0"
            ctx.evaluations += 1
            ctx.count("flag-decisions:mobile")
            hyp = c[0] is None or c[0] > 0
            hits["mobile"][0 if hyp else 1] += 1
            if il != ml:
                ctx.disagree("sensor.flag", {"stage": "flag", "inst": c[0], "thr": c[1], "measured": c[2]}, ml, il)
            if il == "1" and c[2] == 0:
                ctx.violate("C05:flag:site-with-zero-measured-rate-enters-follow-up" if hyp else SIG_FLAG_INST,
                            "a site with measured rate 0 became a follow-up candidate",
                            {"stage": "flag", "inst": c[0], "thr": c[1], "measured": c[2]})
        for c, ml in zip(scases, replies[len(cases):]):
            queued, n_flags = S.flag_decision_stationary(site, *c)
            il = "1" if queued else "0"
            ctx.evaluations += 1
            ctx.count("flag-decisions:stationary")
            hyp = c[0] > 0
            hits["stationary"][0 if hyp else 1] += 1
            if il != ml or (n_flags > 0) != queued:
                ctx.disagree("sensor.flags", {"stage": "flag_stationary", "small": c[0], "large": c[1],
                                              "measured": c[2]}, ml, il + " n_flags=%d" % n_flags)
            if queued and c[2] == 0:
                ctx.violate("C05:flag:site-with-zero-measured-rate-queued:stationary" if hyp else SIG_FLAG_STAT,
                            "a stationary method queued a site for follow-up on its first detection record although the "
                            "measured rate is 0",
                            {"stage": "flag_stationary", "small": c[0], "large": c[1], "measured": c[2]})
        ctx.extra.setdefault("hypothesis_hit_rate", {}).update({
            "C05_flag_needs_detection (instant threshold none or > 0)":
                {"hits": hits["mobile"][0], "misses": hits["mobile"][1]},
            "C05_flag_needs_detection_stationary (small-window threshold > 0)":
                {"hits": hits["stationary"][0], "misses": hits["stationary"][1]}})
    finally:
        world.cleanup()


# ------------------------------------------------------------------------------------------------
# extracted table: who writes the coverage store, who calls the spatial check (regenerated every run)
# ------------------------------------------------------------------------------------------------
EXPECTED_WRITERS = {("virtual_world/emission_types/emission.py", "__init__", "assign"),
                    ("virtual_world/emission_types/emission.py", "check_spatial_cov", "setitem")}
EXPECTED_CALLERS = {("virtual_world/component.py", "get_detectable_emissions")}
EXPECTED_SHARED = {("virtual_world/emission_types/emission.py", "Emission", "EMIS_SUMMARY_DTYPES")}
_ET = "virtual_world/emission_types/"
EXPECTED_HOOKS = {
    ("virtual_world/component.py", "Component", "__reduce__"), ("virtual_world/component.py", "Component", "_reconstruct"),
    (_ET + "emission.py", "Emission", "__reduce__"), (_ET + "emission.py", "Emission", "__setstate__"),
    (_ET + "emission.py", "Emission", "_reconstruct_emissions"),
    (_ET + "intermittent_non_repairable_emission.py", "IntermittentNonRepairableEmission", "__reduce__"),
    (_ET + "intermittent_non_repairable_emission.py", "IntermittentNonRepairableEmission", "__setstate__"),
    (_ET + "intermittent_non_repairable_emission.py", "IntermittentNonRepairableEmission",
     "_reconstruct_intermittent_non_repairable_emission"),
    (_ET + "intermittent_repairable_emission.py", "IntermittentRepairableEmission", "__reduce__"),
    (_ET + "intermittent_repairable_emission.py", "IntermittentRepairableEmission", "__setstate__"),
    (_ET + "intermittent_repairable_emission.py", "IntermittentRepairableEmission",
     "_reconstruct_intermittent_repairable_emission"),
    (_ET + "non_repairable_emissions.py", "NonRepairableEmission", "__reduce__"),
    (_ET + "non_repairable_emissions.py", "NonRepairableEmission", "__setstate__"),
    (_ET + "non_repairable_emissions.py", "NonRepairableEmission", "_reconstruct_nonfugitive_emission"),
    (_ET + "repairable_emission.py", "RepairableEmission", "__reduce__"),
    (_ET + "repairable_emission.py", "RepairableEmission", "__setstate__"),
    (_ET + "repairable_emission.py", "RepairableEmission", "_reconstruct_fugitive_emission"),
    ("virtual_world/equipment_groups.py", "Equipment_Group", "__reduce__"),
    ("virtual_world/equipment_groups.py", "Equipment_Group", "_reconstruct"),
    ("virtual_world/sites.py", "Site", "__reduce__"), ("virtual_world/sites.py", "Site", "_reconstruct"),
    ("virtual_world/sources.py", "Source", "__reduce__"), ("virtual_world/sources.py", "Source", "_reconstruct"),
}


def coverage_writers_table(ctx):
    """AST scan of /repo/LDAR_Sim/src: every place that assigns / mutates `_tech_spat_covs` and every call
    of `check_spatial_cov`.  C05_sticky_whole_life models the life cycle as steps that do not touch the
    store; this table is the checked tie for that (a new writer re-opens the obligation)."""
    import ast
    from harness import shim

    writers, callers, literal = set(), set(), set()
    mutators = {"update", "pop", "clear", "setdefault", "popitem", "__setitem__", "__delitem__"}
    for root, dirs, files in os.walk(shim.REPO_SRC):
        dirs[:] = [d for d in dirs if d not in ("__pycache__",)]
        for f in files:
            if not f.endswith(".py"):
                continue
            path = os.path.join(root, f)
            rel = os.path.relpath(path, shim.REPO_SRC)
            src = open(path).read()
            if "_tech_spat_covs" not in src and "check_spatial_cov" not in src:
                continue
            try:
                tree = ast.parse(src)
            except SyntaxError as e:
                ctx.broke("table: source mentioning the coverage store does not parse", "%s: %s" % (rel, e))
                continue

            def is_store(node):
                return isinstance(node, ast.Attribute) and node.attr == "_tech_spat_covs"

            def visit(node, fn):
                if isinstance(node, (ast.FunctionDef, ast.AsyncFunctionDef)):
                    fn = node.name
                if isinstance(node, (ast.Assign, ast.AugAssign, ast.AnnAssign, ast.Delete)):
                    targets = node.targets if isinstance(node, (ast.Assign, ast.Delete)) else [node.target]
                    for t in targets:
                        for sub in ast.walk(t):
                            if is_store(sub):
                                kind = "setitem" if any(isinstance(x, ast.Subscript) and is_store(x.value)
                                                        for x in ast.walk(t)) else "assign"
                                writers.add((rel, fn, kind))
                if isinstance(node, ast.Call) and isinstance(node.func, ast.Attribute):
                    if node.func.attr in mutators and is_store(node.func.value):
                        writers.add((rel, fn, "call:" + node.func.attr))
                    if node.func.attr == "check_spatial_cov":
                        callers.add((rel, fn))
                if isinstance(node, ast.Constant) and isinstance(node.value, str) and "_tech_spat_covs" in node.value:
                    literal.add((rel, fn))
                for ch in ast.iter_child_nodes(node):
                    visit(ch, fn)

            visit(tree, "<module>")
    # class-level / module-level mutable containers, memoising decorators and copy hooks of every class the
    # sensor model stands for: state shared by all objects of the process (a per-emission outcome kept
    # there is not the emission's own) and the routes by which copies of the world are made
    shared, hooks = set(), set()
    hook_names = {"__deepcopy__", "__copy__", "__reduce__", "__reduce_ex__", "__getstate__", "__setstate__",
                  "__getnewargs__", "__init_subclass__"}

    def is_mutable(v):
        return isinstance(v, (ast.Dict, ast.List, ast.Set, ast.DictComp, ast.ListComp, ast.SetComp)) or (
            isinstance(v, ast.Call) and isinstance(v.func, ast.Name)
            and v.func.id in ("dict", "list", "set", "defaultdict", "OrderedDict", "Counter", "deque"))

    def names_of(st):
        tg = st.targets if isinstance(st, ast.Assign) else [st.target]
        return [t.id for t in tg if isinstance(t, ast.Name)]

    modelled = []
    for sub in (("virtual_world", "emission_types"), ("virtual_world",), ("sensors",), ("sensors", "quantification")):
        d = os.path.join(shim.REPO_SRC, *sub)
        if not os.path.isdir(d):
            ctx.broke("table: modelled source directory missing", d)
            continue
        for f in sorted(os.listdir(d)):
            if f.endswith(".py") and (sub != ("virtual_world",) or f in ("component.py", "equipment_groups.py", "sites.py", "sources.py")) \
                    and (sub != ("sensors",) or f.startswith("default_")):
                modelled.append((os.path.join(*sub, f), os.path.join(d, f)))
    for rel, path in modelled:
        try:
            tree = ast.parse(open(path).read())
        except SyntaxError as e:
            ctx.broke("table: modelled source does not parse", "%s: %s" % (rel, e))
            continue
        for st in tree.body:
            if isinstance(st, (ast.Assign, ast.AnnAssign)) and st.value is not None and is_mutable(st.value):
                for nm in names_of(st):
                    if nm != "__all__":
                        shared.add((rel, "<module>", nm))
        for node in ast.walk(tree):
            if isinstance(node, ast.ClassDef):
                for st in node.body:
                    if isinstance(st, (ast.Assign, ast.AnnAssign)) and st.value is not None and is_mutable(st.value):
                        for nm in names_of(st):
                            shared.add((rel, node.name, nm))
                    if isinstance(st, (ast.FunctionDef, ast.AsyncFunctionDef)):
                        if st.name in hook_names or st.name.startswith("_reconstruct"):
                            hooks.add((rel, node.name, st.name))
                        for dec in st.decorator_list:
                            dn = ast.unparse(dec)
                            if any(k in dn for k in ("lru_cache", "cache", "cached_property", "memo")):
                                shared.add((rel, node.name, st.name + "@" + dn))
            elif isinstance(node, (ast.FunctionDef, ast.AsyncFunctionDef)):
                for dec in node.decorator_list:
                    dn = ast.unparse(dec)
                    if any(k in dn for k in ("lru_cache", "functools.cache", "cached_property", "memo")):
                        shared.add((rel, "<function>", node.name + "@" + dn))
    ctx.extra["shared_mutable_state_of_modelled_classes"] = sorted(map(list, shared))
    ctx.extra["copy_hooks_of_modelled_classes"] = sorted(map(list, hooks))
    for name, got, want in (("table: class-/module-level mutable containers and memoisers of the modelled classes",
                             shared, EXPECTED_SHARED),
                            ("table: copy / pickle hooks of the modelled classes", hooks, EXPECTED_HOOKS)):
        ctx.obligations.append(name)
        if got == want:
            ctx.discharged.append(name)
        else:
            ctx.broke(name, "found %s, expected %s (new: %s, gone: %s)" % (
                sorted(got), sorted(want), sorted(got - want), sorted(want - got)))
    callers = {c for c in callers if not c[0].startswith("testing")}
    ctx.extra["coverage_store_writers"] = sorted(map(list, writers))
    ctx.extra["spatial_check_callers"] = sorted(map(list, callers))
    for name, got, want in (("table: writers of Emission._tech_spat_covs", writers, EXPECTED_WRITERS),
                            ("table: callers of Emission.check_spatial_cov", callers, EXPECTED_CALLERS)):
        ctx.obligations.append(name)
        if got == want and not literal:
            ctx.discharged.append(name)
        else:
            ctx.broke(name, "found %s (string mentions %s), expected %s" % (sorted(got), sorted(literal), sorted(want)))


# ------------------------------------------------------------------------------------------------
# whole-run metamorphic stage
# ------------------------------------------------------------------------------------------------
KEY_COLS = ("Site ID", "Equipment", "Component", "Emissions ID")


TRACE_HOOK = "harness.adapters.sensor_trace:install"

# periods put into the whole-run generator on purpose: New Year's Eve into a leap year through to the
# following February (Feb 29, Dec 31 = day 366, two year changes), Feb 28 / 29 / Mar 1, one- and two-day
# periods (the second straddling New Year), a non-leap period not starting on Jan 1 / not ending on Dec 31
BOUNDARY_PERIODS = [[2023, 12, 30, 368], [2024, 2, 28, 3], [2024, 12, 31, 2], [2023, 12, 31, 1], [2024, 12, 30, 367],
                    [2022, 7, 15, 140], [2023, 7, 15, 140], [2023, 2, 27, 4]]


def planner_drops_last_year(period):
    """ScheduledSurveyPlanner._get_simulation_years drops the last calendar year when (start month, day) >
    (end month, day); a survey completing in that year raises KeyError (recorded C06 finding F12, signatures
    C06:keyerror:*).  Such a crash says nothing about C05."""
    from datetime import date, timedelta

    if not period:
        return False
    st = date(*period[:3])
    en = st + timedelta(days=period[3] - 1)
    return (st.month, st.day) > (en.month, en.day)


def apply_shape(cfg, shape):
    """shape = {"period": [y, m, d, ndays] | None, "reverse": bool, "n_sims": int}: boundary period,
    programs listed in reverse order (baseline last), several simulations in one worker"""
    from datetime import date, timedelta

    if not shape:
        return cfg
    if shape.get("period"):
        y, m, d, nd = shape["period"]
        st = date(y, m, d)
        en = st + timedelta(days=nd - 1)
        cfg["start"], cfg["end"] = [st.year, st.month, st.day], [en.year, en.month, en.day]
    if shape.get("reverse"):
        cfg["programs"] = list(reversed(cfg["programs"]))
    if shape.get("n_sims"):
        cfg["n_sims"] = shape["n_sims"]
    return cfg


def find_prev_variant(cfg, seed, wanted):
    """harness/wholerun.prev_variant with the kind chosen: derived generators are tried until the wanted leaf
    is the one that differs"""
    from harness import wholerun as W

    for i in range(400):
        prev, what = W.prev_variant(cfg, random.Random(seed * 1009 + i))
        if what == wanted:
            return prev, what
    return W.prev_variant(cfg, random.Random(seed))


C05_WIDE_TAGS = ["coverage", "followup", "crews", "workday", "weather", "months", "years", "sims"]


def _wide_leaves(cfg):
    return {(a["path"][1], a["path"][2]) for a in cfg.get("wide_applied", []) if a["path"][0] == "m"}


def _wide_follow_up_coverage(cfg, wide):
    """the shared catalogue varies the coverage of the routine and stationary methods only; for C05 the
    follow-up methods get spatial / temporal 0 and fractional values as well (own derived generator, recorded
    in cfg["wide_applied"] like every other wide leaf)"""
    if not (wide is True or "coverage" in wide):
        return
    xr = random.Random(cfg["weather_seed"] * 7919 + 5)
    for fu in ("OGI_FU", "OGI_FU2"):
        if fu in cfg["methods"] and xr.random() < 0.7:
            par = xr.choice(["spatial", "temporal"])
            v = xr.choice([0.0, 0.25, 0.5])
            cfg["methods"][fu][par] = v
            cfg.setdefault("wide_applied", []).append({"tag": "coverage", "path": ["m", fu, par], "value": v})


def wholerun_config(rng, with_fix=False, shape=None, wide=None):
    """baseline + a normal program + the same program with every method's spatial coverage 0 + the
    same program with every method's MDL 1e9; with_fix: also a stationary screening method + its
    follow-up, normal and with spatial coverage 0"""
    import copy
    from harness import wholerun as W

    nd = rng.choice([120, 200, 400])
    multiday = bool(shape and shape.get("multiday"))
    if multiday:
        cfg = W.make_config(rng, n_sims=1, ndays=nd, granular=True)
        # surveys that span days while what is visible changes from day to day: a site survey longer than the
        # workday (600 > 8 h), temporal coverage 1/2, an intermittent source, short-lived emissions
        for m in ("AIR", "OGI", "OGI_FU"):
            cfg["methods"][m].update({"survey_time": 600, "max_workday": 8, "t_bw_sites": [30.0], "crew_count": 1})
        cfg["methods"]["AIR"].update({"temporal": 0.5, "surveys_per_year": 12, "mdl": 0.5,
                                      "months": list(range(1, 13))})
        for sc in cfg["sources"]:
            if sc["source"] == "sC":
                sc.update({"persistent": False, "active": 1, "inactive": rng.choice([0, 1])})
        cfg["nonrep"]["duration"] = 20
        cfg["consider_weather"] = False
        cfg["daylight"] = None
        for m in cfg["methods"].values():
            m["consider_daylight"] = False
        cfg["wide_applied"] = [{"tag": "multiday", "path": ["c05", "multiday"], "value": True}]
    elif shape and shape.get("cycle"):
        # every day of the on / off cycle of an intermittent source is surveyed: a stationary method surveys daily,
        # the source is on for 1 or 2 days and has inactive_duration 0 (one pause day per cycle, see
        # adapters/sensor.emitting_pattern)
        cfg = W.make_config(rng, n_sims=1, ndays=nd, granular=True)
        for sc in cfg["sources"]:
            if sc["source"] == "sC":
                sc.update({"persistent": False, "active": rng.choice([1, 2]), "inactive": 0})
        cfg["methods"]["OGI"]["surveys_per_year"] = 12
        cfg["wide_applied"] = [{"tag": "cycle", "path": ["c05", "cycle"], "value": True}]
    elif wide:
        # "wide": 1-3 leaves the base generator never varies / boundary values, applied by the shared
        # generator after its unchanged base draws and recorded in cfg["wide_applied"]; the derived programs
        # below copy every leaf of the base methods, so what is materialised is what cfg["methods"] says
        cfg = W.make_config(rng, ndays=nd, wide=wide)
        _wide_follow_up_coverage(cfg, wide)
    else:
        cfg = W.make_config(rng, n_sims=1, ndays=nd)
    if not multiday and not (shape and shape.get("cycle")):
        _c05_sources(cfg)
    base = cfg["methods"]
    wl = _wide_leaves(cfg)
    # more variety than the generator's defaults for what C05 is about (a wide leaf is never overwritten)
    for (m, par, vals) in (("OGI", "spatial", [1.0, 0.5, 0.75]), ("OGI", "temporal", [1.0, 0.5]),
                           ("AIR", "spatial", [1.0, 0.5]), ("OGI_FU", "spatial", [1.0, 0.75])):
        v = rng.choice(vals)
        if (m, par) not in wl and not (multiday and (m, par) == ("AIR", "spatial")):
            base[m][par] = v
    if multiday:
        base["AIR"]["temporal"] = 0.5
    methods = {}
    progs = [{"name": "P_none", "methods": []}]
    for tag, patch in (("N", {}), ("Z", {"spatial": 0.0}), ("B", {"mdl": 1e9})):
        names = []
        for m in ("OGI", "AIR", "OGI_FU"):
            d = copy.deepcopy(base[m])
            d.update(patch)
            if "follow_up" in d:
                d["follow_up"]["preferred_method"] = tag + "_OGI_FU"
            methods[tag + "_" + m] = d
            names.append(tag + "_" + m)
        progs.append({"name": "P_" + tag, "methods": names})
    if with_fix:
        for tag, patch in (("NF", {}), ("ZF", {"spatial": 0.0})):
            names = []
            for m in ("FIX", "OGI_FU2"):
                d = copy.deepcopy(base[m])
                d.update(patch)
                if "follow_up" in d:
                    d["follow_up"]["preferred_method"] = tag + "_OGI_FU2"
                    if with_fix == "default":   # the shipped default of rolling_average.small_window_threshold
                        d["follow_up"]["rolling"]["small_window_threshold"] = 0.0
                methods[tag + "_" + m] = d
                names.append(tag + "_" + m)
            progs.append({"name": "P_" + tag, "methods": names})
    cfg["methods"] = methods
    cfg["programs"] = progs
    cfg["baseline"] = "P_none"
    cfg["pre_run_hook"] = TRACE_HOOK
    return apply_shape(cfg, shape)


def wholerun_prior_configs(rng, shape=None):
    """(main, prior): the same generated world twice with the SAME method names; `prior` surveys with full
    coverage, `main` has a baseline and a program whose methods all have spatial coverage 0.  The worker
    runs `prior` first and `main` afterwards in the same process (emission ids coincide, probabilities differ)."""
    import copy
    from harness import wholerun as W

    cfg = W.make_config(rng, n_sims=1, ndays=rng.choice([120, 200]))
    names = ["OGI", "AIR", "OGI_FU"]
    main, prior = copy.deepcopy(cfg), copy.deepcopy(cfg)
    main["methods"] = {m: dict(copy.deepcopy(cfg["methods"][m]), spatial=0.0) for m in names}
    prior["methods"] = {m: dict(copy.deepcopy(cfg["methods"][m]), spatial=1.0, temporal=1.0) for m in names}
    main["programs"] = [{"name": "P_none", "methods": []}, {"name": "P_Z", "methods": names}]
    main["baseline"] = "P_none"
    prior["programs"] = [{"name": "Q_none", "methods": []}, {"name": "Q_full", "methods": names}]
    prior["baseline"] = "Q_none"
    main["pre_run_hook"] = TRACE_HOOK
    return apply_shape(main, shape), apply_shape(prior, shape)


def _c05_sources(cfg):
    """intermittent sources of the whole-run configurations for C05: on / off durations incl. inactive_duration 0
    (the value the loader fills in when the column is absent) and active_duration 1; own derived generator"""
    if not cfg.get("granular"):
        return cfg
    xr = random.Random(cfg["weather_seed"] * 31 + 17)
    for sc in cfg.get("sources", []):
        if sc["source"] == "sC":
            sc["persistent"] = xr.random() < 0.3
            sc["active"] = xr.choice([1, 1, 2, 3])
            sc["inactive"] = xr.choice([0, 0, 1, 2])
    return cfg


def source_cycle(sources_cfg, comp, repairable):
    """(persistent, active, inactive) of the source an emission belongs to, from the configuration: the
    generated configurations have at most one source per (component type, repairable)"""
    if not sources_cfg:
        return (True, 1, 0)
    ctype = comp.rsplit("_", 1)[0]
    hits = [sc for sc in sources_cfg if sc["component"] == ctype and bool(sc["repairable"]) == bool(repairable)]
    if len(hits) != 1:
        return None
    return (bool(hits[0]["persistent"]), int(hits[0]["active"]), int(hits[0]["inactive"]))


def trace_survey_oracle(events, methods_cfg, sources_cfg=None):
    """the per-survey clauses of C05 on the surveys of a real simulation, from the events of
    harness/adapters/sensor_trace.py plus the worker's own "tag" / "detect" events.
    Returns (findings [(signature, what, detail)], stats)."""
    F = []
    stats = {"surveys": 0, "cov_calls": 0, "sticky_reuse": 0, "tags": 0, "detects": 0, "visible": 0,
             "hidden_spatial": 0, "hidden_off": 0, "hidden_temporal": 0, "detected_units": 0,
             "undetected_nonzero_units": 0, "surveys_with_visible": 0, "first_rolls": 0,
             "survey_steps": 0, "steps_left_in_progress": 0, "steps_completing": 0,
             "emitting_flag_differs_from_cycle": 0, "pause_day_of_zero_inactive": 0}
    stored = {}     # (k, method) -> outcome fixed by the first roll
    pend_cov = {}   # method -> cov entries since its last report
    pend_t = {}     # (method, k) -> temporal outcome
    pend_det = {}   # method -> detect events since its last report
    last_rep = {}   # (day, method, site) -> {"units": {(eqg, comp): (vr, measured)}, "level", "mdl"}
    reps_open = {}  # (method, site) -> sensor reports since the last survey_site call returned

    def add(sig, what, detail):
        if len(F) < 40:
            F.append((sig, what, detail))

    for e in events:
        kind = e[0]
        if kind == "c05-error":
            add("C05:wholerun:trace-wrapper-error", "observation wrapper raised", {"error": e[1]})
        elif kind == "c05cov":
            (_, day, m, site, eqg, comp, k, eid, rep, start, rate, before, after, emitting, own_p, draws) = e[:16]
            stats["cov_calls"] += 1
            key = (k, m)
            # the probabilities an emission carries must be those of THIS run's configuration (the generated
            # whole-run configurations have no per-site / per-source overrides)
            mc = methods_cfg.get(m)
            if mc is not None and (own_p != float(mc["spatial"]) or (len(e) > 16 and e[16] != float(mc["temporal"]))):
                add("C05:wholerun:coverage:emission-carries-another-probability-than-configured",
                    "an emission surveyed in this run carries a coverage probability for the method that is not the one "
                    "configured for this run",
                    {"day": day, "method": m, "emission": [site, eqg, comp, eid, rep, start],
                     "carried": [own_p, e[16] if len(e) > 16 else None],
                     "configured": [float(mc["spatial"]), float(mc["temporal"])]})
            if before is None:
                stats["first_rolls"] += 1
                if len(draws) != 1 or draws[0][0] != own_p or draws[0][1] != after:
                    add("C05:wholerun:coverage:stored-outcome-is-not-the-emissions-own-roll",
                        "the spatial-coverage outcome stored at the first check is not the Bernoulli draw made in that "
                        "call with the emission's own coverage probability",
                        {"day": day, "method": m, "emission": [site, eqg, comp, eid, rep, start],
                         "own_probability": own_p, "draws": draws, "stored": after})
            if after is not None and ((own_p == 0.0 and after != 0) or (own_p == 1.0 and after != 1)):
                add("C05:wholerun:coverage:outcome-impossible-for-own-probability",
                    "stored spatial coverage contradicts the emission's own coverage probability",
                    {"day": day, "method": m, "emission": [site, eqg, comp, eid, rep, start],
                     "own_probability": own_p, "stored": after})
            if key in stored:
                stats["sticky_reuse"] += 1
                if before != stored[key] or after != stored[key]:
                    add("C05:wholerun:sticky:spatial-coverage-changed-during-run",
                        "stored spatial coverage of an emission for a method changed during the simulation",
                        {"day": day, "method": m, "emission": [site, eqg, comp, eid, rep, start],
                         "first": stored[key], "before": before, "after": after})
            else:
                if before is not None:
                    add("C05:wholerun:sticky:spatial-coverage-changed-during-run",
                        "first observed check finds an outcome stored that no observed roll produced",
                        {"day": day, "method": m, "emission": [site, eqg, comp, eid, rep, start], "before": before})
                stored[key] = after
            if after is None or (before is not None and after != before):
                add("C05:wholerun:sticky:spatial-coverage-changed-during-run",
                    "check_spatial_cov replaced / did not store an outcome",
                    {"day": day, "method": m, "before": before, "after": after})
            pend_cov.setdefault(m, []).append(e)
        elif kind == "c05tcov":
            pend_t[(e[2], e[3])] = e[4]
        elif kind == "detect":
            pend_det.setdefault(e[5], []).append(e)
        elif kind == "c05rep":
            (_, day, m, site, level, mdl_f, st, sm, units, ret) = e
            stats["surveys"] += 1
            mc = methods_cfg.get(m)
            if mc is not None and float(mc["mdl"]) != mdl_f:
                add("C05:wholerun:mdl:sensor-uses-another-limit-than-configured",
                    "the sensor of a method works with another detection limit than configured for this run",
                    {"survey": [day, m, site], "sensor": mdl_f, "configured": float(mc["mdl"])})
                mdl_f = float(mc["mdl"])
            mdl = Fraction(mdl_f)
            covs = pend_cov.pop(m, [])
            vis = []
            for c in covs:
                (_, cday, _, csite, ceqg, ccomp, k, eid, rep, start, rate, before, after, emitting_flag) = c[:14]
                # "currently emitting" from the configured on / off cycle of the emission's source and its first
                # active day, not from the emission's own is_emitting()
                from harness.adapters.sensor import emitting_pattern

                cyc = source_cycle(sources_cfg, ccomp, rep)
                if cyc is None and len(c) > 17 and c[17][3] is not None:
                    cyc = (False, int(c[17][3]), int(c[17][4]))
                elif cyc is None:
                    cyc = (True, 1, 0)
                emitting = True if cyc[0] else emitting_pattern(start, cyc[1], cyc[2], cday)
                if emitting != emitting_flag:
                    stats["emitting_flag_differs_from_cycle"] += 1
                if not cyc[0] and cyc[2] == 0 and not emitting:
                    stats["pause_day_of_zero_inactive"] += 1
                if csite != site or cday != day:
                    add("C05:wholerun:scope:emission-of-another-site-examined",
                        "a survey examined an emission outside the surveyed site", {"survey": [day, m, site], "cov": c})
                t = pend_t.pop((m, k), None)
                if after == 1 and emitting and t == 1:
                    vis.append(c)
                    stats["visible"] += 1
                elif after != 1:
                    stats["hidden_spatial"] += 1
                elif not emitting:
                    stats["hidden_off"] += 1
                else:
                    stats["hidden_temporal"] += 1
                if t is not None and not (after == 1 and emitting):
                    add("C05:wholerun:visible:temporal-roll-for-uncovered-or-silent-emission",
                        "temporal roll drawn for an emission outside spatial coverage / not emitting",
                        {"survey": [day, m, site], "cov": c})
            if vis:
                stats["surveys_with_visible"] += 1

            def vrate(pred):
                return sum((Fraction(c[10]) for c in vis if pred(c)), Fraction(0))

            scale = "component" if level.startswith("component") else "equipment-group" if level.startswith("equip") else "site"
            unit_list = []
            if scale == "site":
                unit_list.append((("site", None), vrate(lambda c: True), st, sm))
            else:
                for (ueqg, ucomp, ut, um) in units:
                    if scale == "component" and ucomp is not None:
                        vr = vrate(lambda c, g=ueqg, cc=ucomp: c[4] == g and c[5] == cc)
                    else:
                        vr = vrate(lambda c, g=ueqg: c[4] == g)
                    unit_list.append(((ueqg, ucomp), vr, ut, um))
            rep_units = {}
            any_ok = False
            for (uk, vr, ut, um) in unit_list:
                rep_units[uk] = (vr, um)
                mm_ = Fraction(um)
                d = {"survey": [day, m, site], "unit": list(uk), "visible_rate": float(vr), "reported_true": ut,
                     "measured": um, "mdl": mdl_f}
                if mm_ < 0:
                    add("C05:wholerun:measured:negative", "negative measured rate in a simulation", d)
                if mm_ != 0 and vr < mdl:
                    add("C05:wholerun:mdl:nonzero-measured-below-mdl:" + scale,
                        "non-zero measured rate although the visible rate of the unit is below the MDL", d)
                if Fraction(ut) != vr:
                    add("C05:wholerun:scale:reported-true-rate-differs-from-visible-rate:" + scale,
                        "reported true rate of a unit is not the summed rate of its visible emissions", d)
                if vr >= mdl and mm_ == 0 and vr > 0 and methods_cfg.get(m, {}).get("qe") == [0.0, 0.0]:
                    add("C05:wholerun:threshold:rate-at-or-above-mdl-not-detected:" + scale,
                        "unit at or above the MDL measured 0 (no quantification error configured)", d)
                if vr >= mdl:
                    any_ok = True
                    if vr > 0:
                        stats["detected_units"] += 1
                elif vr > 0:
                    stats["undetected_nonzero_units"] += 1
            site_vr = vrate(lambda c: True)
            if Fraction(st) != site_vr:
                add("C05:wholerun:scale:reported-true-rate-differs-from-visible-rate:site-total",
                    "site true rate of a survey report is not the summed rate of the visible emissions",
                    {"survey": [day, m, site], "reported": st, "visible_rate": float(site_vr)})
            if Fraction(sm) < 0 or (Fraction(sm) != 0 and not any_ok):
                add("C05:wholerun:mdl:nonzero-measured-below-mdl:site-total",
                    "site measured rate negative / non-zero although no unit reaches the MDL",
                    {"survey": [day, m, site], "measured": sm, "mdl": mdl_f})
            for dv in pend_det.pop(m, []):
                stats["detects"] += 1
                (_, dday, dsite, deqg, dcomp, _, deid, drep) = dv
                ok = any(c[3] == dsite and c[4] == deqg and c[5] == dcomp and c[7] == deid and c[8] == drep for c in vis)
                if not ok or site_vr < mdl or dday != day:
                    add("C05:wholerun:record:detection-record-for-invisible-emission",
                        "a sensor wrote a detection record for an emission that was not visible in that survey / below the MDL",
                        {"survey": [day, m, site], "detect": dv})
            last_rep[(day, m, site)] = {"units": rep_units, "scale": scale, "mdl": mdl}
            reps_open.setdefault((m, site), []).append((day, st, sm))
        elif kind == "c05done":
            (_, day, m, site, complete, in_progress, dtrue, dmeas) = e
            reps = reps_open.pop((m, site), [])
            stats["survey_steps"] += 1
            if not complete:
                if in_progress:
                    stats["steps_left_in_progress"] += 1
                if reps or dmeas != 0:
                    add("C05:wholerun:survey:sensor-consulted-while-the-survey-was-left-in-progress",
                        "a survey step that did not complete the survey consulted the sensor, or the unfinished "
                        "report already carries a measured rate",
                        {"step": [day, m, site], "sensor_reports": reps, "report_measured": dmeas})
            else:
                stats["steps_completing"] += 1
                if len(reps) != 1 or reps[0][0] != day or reps[0][1] != dtrue or reps[0][2] != dmeas:
                    add("C05:wholerun:survey:completed-report-is-not-the-completion-day-reading",
                        "the report of a completed survey is not exactly the one sensor reading taken on the "
                        "completion day",
                        {"step": [day, m, site], "sensor_reports": reps, "report": [dtrue, dmeas]})
        elif kind == "tag":
            (_, day, site, eqg, comp, company, rdelay, n_act) = e
            stats["tags"] += 1
            r = last_rep.get((day, company, site))
            d = {"tag": e}
            if r is None:
                add("C05:wholerun:tag:tag-without-survey-report", "tag request without a survey report of that method, site and day", d)
            elif r["scale"] != "component":
                add("C05:wholerun:tag:non-component-scale-method-tags", "a method that is not component-scale tagged", d)
            else:
                u = r["units"].get((eqg, comp))
                if u is None or u[0] < r["mdl"] or not Fraction(u[1]) > 0:
                    add("C05:wholerun:tag:component-below-mdl-tagged",
                        "tag request for a component whose visible rate is below the MDL / whose measured rate is 0",
                        dict(d, unit=None if u is None else [float(u[0]), u[1]], mdl=float(r["mdl"])))
    return F, stats


def compare_with_baseline(res, prog, sim=0):
    """returns (n_rows, list of differences) between prog's and the baseline's emission records;
    ignored: columns named '<method> Spatial Coverage' (present only where a method exists)"""
    base = res.emissions("P_none", sim)
    rows = res.emissions(prog, sim)
    if base is None or rows is None:
        return 0, [{"problem": "emissions_summary.csv missing", "program": prog}]
    diffs = []

    def index(rs):
        out = {}
        for r in rs:
            out.setdefault(tuple(r.get(k) for k in KEY_COLS), []).append(r)
        return out

    bi, pi = index(base), index(rows)
    if set(bi) != set(pi):
        diffs.append({"problem": "different emission keys", "only_baseline": sorted(set(bi) - set(pi))[:5],
                      "only_program": sorted(set(pi) - set(bi))[:5]})
    def canon(r):
        return tuple(sorted((c, v) for c, v in r.items() if not c.endswith(" Spatial Coverage")))

    for key in sorted(set(bi) & set(pi)):
        # emission ids are per source: a component with several sources can repeat a key, so the rows
        # of one key are compared as multisets
        bl, pl = sorted(map(canon, bi[key])), sorted(map(canon, pi[key]))
        if len(bl) != len(pl):
            diffs.append({"problem": "different number of records", "key": key})
            continue
        for b, p in zip(bl, pl):
            if b != p:
                bd, pd = dict(b), dict(p)
                for col in sorted(set(bd) | set(pd)):
                    if bd.get(col) != pd.get(col):
                        diffs.append({"key": key, "column": col, "baseline": bd.get(col), "program": pd.get(col)})
    return len(rows), diffs


def wholerun_one(args):
    from harness import wholerun as W

    import shutil
    import tempfile

    seed, with_fix = args[0], args[1]
    shape = args[2] if len(args) > 2 else None
    wide = args[3] if len(args) > 3 else None
    pool = bool(shape and shape.get("pool"))
    prior_root = None
    if with_fix == "prior":
        cfg, prior = wholerun_prior_configs(random.Random(seed), shape)
        prior_root = tempfile.mkdtemp(prefix="ldarverif_c05prior_")
        prior["processes"] = 1
        files, _, _ = W.materialize(prior, prior_root)
        cfg["c05_prior_files"] = files
    else:
        cfg = wholerun_config(random.Random(seed), with_fix, shape, wide)
    what_differs = None
    try:
        if shape and shape.get("history"):
            prev, what_differs = find_prev_variant(cfg, seed, shape["history"])
            res = W.run_after(prev, cfg, debug=not pool, processes=2 if pool else 1, trace=True)
        else:
            res = W.run_config(cfg, debug=not pool, processes=2 if pool else 1, trace=True)
    except BaseException:
        if prior_root:
            shutil.rmtree(prior_root, ignore_errors=True)
        raise
    try:
        out = {"seed": seed, "with_fix": with_fix, "shape": shape, "wide": wide, "what_differs": what_differs,
               "prev_rc": getattr(res, "prev_rc", None),
               "wide_applied": cfg.get("wide_applied", []), "n_sims": cfg.get("n_sims", 1), "rc": res.rc,
               "log": res.log[-1500:] if res.rc else "", "programs": {}, "small_thr": None}
        if with_fix and with_fix != "prior":
            out["small_thr"] = cfg["methods"]["ZF_FIX"]["follow_up"]["rolling"]["small_window_threshold"]
        # a crash after the simulations (e.g. in the summary step) still leaves every program's records and
        # trace: they are evaluated whenever the baseline's records exist
        if res.rc == 0 or res.emissions("P_none", 0) is not None:
            for p in cfg["programs"]:
                prog = p["name"]
                if prog == "P_none":
                    continue
                n, diffs, events, findings, stats = 0, [], [], [], None
                for sim in range(cfg.get("n_sims", 1)):
                    n_s, d_s = compare_with_baseline(res, prog, sim)
                    n += n_s
                    diffs += [dict(d, sim=sim) for d in d_s]
                    ev = []
                    for t in res.trace:
                        if t.get("prog") == prog and t.get("sim") == sim:
                            ev = t["events"]
                    f_s, st_s = trace_survey_oracle(ev, cfg["methods"], cfg.get("sources") if cfg.get("granular") else None)
                    events += ev
                    findings += f_s
                    stats = st_s if stats is None else {k: stats[k] + st_s[k] for k in stats}
                out["programs"][prog] = {
                    "rows": n, "diffs": diffs[:20], "n_diffs": len(diffs),
                    "tag_events": sum(1 for e in events if e and e[0] == "tag"),
                    "fuq_events": sum(1 for e in events if e and e[0] == "fuq"),
                    "nonzero_reports": sum(1 for e in events if e and e[0] == "c05rep" and e[7] != 0),
                    "findings": findings, "stats": stats}
        if prior_root:
            out["prior_events"] = sum(len(t["events"]) for t in res.trace if t.get("prog") == "Q_full")
        out["fresh_diffs"] = None
        if what_differs and out["programs"]:
            # the same configuration in a fresh folder that holds only the seed files the second run ended
            # with: whatever the folder held before, the second run's records must be these
            fresh = tempfile.mkdtemp(prefix="ldarverif_c05hist_")
            try:
                gen = os.path.join(res.root, "inputs", "generator")
                os.makedirs(os.path.join(fresh, "inputs", "generator"))
                ok = True
                for f in SEED_FILES:
                    if os.path.exists(os.path.join(gen, f)):
                        shutil.copy(os.path.join(gen, f), os.path.join(fresh, "inputs", "generator", f))
                    else:
                        ok = False
                if ok:
                    r3 = W.run_config(cfg, debug=True, processes=1, trace=False, workdir=fresh)
                    fd = []
                    if r3.rc != 0 and r3.emissions("P_none", 0) is None:
                        out["fresh_problem"] = r3.log[-800:]
                    else:
                        for p in cfg["programs"]:
                            for sim in range(cfg.get("n_sims", 1)):
                                a = _canon_rows(res.emissions(p["name"], sim))
                                b = _canon_rows(r3.emissions(p["name"], sim))
                                if a != b:
                                    fd.append({"program": p["name"], "sim": sim, "rows_second_run": len(a),
                                               "rows_fresh": len(b),
                                               "only_in_second_run": [dict(x) for x in a if x not in b][:2],
                                               "only_in_fresh": [dict(x) for x in b if x not in a][:2]})
                        out["fresh_diffs"] = fd
                else:
                    out["fresh_problem"] = "seed files not found in the generator folder of the history"
            finally:
                shutil.rmtree(fresh, ignore_errors=True)
        return out
    finally:
        res.cleanup()
        if prior_root:
            shutil.rmtree(prior_root, ignore_errors=True)


# ------------------------------------------------------------------------------------------------
# two-run histories on ONE input / generator folder
# ------------------------------------------------------------------------------------------------
HISTORY_KINDS = {       # parameter, value in run 1, value in run 2
    "spatial-1-to-0": ("spatial", 1.0, 0.0),
    "spatial-0-to-1": ("spatial", 0.0, 1.0),
    "temporal-1-to-0": ("temporal", 1.0, 0.0),
    "temporal-0-to-1": ("temporal", 0.0, 1.0),
    "mdl-low-to-1e9": ("mdl", 0.125, 1e9),
    "mdl-1e9-to-low": ("mdl", 1e9, 0.125),
    "spatial-half-to-0": ("spatial", 0.5, 0.0),
}
SEED_FILES = ("emis_preseed.p", "preseed.p")     # constants.file_name_constants.Generator_Files


def history_configs(rng, kind, wide=None):
    """(cfg1, cfg2): one generated world, baseline + one program (OGI, AIR, OGI_FU); the two differ ONLY in one
    coverage / detection-limit parameter of the program's methods"""
    import copy
    from harness import wholerun as W

    nd = rng.choice([120, 200])
    cfg = W.make_config(rng, ndays=nd, wide=wide) if wide else W.make_config(rng, n_sims=1, ndays=nd)
    cfg["n_sims"] = 1
    _c05_sources(cfg)
    names = ["OGI", "AIR", "OGI_FU"]
    par, v1, v2 = HISTORY_KINDS[kind]
    out = []
    for v in (v1, v2):
        c = copy.deepcopy(cfg)
        c["methods"] = {m: copy.deepcopy(cfg["methods"][m]) for m in names}
        for m in names:
            if not wide:
                c["methods"][m].update({"spatial": 1.0, "temporal": 1.0})
            c["methods"][m][par] = v
        c["programs"] = [{"name": "P_none", "methods": []}, {"name": "P_M", "methods": names}]
        c["baseline"] = "P_none"
        c["pre_run_hook"] = TRACE_HOOK
        out.append(c)
    return out[0], out[1]


def _canon_rows(rows):
    return sorted(tuple(sorted(r.items())) for r in (rows or []))


def wholerun_history_one(args):
    """run 1 (configuration 1) and run 2 (configuration 2) on the same input folder, hence the same generator
    folder; run 3 = configuration 2 in a fresh folder that holds only the seed files of the first.
    Clauses, all about run 2: (a) the per-survey C05 oracle against configuration 2 (every surveyed emission
    carries configuration 2's probabilities, detection limit of configuration 2); (b) if configuration 2 cannot
    see anything (coverage 0 / limit 1e9) its program's records equal the baseline's, no tags, no measured rate;
    (c) every program's records equal those of the fresh-folder run."""
    import shutil
    import tempfile
    from harness import wholerun as W

    seed, kind = args[0], args[1]
    wide = args[2] if len(args) > 2 else None
    cfg1, cfg2 = history_configs(random.Random(seed), kind, wide)
    root = tempfile.mkdtemp(prefix="ldarverif_c05hist_")
    fresh = tempfile.mkdtemp(prefix="ldarverif_c05hist_")
    out = {"seed": seed, "kind": kind, "wide": wide, "wide_applied": cfg2.get("wide_applied", []), "findings": [],
           "stats": None, "rows": 0, "problem": None, "run1_tags": 0, "run2_tags": 0}
    try:
        r1 = W.run_config(cfg1, debug=True, processes=1, trace=True, workdir=root)
        if r1.rc != 0 and r1.emissions("P_none", 0) is None:
            out["problem"] = "run 1 stopped: " + r1.log[-1200:]
            return out
        out["run1_tags"] = sum(1 for t in r1.trace if t.get("prog") == "P_M" for e in t["events"] if e and e[0] == "tag")
        r2 = W.run_config(cfg2, debug=True, processes=1, trace=True, workdir=root, keep_inputs=True)
        if r2.rc != 0 and r2.emissions("P_none", 0) is None:
            out["problem"] = "run 2 stopped: " + r2.log[-1200:]
            return out
        gen = os.path.join(root, "inputs", "generator")
        os.makedirs(os.path.join(fresh, "inputs", "generator"))
        for f in SEED_FILES:
            if os.path.exists(os.path.join(gen, f)):
                shutil.copy(os.path.join(gen, f), os.path.join(fresh, "inputs", "generator", f))
            else:
                out["problem"] = "seed file %s not found in the generator folder" % f
                return out
        r3 = W.run_config(cfg2, debug=True, processes=1, trace=False, workdir=fresh)
        if r3.rc != 0 and r3.emissions("P_none", 0) is None:
            out["problem"] = "fresh-folder run stopped: " + r3.log[-1200:]
            return out
        F = []
        ev = []
        for t in r2.trace:
            if t.get("prog") == "P_M":
                ev = t["events"]
        f_s, stats = trace_survey_oracle(ev, cfg2["methods"], cfg2.get("sources") if cfg2.get("granular") else None)
        F += [(sig.replace("C05:wholerun:", "C05:wholerun:second-run:"), what, d) for (sig, what, d) in f_s]
        out["stats"] = stats
        out["run2_tags"] = sum(1 for e in ev if e and e[0] == "tag")
        par, v1, v2 = HISTORY_KINDS[kind]
        blind = (par in ("spatial", "temporal") and v2 == 0.0) or (par == "mdl" and v2 >= 1e9)
        n, diffs = compare_with_baseline(r2, "P_M")
        out["rows"] = n
        nonzero = sum(1 for e in ev if e and e[0] == "c05rep" and e[7] != 0)
        if blind and (diffs or out["run2_tags"] or nonzero):
            F.append(("C05:wholerun:second-run:blind-program-differs-from-baseline",
                      "second run on a used input folder: a program whose methods cannot see anything (%s = %s) has "
                      "emission records that differ from the baseline's / tags / non-zero measured rates" % (par, v2),
                      {"n_diffs": len(diffs), "diffs": diffs[:10], "tags": out["run2_tags"], "nonzero_reports": nonzero}))
        for prog in ("P_none", "P_M"):
            a, b = _canon_rows(r2.emissions(prog, 0)), _canon_rows(r3.emissions(prog, 0))
            if a != b:
                only2 = [dict(x) for x in a if x not in b][:3]
                only3 = [dict(x) for x in b if x not in a][:3]
                F.append(("C05:wholerun:second-run:records-differ-from-fresh-folder-run",
                          "the emission records of the second run on a used input folder differ from those of the same "
                          "configuration and seeds in a fresh folder",
                          {"program": prog, "rows_second_run": len(a), "rows_fresh": len(b),
                           "only_in_second_run": only2, "only_in_fresh": only3}))
        seen = {}
        kept = []
        for f in sorted(F, key=lambda f: 0 if "second-run:blind" in f[0] or "fresh-folder" in f[0] else 1):
            seen[f[0]] = seen.get(f[0], 0) + 1
            if seen[f[0]] <= 2:
                kept.append(f)
        out["findings"] = kept
        return out
    finally:
        shutil.rmtree(root, ignore_errors=True)
        shutil.rmtree(fresh, ignore_errors=True)


def wholerun_oracle(ctx):
    if not WHOLERUN_PRESENT:
        ctx.note("whole-run stages skipped: harness/wholerun.py absent")
        return
    from concurrent.futures import ThreadPoolExecutor

    n = ctx.pick(2, 10)
    # every other configuration with a stationary screening method; the first one with the shipped
    # default small-window threshold 0.0 (whole-run reproduction of the known finding)
    # every third configuration: the zero-coverage world is simulated in a worker process that has already
    # simulated the same world with the same method names at full coverage
    jobs = []
    for i in range(n):
        kind = "default" if i == 0 else "prior" if i % 3 == 1 else i % 2 == 0
        shape = {}
        if i >= 1 and (i % 2 == 1 or not ctx.quick):
            shape["period"] = BOUNDARY_PERIODS[(i + ctx.seed) % len(BOUNDARY_PERIODS)] if i > 1 else \
                ctx.rng.choice(BOUNDARY_PERIODS[1:4] + BOUNDARY_PERIODS[6:])
        if i % 2 == 1:
            shape["reverse"] = True                 # baseline listed (and simulated) last
        if i == 3:
            shape["n_sims"] = 2                      # two simulations in one worker
        if i == 5:
            shape["pool"] = True                     # worker pool instead of the sequential debug mode
            shape["n_sims"] = 2
        jobs.append((ctx.rng.randrange(1 << 30), kind, shape or None, None))
    # "wide" configurations (leaves and boundary values the base generator never produces): the tags that can
    # matter for C05, with a stationary method in the programs so that its coverage / windows are varied too
    if ctx.quick:
        wides = [["coverage", "followup"], ["crews", "workday", "weather", "months", "years", "sims"], True]
    else:
        # "sims-batch": 6 / 7 simulations = more than one batch of five with a partial last batch; every
        # simulation's records are compared (mobile programs only, to keep the run short)
        wides = [[t] for t in C05_WIDE_TAGS] + [["coverage", "followup"], True, True, ["sims-batch"]]
    for i, wd in enumerate(wides):
        jobs.append((ctx.rng.randrange(1 << 30), True if (wd is True or ("sims" not in wd and "sims-batch" not in wd)) else False, None, wd))
    # surveys that span days while visibility changes (site survey time above the workday, temporal coverage 1/2,
    # an intermittent source): what a completed survey reports must be the completion day's reading
    for i in range(ctx.pick(1, 3)):
        jobs.append((ctx.rng.randrange(1 << 30), False, {"multiday": True}, None))
    # every day of the on / off cycle of an intermittent source with inactive_duration 0 surveyed (daily stationary
    # surveys + monthly component-scale surveys)
    for i in range(ctx.pick(1, 2)):
        jobs.append((ctx.rng.randrange(1 << 30), True, {"cycle": True}, None))
    # "history": the configuration is run in a folder in which a variant with ONE defining leaf changed
    # (harness/wholerun.prev_variant) was run before; every oracle is applied to the second run against ITS cfg
    hk = ["period-start", "site-count", "coverage", "mdl"]
    for i in range(ctx.pick(1, 4)):
        jobs.append((ctx.rng.randrange(1 << 30), False, {"history": hk[(i + ctx.seed) % 4]}, None))
    kinds = sorted(HISTORY_KINDS)
    n_hist = ctx.pick(1, 5)
    # quick: the covered-then-blind history; thorough: that one plus four others chosen by the seed
    hwide = ["followup", "crews", "workday", "weather", "months", "years"]
    hjobs = [(ctx.rng.randrange(1 << 30), "spatial-1-to-0" if i == 0 else kinds[(i + ctx.seed) % len(kinds)],
              hwide if i >= 3 else None) for i in range(n_hist)]
    with ThreadPoolExecutor(max_workers=min(len(jobs) + n_hist, max(1, (os.cpu_count() or 2) - 4), 12)) as ex:
        hfut = [ex.submit(wholerun_history_one, j) for j in hjobs]
        outs = list(ex.map(wholerun_one, jobs))
        houts = []
        for j, f in zip(hjobs, hfut):
            try:
                houts.append(f.result())
            except (Exception, SystemExit) as e:
                houts.append({"seed": j[0], "kind": j[1], "wide": j[2], "wide_applied": [], "findings": [],
                              "stats": None, "rows": 0,
                              "problem": "harness/worker raised: " + _tb(e), "run1_tags": 0, "run2_tags": 0})
    for h in houts:
        inp = {"stage": "wholerun_history", "seed": h["seed"], "kind": h["kind"], "wide": h.get("wide"),
               "wide_applied": h.get("wide_applied")}
        ctx.count("wholerun-history:" + h["kind"])
        if h.get("wide"):
            ctx.count("wide:history-runs")
            for a in h.get("wide_applied", []):
                ctx.count("wide:applied:%s:%s=%s" % (a["tag"], ".".join(map(str, a["path"][1:])), json.dumps(a["value"])))
        if h["problem"]:
            ctx.broke("whole-run history (%s, seed %d) could not be evaluated" % (h["kind"], h["seed"]), h["problem"])
            ctx.disagree("wholerun.history", inp, "three runs complete", h["problem"][-300:])
            continue
        ctx.traces += 1
        ctx.evaluations += h["rows"] + (h["stats"]["surveys"] if h["stats"] else 0)
        ctx.count("wholerun-history:rows-compared", h["rows"])
        ctx.count("wholerun-history:surveys-of-second-run-checked", h["stats"]["surveys"] if h["stats"] else 0)
        ctx.count("wholerun-history:tags-in-run-1", h["run1_tags"])
        ctx.count("wholerun-history:tags-in-run-2", h["run2_tags"])
        if h["run1_tags"] or h["run2_tags"]:
            ctx.nontrivial.add(("wholerun-history", h["kind"], min(h["run1_tags"], 3), min(h["run2_tags"], 3)))
        for (sig, what, detail) in h["findings"]:
            ctx.violate(sig, what, dict(inp, finding=detail))
    for out in outs:
        ctx.count("wholerun:configs")
        inp = {"stage": "wholerun", "seed": out["seed"], "with_fix": out["with_fix"], "shape": out.get("shape"),
               "wide": out.get("wide"), "wide_applied": out.get("wide_applied")}
        ctx.count("wholerun:shape:%s" % json.dumps(out.get("shape"), sort_keys=True))
        if out.get("what_differs"):
            ctx.count("history:%s" % out["what_differs"])
            if out.get("fresh_problem"):
                ctx.broke("whole-run history (%s): fresh-folder run could not be evaluated" % out["what_differs"],
                          out["fresh_problem"])
            elif out.get("fresh_diffs"):
                ctx.violate("C05:wholerun:second-run:records-differ-from-fresh-folder-run",
                            "the emission records of a run in a folder used before (one defining leaf differed: %s) "
                            "differ from those of the same configuration and seeds in a fresh folder"
                            % out["what_differs"],
                            dict(inp, what_differs=out["what_differs"], finding=out["fresh_diffs"][:3]))
            elif out.get("fresh_diffs") is not None:
                ctx.count("history:records-equal-fresh-folder-run")
            if out.get("prev_rc"):
                ctx.count("history:first-run-stopped (second run evaluated)")
        if out.get("wide"):
            ctx.count("wide:runs")
            ctx.count("wide:runs:tags=%s" % ("all" if out["wide"] is True else "+".join(out["wide"])))
            for a in out.get("wide_applied", []):
                ctx.count("wide:applied:%s:%s=%s" % (a["tag"], ".".join(map(str, a["path"][1:])), json.dumps(a["value"])))
            for prog, r in out["programs"].items():
                if r["stats"] and r["stats"]["surveys"] == 0:
                    ctx.count("wide:program-without-a-completed-survey (per-survey clauses have nothing to judge)")
        if out["rc"] != 0 and "KeyError" in out["log"] and "_surveys_this_year" in out["log"] \
                and planner_drops_last_year((out.get("shape") or {}).get("period")):
            ctx.count("wholerun:stopped-by-recorded-C06-finding-F12-keyerror (not evaluated for C05)")
            ctx.note("whole-run seed %d, period %s: the simulator stopped with the KeyError of the recorded C06 "
                     "finding F12 (planner years drop the trailing partial year); configuration not evaluated"
                     % (out["seed"], out["shape"]["period"]))
            continue
        if out["rc"] != 0 and out["programs"] and "summarize_program_outputs" in out["log"] and "IndexError" in out["log"]:
            # recorded C14 finding C14-zero-row-file: the summary step stops on a simulation without any emission
            # (short periods); all simulations have finished, their records and traces are evaluated below
            ctx.count("wholerun:summary-step-stopped-by-recorded-C14-finding-zero-row-file (programs evaluated)")
            ctx.note("whole-run seed %d: summary step stopped (recorded C14 finding zero-row-file); program outputs evaluated"
                     % out["seed"])
        elif out["rc"] != 0:
            # the simulator stopped on a generated configuration: reported as an open obligation with the
            # configuration as input; the other configurations are still evaluated
            ctx.broke("whole-run: simulator exited with %s on a generated configuration" % out["rc"],
                      json.dumps(inp) + "\n" + out["log"])
            ctx.disagree("wholerun.crash", inp, "runs to completion", "exit %s" % out["rc"])
            continue
        ctx.traces += 1
        # ---- metamorphic clause
        for prog, what, sig in (("P_Z", "spatial coverage 0", "C05:wholerun:zero-coverage-program-differs-from-baseline"),
                                ("P_B", "MDL 1e9", "C05:wholerun:unreachable-mdl-program-differs-from-baseline"),
                                ("P_ZF", "spatial coverage 0 (stationary screening)",
                                 "C05:wholerun:zero-coverage-program-differs-from-baseline")):
            r = out["programs"].get(prog)
            if r is None:
                continue
            ctx.evaluations += r["rows"]
            ctx.count("wholerun:rows-compared", r["rows"])
            if r["n_diffs"] or r["tag_events"] or r["nonzero_reports"]:
                ctx.violate(sig, "program whose methods all have %s: emission records differ from the baseline's "
                            "(or tags / non-zero measured rates were produced)" % what,
                            dict(inp, program=prog, n_diffs=r["n_diffs"], diffs=r["diffs"],
                                 tag_events=r["tag_events"], nonzero_reports=r["nonzero_reports"]))
            if r["fuq_events"]:
                # follow-up requests although every measured rate of the program is 0
                if prog == "P_ZF" and out["small_thr"] is not None and out["small_thr"] <= 0:
                    ctx.count("wholerun:known:stationary-flags-with-zero-measured-rate")
                    ctx.violate(SIG_FLAG_STAT, "a stationary method with zero spatial coverage (every measured rate 0) "
                                "queued sites for follow-up in a whole simulation",
                                dict(inp, program=prog, fuq_events=r["fuq_events"], small_window_threshold=out["small_thr"]))
                else:
                    ctx.violate("C05:wholerun:follow-up-requested-with-zero-measured-rate",
                                "a program whose measured rates are all 0 queued follow-up surveys",
                                dict(inp, program=prog, fuq_events=r["fuq_events"]))
        # ---- per-survey clauses on every program of the run
        for prog, r in out["programs"].items():
            for (sig, what, detail) in r["findings"]:
                ctx.violate(sig, what, dict(inp, program=prog, finding=detail))
            st = r["stats"]
            ctx.evaluations += st["surveys"]
            for k, v in st.items():
                ctx.count("wholerun:survey-oracle:" + k, v)
            if st["surveys_with_visible"]:
                ctx.nontrivial.add(("wholerun-surveys", prog, out["seed"] % 5, min(st["tags"], 3), min(st["detects"], 3),
                                    min(st["hidden_spatial"], 3), min(st["hidden_temporal"], 3), min(st["hidden_off"], 3)))
        if out["with_fix"] == "prior":
            ctx.count("wholerun:configs-zero-coverage-after-full-coverage-in-same-process")
            if not out.get("prior_events"):
                ctx.broke("whole-run: the prior full-coverage simulation left no trace", json.dumps(inp))
            continue
        rn = out["programs"]["P_N"]
        if rn["n_diffs"]:
            ctx.count("wholerun:configs-where-normal-program-differs-from-baseline")
            ctx.nontrivial.add(("wholerun", out["seed"] % 7, min(rn["n_diffs"], 3)))
        if len(ctx.samples) < 6:
            ctx.sample({"wholerun_seed": out["seed"], "rows": rn["rows"], "normal_program_diffs": rn["n_diffs"],
                        "zero_coverage_diffs": out["programs"]["P_Z"]["n_diffs"],
                        "mdl_1e9_diffs": out["programs"]["P_B"]["n_diffs"],
                        "survey_oracle_P_N": rn["stats"]})


# ------------------------------------------------------------------------------------------------
def run(ctx):
    ctx.rule = ("component stage: generated infrastructures (2-3 sites, granular, 4 source kinds, 9 methods = 3 scales x "
                "coverage variants incl. 0 and 1), scenes of 0-14 real emissions over 2-6 days with 1-3 surveys a day, "
                "MDL from a dyadic grid or equal to a sum of planned rates, shifts on the 25 % grid (3 predictors); "
                "non-trivial = a survey with at least one visible or hidden (spatial / off / temporal) emission in "
                "scope; distinct by (scale, predictor, #visible, #hidden by cause, #detected units, #undetected "
                "non-zero units, rate == MDL present, shift < -100, tags); whole-run stage: generated configurations, "
                "rows of emissions_summary.csv of zero-coverage / MDL-1e9 programs vs baseline")
    core.lean_stage(ctx, MODULE, FILE, drivers=["drv_sensor"])
    from harness.props import _tie
    _tie.crew_tie(ctx)  # layer 3: survey_site consults the sensor exactly once, on the completing step (CrewTie.survey_site_sensor)
    _tie.emission_tie(ctx)  # layer 3: is_emitting / update / record columns of the emission classes (what 'currently emitting' means)
    if not core.LeanDriver("drv_sensor").available():
        raise core.InfraError("drv_sensor was not built")
    for stage in (coverage_writers_table, component_stage, flag_stage, wholerun_oracle):
        try:
            stage(ctx)
        except (Exception, SystemExit) as e:
            # an unexpected shape of the code under test (an exception out of the real classes, a crash of
            # a whole run, a pattern the extractor does not find) is an open obligation, not a harness
            # failure: it is reported and the remaining stages still search for a failing input
            ctx.broke("stage %s stopped: %s" % (stage.__name__, type(e).__name__), _tb(e))
    ctx.assumptions.append("rates / MDLs on the dyadic grid (unit 1/64 g/s), quantification shifts multiples of 25 % "
                           "(harness-side random source snapped); sensor type 'default' only")


def replay(ctx, data):
    from harness.adapters import sensor as S

    inp = data.get("input", {})
    stage = inp.get("stage")
    if stage == "component":
        world = S.build_world(random.Random(inp["world_seed"]))
        try:
            exact = inp.get("exact", True)
            case = gen_case(world, random.Random(inp["case_seed"]), exact=exact)
            results = run_case(world, case, inp["case_seed"])
            if exact:
                lines = ["reset"] + [r[0] for r in results]
                replies = core.LeanDriver("drv_sensor").run(lines)[1:]
            else:
                replies = [None] * len(results)
            for idx, ((req, rep, res), ml) in enumerate(zip(results, replies)):
                oracle_survey(ctx, res, {"survey_index": idx})
                mark = "<-- recorded failing survey" if idx == inp.get("survey_index") else ""
                print(f"survey {idx} {res.name} scale={res.code} site={res.si} day={res.day} mdl={res.mdl} {mark}")
                if exact:
                    print("  impl :", rep)
                    print("  model:", ml, "" if ml == rep else "   <-- DISAGREE")
                else:
                    print("  unsnapped: site true %r measured %r tags %r" % (
                        res.report.site_true_rate, res.report.site_measured_rate, res.rec.tags))
        finally:
            world.cleanup()
    elif stage == "flag":
        world = S.build_world(random.Random(1))
        try:
            site = world.fresh()._sites[0]
            got = S.flag_decision(site, inp["inst"], inp["thr"], inp["measured"])
            print("follow-up candidate:", got)
            if got and inp["measured"] == 0:
                hyp = inp["inst"] is None or inp["inst"] > 0
                ctx.violate("C05:flag:site-with-zero-measured-rate-enters-follow-up" if hyp else SIG_FLAG_INST, "", inp)
        finally:
            world.cleanup()
    elif stage == "flag_stationary":
        world = S.build_world(random.Random(1))
        try:
            site = world.fresh()._sites[0]
            got = S.flag_decision_stationary(site, inp["small"], inp["large"], inp["measured"])
            print("queued for follow-up, sites_flagged:", got)
            if got[0] and inp["measured"] == 0:
                ctx.violate(SIG_FLAG_STAT if inp["small"] <= 0 else "C05:flag:site-with-zero-measured-rate-queued:stationary",
                            "", inp)
        finally:
            world.cleanup()
    elif stage == "wholerun_history":
        h = wholerun_history_one((inp["seed"], inp["kind"], inp.get("wide")))
        print("history", h["kind"], "rows", h["rows"], "tags run 1 / run 2:", h["run1_tags"], h["run2_tags"],
              "problem:", h["problem"])
        for (sig, what, detail) in h["findings"]:
            print("   ", sig, str(detail)[:300])
            ctx.violate(sig, what, dict(inp, finding=detail))
    elif stage == "wholerun":
        out = wholerun_one((inp["seed"], inp.get("with_fix", False), inp.get("shape"), inp.get("wide")))
        for prog, r in out["programs"].items():
            print(prog, "rows", r["rows"], "diffs", r["n_diffs"], "tags", r["tag_events"], "fuq", r["fuq_events"],
                  "non-zero reports", r["nonzero_reports"], "survey-oracle findings", len(r["findings"]))
            for d in r["diffs"][:5]:
                print("   ", d)
            for f in r["findings"][:5]:
                print("   ", f)
                ctx.violate(f[0], f[1], dict(inp, program=prog))
        if out.get("fresh_diffs"):
            print("records differ from the fresh-folder run:", str(out["fresh_diffs"][:2])[:600])
            ctx.violate("C05:wholerun:second-run:records-differ-from-fresh-folder-run", out.get("what_differs"), inp)
        for prog in ("P_Z", "P_B", "P_ZF"):
            r = out["programs"].get(prog)
            if r and (r["n_diffs"] or r["tag_events"] or r["nonzero_reports"]):
                ctx.violate("C05:wholerun:program-differs-from-baseline", prog, inp)
            if r and r["fuq_events"]:
                known = prog == "P_ZF" and out["small_thr"] is not None and out["small_thr"] <= 0
                ctx.violate(SIG_FLAG_STAT if known else "C05:wholerun:follow-up-requested-with-zero-measured-rate", prog, inp)
    else:
        dis = data.get("correspondence_disagreements") or []
        if dis and dis[0].get("input", {}).get("stage") in ("component", "flag", "flag_stationary") and "input" not in data:
            return replay(ctx, {"input": dis[0]["input"]}) or 1
        print("replay: broken obligation / correspondence:", data.get("broken_obligations"), dis)
        return 1
    for v in ctx.violations:
        known = v["signature"] in (SIG_FLAG_INST, SIG_FLAG_STAT)
        print("oracle%s:" % (" (recorded finding)" if known else ""), v["signature"], "-", v["what"],
              v["input"].get("finding"))
    # a replay fails on what is not a recorded finding of the unchanged tree
    return 1 if any(v["signature"] not in (SIG_FLAG_INST, SIG_FLAG_STAT) for v in ctx.violations) else 0
