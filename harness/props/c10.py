"""C10 — cost accounting: every cost item is charged exactly once, totals add up.

Lean: Props/C10.lean (C10 : C10_statement; cost_type_selection, row_identity, per_site_once,
site_charge_fallback, per_site_once_multiday, per_day_once, upfront_once, upfront_amount,
repair_once, repair_on_repair_day, no_tag_no_repair_cost, no_methods_no_cost).
Tie: real constructors (initialize_cost_tracking) of all four method classes; real
Method.deploy_crews / ComponentLevelMethod.deploy_crews with per-site cost overrides, days where
the last survey exhausts the crew, weather aborts, partial surveys, crew shortage; one survey
carried over several days by the real SurveyPlanner / GenericSchedule.update; real
ProgramOutputManager._init_ts_row / _update_ts_row_w_emis_info / _update_ts_row_w_methods_info; the
first_day wiring read from ldar_sim.py; real RepairableEmission repair-cost booking -- each against
drv_cost.  Oracle: the clauses of the property on the implementation's own outputs.  Whole-run stage:
timeseries cost columns vs wrapper counts (optional, needs harness/wholerun.py).
"""
from __future__ import annotations

import os

from harness import core
from harness.props import _crew_common as CC

MANIFEST_ENTRY = {
    "text": "Lean theorem C10 proves over the cost model built on the crew-day model: the daily row's cost = sum over methods of (deployment cost + upfront on the first day) + the program's own repair cost, natural-repair cost separate (row_identity); a per-site method's deployment cost of a day = sum over the surveys completed that day of the site's survey cost (method cost when the site cost is 0), for every deployment type, crew count and work plan (the four method classes share the loop; that they do is established by the four-class correspondence, not in Lean) incl. surveys that exhaust the crew, weather aborts and partial surveys (per_site_once), and exactly once over the days of a resumed survey (per_site_once_multiday); per-day methods pay unit cost x deployed crews, stationary x planned sites (per_day_once); over a run the upfront cost x crews is contained exactly once (upfront_once, upfront_amount) and is a function of the method parameters alone however many methods were built before from the same dict (upfront_frame); each program repair books its cost exactly once, on the day the leak turns repaired, natural repairs go to the other column (repair_once, repair_on_repair_day), and at program level the repair column of the rows sums over a run to the costs of exactly the leaks the program repaired (program_repairs_once); one step of the multi-day charge model is deployDay on that day's one-request plan (surveyCostRun_step_is_deployDay); a program without methods costs nothing (no_methods_no_cost); table obligation cost_no_cross_case_state (regenerated from /repo every run: only the two read-only dispatch tables are class-level containers, nothing shared is mutated or cached, known pickle hooks only); same-process history with colliding method names/site ids/dates in both orders and in a fresh process, construction sequences from one shared properties dict, multi-valued repair-cost lists, debug and pool mode whole runs. The model follows the code after two fix: commits (component-level per-site charge on completion; stationary component-level daily cost per planned site). Tied on every run to the real constructors, deploy_crews of all four method classes, the real row functions, the first_day wiring read from ldar_sim.py, and the real repair booking; the clauses are evaluated directly on implementation outputs; whole simulations compare timeseries cost columns with wrapper counts. Layer 3 (every run): Method.survey_site (with _determine_if_site_survey_can_be_completed) is translated from the current source to Lean (harness/extract/py2lean.py, crew_src.py -> Generated/CrewSrc.lean) and Props/CrewTie.lean is re-checked: report, crew minutes, returned values and dates after the translated call are Crew.surveyStep / applyStep for all inputs; a method outside the translated subset is a note, a failing tie theorem a broken obligation. The EmisInfo repair counters of the translated emission classes (Props/EmissionTie.lean: RE_update_info ...) are re-checked the same way.",
    "design_ref": "DESIGN.md 5.10, 4.2, 4.1",
    "note": "trusted: Lean kernel + propext/Classical.choice/Quot.sound; hand-written model tied by sampled/exhaustive correspondence; harness adapters and stubs; costs are integers in the model (integer-valued floats are exact in the implementation); sampled repair cost lists (random.choice) are inputs; CSV float formatting (%.5f) of the timeseries is outside; 'monitored site-day' = planned site-day of a stationary method (DESIGN 5.10); 'deployed crew-day' = a crew sent to at least one site with workable weather, also when it then has no time left to travel (method.py:343-344 sets site_visit before the time test)",
    "technique": "Lean 4 proofs over the cost/crew/emission models + differential correspondence with the real classes + direct oracle (+ whole-run trace oracle)",
}

def C_configured(case):
    from harness.adapters import crew as C
    from harness.adapters import cost as K

    return C.configured_crews(K.mday_case_to_day(case)[0])


def C_req_json(q):
    from harness.adapters import crew as C

    return C.req_json(q)


def C_req_from_json(q):
    from harness.adapters import crew as C

    return C.req_from_json(q)


MODULE = "LdarModel.Props.C10"
FILE = "LdarModel/Props/C10.lean"


# ------------------------------------------------------------------------------------------------
# generators
# ------------------------------------------------------------------------------------------------
def random_mday(rng, size):
    d = CC.random_day(rng, size)
    (cls, stationary, cost_type, unit_cost, budget, crews, cw, reqs, upfront) = d[:9]
    opts = d[9] if len(d) > 9 else {}
    kind = rng.random()
    if kind < 0.45:
        per_day, per_site = 0, rng.choice([5, 50, 200])
    elif kind < 0.8:
        per_day, per_site = rng.choice([10, 1000]), rng.choice([None, 0, 7])
    elif kind < 0.9:
        per_day, per_site = 0, rng.choice([None, 0, -1])
    else:
        per_day, per_site = rng.choice([-1, 0]), rng.choice([3, 64])
    if not stationary and crews == 0:
        crews = 1
        opts = {k: v for k, v in opts.items() if k != "estimate"}
    return (cls, stationary, per_day, per_site, upfront, budget, crews, cw, reqs, opts)


def f5_family(rng):
    """the shapes named in the property text: last survey exhausts the crew, weather abort,
    partial survey, site-specific cost override -- for each class"""
    out = []
    for cls in CC.CLASSES:
        for T in (0, 15, 30):
            for scost in (0, 75):
                out.append((cls, False, 0, 50, 100, 480, 1, False, [(0, 480 - 2 * T, 0, False, 0, T, scost, (15, 1, 0))]))
                out.append((cls, False, 0, 50, 100, 480, 1, True, [(0, 60, 0, False, 0, T, scost, (15, 1, 9))]))
                out.append((cls, False, 0, 50, 100, 480, 1, False, [(0, 900, 0, False, 0, T, scost, (15, 1, 0))]))
                out.append((cls, False, 0, 50, 100, 480, 2, True,
                            [(0, 480 - 2 * T, 0, False, 0, T, scost, (15, 1, 0)), (1, 60, 0, False, 0, T, 0, (15, 1, 0)),
                             (2, 60, 0, False, 0, T, 20, (30, 1, 0)), (3, 700, 100, True, T, T, 0, (15, 1, 0)),
                             (4, 30, 0, False, 0, T, 0, (15, 1, 0))]))
        for n in (0, 1, 3):
            out.append((cls, True, 2, None, 1024, 1440, 1, True,
                        [(i, 0, 0, False, 0, 0, 0, (15, 1, 0) if i % 2 == 0 else (15, 1, 9)) for i in range(n)]))
    return out


# ------------------------------------------------------------------------------------------------
# oracles
# ------------------------------------------------------------------------------------------------
def expected_select(per_day, per_site):
    if per_day > 0:
        return ("day", per_day)
    if per_site is not None and per_site > 0:
        return ("site", per_site)
    return ("day", 0)


def oracle_mday(ctx, case, r):
    (cls, stationary, per_day, per_site, upfront, budget, crews, cw, reqs) = case[:9]
    inp = {"mday": [cls, stationary, per_day, per_site, upfront, budget, crews, cw, [C_req_json(q) for q in reqs]] + list(case[9:]),
           "impl": {"cost": r.stats.deployment_cost, "reports": {k: list(v) for k, v in r.reports.items()},
                    "crews": [list(c) for c in r.crews]}}
    ct, unit = expected_select(per_day, per_site)
    if (r.cost_type, r.unit_cost) != (ct, unit):
        ctx.violate("C10:select:wrong-cost-type", "cost type / unit cost not as the cost parameters say", inp)
        return
    # crews by the CONFIGURATION (crew_count; documented estimate only for crew_count 0), not by the object
    n_crews = C_configured(case)
    if len(r.crews) != n_crews:
        ctx.violate("C10:crews:method-has-other-than-configured-crews",
                    "the method was built with a number of crews different from the configured crew_count: upfront and "
                    "crew-day costs are charged for crews the operator does not have", inp)
    if r.upfront != upfront * n_crews:
        ctx.violate("C10:upfront:not-upfront-times-crews", "method's upfront cost != configured upfront x crews", inp)
    by_site = {("s%d" % q[0]): q for q in reqs}
    got = r.stats.deployment_cost
    if ct == "site":
        exp = 0
        for sid, rep in r.reports.items():
            if rep[3]:
                q = by_site[sid]
                exp += q[6] if q[6] != 0 else unit
        if got != exp:
            tr = {t["site"]: t for t in r.trace}
            exhausted = any(rep[3] and tr.get(sid) and tr[sid]["last"] for sid, rep in r.reports.items())
            uncompleted_visit = any((not rep[3]) and sid in tr for sid, rep in r.reports.items())
            if got < exp and exhausted:
                sig = "C10:per_site:completed-survey-not-charged:crew-exhausted"
            elif got > exp and uncompleted_visit:
                sig = "C10:per_site:charged-without-completion"
            else:
                sig = "C10:per_site:other"
            ctx.violate(sig, "per-site deployment cost != sum of site costs of the surveys completed that day "
                             "(got %s, expected %s)" % (got, exp), inp)
    else:
        if stationary:
            exp = unit * len(reqs)
            if got != exp:
                ctx.violate("C10:per_day:stationary-not-per-planned-site",
                            "stationary per-day cost != unit cost x planned sites (got %s, expected %s)" % (got, exp), inp)
        else:
            # "deployed crew-day" (reading recorded for DESIGN 5.10): a crew that was sent to at least one
            # site whose weather allowed work, even if it then had no time left to travel there.  Computed
            # from the case's weather and the crew assignment, not from the code's site_visit flag.
            deployed = {t["crew"] for t in r.trace if CC.model_workable(_as_day(case), by_site[t["site"]])}
            idle = {c for c in deployed if all(t["travel"] == 0 and t["after"][0] == t["before"][0] and not t["after"][3]
                                               for t in r.trace if t["crew"] == c)}
            if idle:
                ctx.count("mday:crew-deployed-without-travel")
            exp = unit * len(deployed)
            if got > unit * n_crews and unit > 0:
                ctx.violate("C10:per_day:more-crew-days-than-configured-crews",
                            "per-day cost charges more crew-days than the method has crews by its configuration "
                            "(got %s, configured crews %s x %s)" % (got, n_crews, unit), inp)
            if got != exp:
                ctx.violate("C10:per_day:not-per-deployed-crew",
                            "per-day cost != unit cost x crews that visited a site (got %s, expected %s)" % (got, exp), inp)


def _as_day(case):
    """cost case -> the positions `_crew_common.model_workable` reads (index 6 = consider_weather)"""
    return (case[0], case[1], None, None, case[5], case[6], case[7], case[8])


def oracle_row(ctx, first, ms, rep, nat, res):
    inp = {"row": [first, [list(m) for m in ms], rep, nat], "impl": [res[0], res[1], res[2], list(res[3])]}
    exp = sum(d + (u if first else 0) for (d, u) in ms) + rep
    if res[0] != exp:
        ctx.violate("C10:row:cost-not-sum", "daily cost != sum of deployment costs (+ upfront on the first day) + repair cost", inp)
    if res[1] != rep or res[2] != nat:
        ctx.violate("C10:row:repair-columns", "repair / natural repair cost columns altered", inp)
    if list(res[3]) != [d + (u if first else 0) for (d, u) in ms]:
        ctx.violate("C10:row:method-columns", "per-method deployment cost column wrong", inp)


def oracle_prog(ctx, days, rows):
    inp = {"prog": [[[list(m) for m in ms], rep, nat] for (ms, rep, nat) in days], "impl": [r[0] for r in rows]}
    total = sum(r[0] for r in rows)
    exp = sum(u for (_, u) in days[0][0]) + sum(sum(d for (d, _) in ms) + rep for (ms, rep, nat) in days)
    if total != exp:
        ctx.violate("C10:upfront:not-exactly-once", "sum of daily costs over the run != deployment + repair + upfront once", inp)


def oracle_repair(ctx, case, per_day, status, em):
    (start, nrd, delay, n, cost, events) = case[:6]
    inp = {"repair": [start, nrd, delay, n, cost, [list(e) for e in events]] + list(case[6:]),
           "impl": [[a, b] for (a, b, _, _) in per_day], "status": status[-1] if status else None}
    from harness.adapters import cost as K

    rep_total = sum(a for (a, _, _, _) in per_day)
    nat_total = sum(b for (_, b, _, _) in per_day)
    # expectation from the emission's output record (status, tagged by, repair date), not from its
    # private bookkeeping
    (st_out, by, rep_day) = K.repair_summary(em, n)
    repaired = st_out == "repaired"
    prog = repaired and by not in (None, "natural", "N/A", "")
    natural = repaired and by == "natural"
    costs = list(cost) if isinstance(cost, (list, tuple)) else [cost]
    inp["record"] = [st_out, str(by), rep_day]
    if (prog and rep_total not in costs) or (not prog and rep_total != 0) or \
            (natural and nat_total not in costs) or (not natural and nat_total != 0):
        ctx.violate("C10:repair:not-once", "repair cost booked != once per program repair / natural repair cost mixed in", inp)
        return
    for k, (a, b, _, _) in enumerate(per_day):
        on_repair_day = repaired and rep_day is not None and k == rep_day - 1
        if (a != 0 or b != 0) and not on_repair_day:
            ctx.violate("C10:repair:wrong-day", "repair cost booked on a day other than the day before the record's repair date", inp)
            return
        if on_repair_day and 0 not in costs and a == 0 and b == 0:
            ctx.violate("C10:repair:wrong-day", "nothing booked on the repair day of a repaired leak", inp)
            return


# ------------------------------------------------------------------------------------------------
# stages
# ------------------------------------------------------------------------------------------------
def stage_select(ctx):
    from harness.adapters import cost as K

    cases = []
    for pd in (-1, 0, 2, 10):
        for ps in (None, -1, 0, 3, 50):
            for up in (0, 100):
                for st in (False, True):
                    for crews in (1, 3):
                        cases.append((pd, ps, up, st, crews))
    model = core.LeanDriver("drv_cost").run([K.select_line(*c) for c in cases])
    for c, ml in zip(cases, model):
        for cls in CC.CLASSES:
            res = K.impl_select(*c, cls=cls)
            ctx.evaluations += 1
            if K.select_reply(res) != ml:
                ctx.disagree("cost.select/" + cls, {"select": list(c)}, ml, K.select_reply(res))
            ct, unit = expected_select(c[0], c[1])
            if (res[0], res[1]) != (ct, unit):
                ctx.violate("C10:select:wrong-cost-type", "cost type / unit cost not as the cost parameters say", {"select": list(c), "cls": cls})
            if res[2] != c[2] * (1 if c[3] else c[4]):
                ctx.violate("C10:upfront:not-upfront-times-crews", "upfront cost != upfront x crews", {"select": list(c), "cls": cls})
            ctx.nontrivial.add(("select", res[0], res[1] > 0, c[3]))
    ctx.traces += len(cases)


def stage_constructs(ctx):
    """several real Method objects built one after another from the SAME properties dict, as
    SimulationManager._setup_programs does for every program of every simulation: each must report
    upfront x its crews, and the cost block must come out deep-equal to what went in"""
    from harness.adapters import cost as K

    cases = []
    for _ in range(ctx.pick(250, 4000)):
        nb = ctx.rng.randint(2, 5)
        same = ctx.rng.random() < 0.6
        b0 = (ctx.rng.choice(CC.CLASSES), ctx.rng.random() < 0.2, ctx.rng.choice([1, 2, 3, 5]))
        builds = [b0 if same else (ctx.rng.choice(CC.CLASSES), ctx.rng.random() < 0.2, ctx.rng.choice([1, 2, 3, 5]))
                  for _ in range(nb)]
        kind = ctx.rng.random()
        per_day, per_site = (0, ctx.rng.choice([5, 50])) if kind < 0.5 else (ctx.rng.choice([10, 1000]), ctx.rng.choice([None, 0, 7]))
        cases.append((per_day, per_site, ctx.rng.choice([0, 100, 3000]), builds))
    cases.append((0, 50, 3000, [("component", False, 3)] * 4))
    model = core.LeanDriver("drv_cost").run([K.constructs_line(*c) for c in cases])
    for c, ml in zip(cases, model):
        res = K.impl_constructs(*c)
        ctx.evaluations += 1
        (ups, before, after) = res
        inp = {"constructs": [c[0], c[1], c[2], [list(b) for b in c[3]]], "impl": {"upfront_costs": ups, "cost_block_before": before, "cost_block_after": after}}
        try:
            il = K.constructs_reply(res)
        except AssertionError:
            il = "non-integer"
        if il != ml:
            ctx.disagree("cost.constructs", {"constructs": inp["constructs"]}, ml, il)
        exp = [c[2] * (1 if st else n) for (_, st, n) in c[3]]
        if list(ups) != exp:
            ctx.violate("C10:upfront:depends-on-earlier-constructions",
                        "methods built one after another from the same parameters do not all report upfront x crews", inp)
        if before != after:
            ctx.violate("C10:upfront:method-parameters-modified", "constructing a method changed the shared cost parameters", inp)
        ctx.nontrivial.add(("constructs", c[2] > 0, len(c[3]), len(set(c[3])) == 1, max(n for (_, _, n) in c[3]) > 1))
    ctx.traces += len(cases)


def stage_mday(ctx):
    from harness.adapters import cost as K

    cases = f5_family(ctx.rng)
    for size, n in (("tiny", ctx.pick(4000, 100000)), ("small", ctx.pick(4000, 100000)), ("big", ctx.pick(500, 12000))):
        cases += [random_mday(ctx.rng, size) for _ in range(n)]
    model = core.LeanDriver("drv_cost").run([K.mday_line(c) for c in cases])
    for c, ml in zip(cases, model):
        r = K.impl_mday(c)
        il = K.mday_reply(r)
        ctx.evaluations += 1
        if il != ml:
            ctx.disagree("cost.mday/" + c[0], {"mday": [c[0], c[1], c[2], c[3], c[4], c[5], c[6], c[7],
                                                        [C_req_json(q) for q in c[8]]] + list(c[9:])}, ml, il)
            ctx.count("disagree")
        oracle_mday(ctx, c, r)
        exhausted = any(t["last"] and t["after"][3] for t in r.trace)
        aborted = any(not t["visited"] for t in r.trace)
        partial = any(rep[4] and not rep[3] for rep in r.reports.values())
        done = sum(1 for rep in r.reports.values() if rep[3])
        override = any(q[6] != 0 and r.reports["s%d" % q[0]][3] for q in c[8])
        ctx.count("mday:" + r.cost_type + (":stationary" if c[1] else ""))
        if exhausted:
            ctx.count("mday:last-survey-exhausts-crew")
        if aborted:
            ctx.count("mday:weather-abort")
        if partial:
            ctx.count("mday:partial-survey")
        if override:
            ctx.count("mday:site-cost-override-charged")
        if c[8]:
            ctx.nontrivial.add(("mday", c[0], c[1], r.cost_type, exhausted, aborted, partial, min(done, 3), override))
    ctx.traces += len(cases)
    for c in cases[:2]:
        ctx.sample({"mday": K.mday_line(c)})


def stage_multiday(ctx):
    from harness.adapters import cost as K

    cases = [CC.random_multiday(ctx.rng) for _ in range(ctx.pick(1500, 30000))]
    cases += [CC.random_multiday(ctx.rng, big=True) for _ in range(ctx.pick(300, 6000))]
    charge = 50
    model = core.LeanDriver("drv_cost").run([K.mcost_line(S, st, charge, days) for (S, st, days) in cases])
    k = 0
    for (S, st, days), ml in zip(cases, model):
        cls = CC.CLASSES[k % 4]
        k += 1
        res = K.impl_mcost(S, st, charge, days, cls=cls)
        ctx.evaluations += 1
        if K.mcost_reply(res) != ml:
            ctx.disagree("cost.multiday/" + cls, {"mcost": [S, st, charge, [list(d) for d in days]], "cls": cls}, ml, K.mcost_reply(res))
        total, complete, per_day = res
        if total != (charge if complete else 0):
            sig = "C10:per_site:double-charge-on-resume" if total > charge else "C10:per_site:multiday-other"
            ctx.violate(sig, "over the days of one survey the site was not charged exactly once at completion",
                        {"mcost": [S, st, charge, [list(d) for d in days]], "cls": cls, "per_day": per_day})
        worked = sum(1 for d in days if d[2] and d[3])
        ctx.nontrivial.add(("mcost", cls, st, complete, min(worked, 4)))
    ctx.traces += len(cases)


def stage_rows(ctx):
    from harness.adapters import cost as K

    rows = []
    for _ in range(ctx.pick(3000, 60000)):
        n = ctx.rng.choice([0, 1, 1, 2, 3, 5])
        ms = [(ctx.rng.choice([0, 5, 64, 1000]), ctx.rng.choice([0, 0, 512, 2500])) for _ in range(n)]
        names = ctx.rng.sample(CC.METHOD_NAMES, n) if ctx.rng.random() < 0.6 else None
        rows.append((ctx.rng.random() < 0.5, ms, ctx.rng.choice([0, 0, 200, 448]), ctx.rng.choice([0, 200, 64]), names))
    model = core.LeanDriver("drv_cost").run([K.row_line(*r[:4]) for r in rows])
    for r, ml in zip(rows, model):
        res = CC.guarded(ctx, "cost.row", {"row": [r[0], [list(m) for m in r[1]], r[2], r[3]], "names": r[4]},
                         lambda: K.impl_row(r[0], r[1], r[2], r[3], names=r[4]))
        if res is None:
            continue
        ctx.evaluations += 1
        if K.row_reply(res) != ml:
            ctx.disagree("cost.row", {"row": [r[0], [list(m) for m in r[1]], r[2], r[3]]}, ml, K.row_reply(res))
        oracle_row(ctx, r[0], r[1], r[2], r[3], res)
        ctx.nontrivial.add(("row", r[0], min(len(r[1]), 3), r[2] > 0, r[3] > 0))
        if not r[1] and r[2] == 0:
            ctx.count("row:no-methods")
            if res[0] != 0:
                ctx.violate("C10:no-methods:cost-nonzero", "a program without methods (and hence without repairs) has a non-zero daily cost",
                            {"row": [r[0], [], r[2], r[3]]})
    # whole programs: first_day wiring read from ldar_sim.py
    try:
        K.first_day_flags(3)
    except RuntimeError as e:
        ctx.broke("wiring: include_upfront_cost=first_day in LdarSim.run_simulation", str(e))
        return
    progs = []
    for _ in range(ctx.pick(800, 15000)):
        nd = ctx.rng.randint(1, 6)
        nm = ctx.rng.choice([0, 1, 2, 3])
        ups = [ctx.rng.choice([0, 512, 2500]) for _ in range(nm)]
        days = [([(ctx.rng.choice([0, 5, 64, 1000]), ups[i]) for i in range(nm)],
                 ctx.rng.choice([0, 0, 200]), ctx.rng.choice([0, 64])) for _ in range(nd)]
        progs.append(days)
    model = core.LeanDriver("drv_cost").run([K.prog_line(d) for d in progs])
    for days, ml in zip(progs, model):
        res = K.impl_prog(days)
        ctx.evaluations += 1
        if K.prog_reply(res) != ml:
            ctx.disagree("cost.prog", {"prog": [[[list(m) for m in ms], rep, nat] for (ms, rep, nat) in days]}, ml, K.prog_reply(res))
        oracle_prog(ctx, days, res)
        ctx.nontrivial.add(("prog", min(len(days), 3), min(len(days[0][0]), 2), any(u for (_, u) in days[0][0])))
    ctx.traces += len(rows) + len(progs)


def repair_boundary_cases():
    """structured exhaustive core: one tag event (or none) at every timing relative to start, natural
    end and horizon"""
    for n in range(1, 9):
        for start in range(-7, n + 1):
            for nrd in range(1, 7):
                for delay in (0, 1, 2, 3):
                    for tag in [None] + list(range(n)):
                        yield (start, nrd, delay, n, [] if tag is None else [(tag, 1, 0)])


def stage_repair(ctx):
    from harness.adapters import cost as K
    cases = []
    core_cases = list(repair_boundary_cases())
    ctx.rng.shuffle(core_cases)
    for (start, nrd, delay, n, evs) in core_cases[: ctx.pick(5000, 80000)]:
        cases.append((start, nrd, delay, n, ctx.rng.choice([200, 64, 0]), evs))
    for _ in range(ctx.pick(3000, 80000)):
        big = ctx.rng.random() < 0.1
        n = ctx.rng.randint(20, 200) if big else ctx.rng.randint(1, 9)
        nrd = ctx.rng.randint(1, 250) if big else ctx.rng.randint(1, 7)
        start = ctx.rng.randint(-nrd, n) if big else ctx.rng.randint(-8, n)
        delay = ctx.rng.choice([0, 1, 2, 7, 14, 30]) if big else ctx.rng.randint(0, 3)
        evs = sorted((ctx.rng.randrange(n), ctx.rng.randint(1, 3), ctx.rng.choice([0, 0, 1, 2, 3]))
                     for _ in range(ctx.rng.choice([0, 1, 1, 1, 2, 3])))
        cases.append((start, nrd, delay, n, ctx.rng.choice([200, 64]), evs))
    # intermittent repairable leaks (on/off cycles): the booking must not depend on the emitting state
    for k in range(len(cases)):
        if ctx.rng.random() < 0.35:
            cases[k] = cases[k] + (True, ctx.rng.randint(1, 4), ctx.rng.randint(1, 4))
    model = core.LeanDriver("drv_cost").run([K.repair_line(*c) for c in cases])
    for c, ml in zip(cases, model):
        got = CC.guarded(ctx, "cost.repair", {"repair": [c[0], c[1], c[2], c[3], c[4], [list(e) for e in c[5]]] + list(c[6:])},
                         lambda: K.impl_repair(*c))
        if got is None:
            continue
        per_day, status, em = got
        ctx.evaluations += 1
        il = CC.guarded(ctx, "cost.repair", {"repair": list(c[:5])}, lambda: K.repair_reply(per_day))
        if il is not None and il != ml:
            ctx.disagree("cost.repair", {"repair": [c[0], c[1], c[2], c[3], c[4], [list(e) for e in c[5]]] + list(c[6:])}, ml, il)
        oracle_repair(ctx, c, per_day, status, em)
        if not c[5] and any(a != 0 for (a, _, _, _) in per_day):
            ctx.violate("C10:no-methods:repair-cost-without-tag", "repair cost booked for a leak nobody tagged", {"repair": list(c[:5]) + [[]]})
        by = getattr(em, "_tagged_by_company", None)
        ctx.nontrivial.add(("repair", status[-1] if status else "-", "natural" if by == "natural" else "company" if by else "-",
                            min(c[2], 3), len(c[5]) > 1, len(c) > 6))
        if len(c) > 6:
            ctx.count("repair:intermittent")
        ctx.count("repair:" + (status[-1] if status else "-") + "/" + ("natural" if by == "natural" else "company" if by else "-"))
    # multi-valued repair-cost lists (the default has one value): the amount is drawn at booking time,
    # so only the oracle applies: one member of the list, once, on the repair day
    for c in cases[:: ctx.pick(6, 3)]:
        lst = ctx.rng.choice([[64, 128, 256], [200, 200], [5, 0], [7]])
        c2 = (c[0], c[1], c[2], c[3], lst, c[5]) + tuple(c[6:])
        got = CC.guarded(ctx, "cost.repair-list", {"repair": [c2[0], c2[1], c2[2], c2[3], lst, [list(e) for e in c2[5]]]},
                         lambda: K.impl_repair(*c2))
        if got is None:
            continue
        ctx.evaluations += 1
        oracle_repair(ctx, c2, *got)
        ctx.count("repair:cost-list")
    ctx.traces += len(cases)


def stage_history(ctx):
    """LESSONS 1: colliding keys, differing values, both orders, fresh process"""
    from harness.adapters import crew as C
    from harness.props import _crew_history as H

    n_seq = ctx.pick(60, 600)
    fresh_items, fresh_ref = [], []
    for k in range(n_seq):
        name = ctx.rng.choice(CC.METHOD_NAMES)
        date = ctx.rng.choice(CC.BOUNDARY_DATES)
        items = []
        for _ in range(ctx.rng.randint(2, 4)):
            m = list(random_mday(ctx.rng, ctx.rng.choice(["tiny", "small"])))
            # collide: same method name, same date, same site ids 0..n-1, same class of objects
            m[8] = [(i,) + tuple(q[1:]) for i, q in enumerate(m[8])]
            m[9] = {"name": name, "date": date}
            items.append(["mday", m[:8] + [[C.req_json(q) for q in m[8]]] + [m[9]]])
        names = ctx.rng.sample(CC.METHOD_NAMES, 3)
        for _ in range(2):
            ms = [[ctx.rng.choice([0, 5, 64]), ctx.rng.choice([0, 512])] for _ in names]
            items.append(["row", ctx.rng.random() < 0.5, ms, ctx.rng.choice([0, 200]), ctx.rng.choice([0, 64]), names])
        for _ in range(2):
            items.append(["constructs", 0, ctx.rng.choice([5, 50]), ctx.rng.choice([100, 3000]),
                          [[ctx.rng.choice(CC.CLASSES), False, ctx.rng.choice([1, 2, 3])] for _ in range(2)]])
        ctx.rng.shuffle(items)
        n, fwd = H.check_orders(ctx, "C10", items, "cost")
        ctx.evaluations += n
        if k < ctx.pick(12, 60):
            fresh_items += items
            fresh_ref += fwd
        ctx.nontrivial.add(("history", len(items), name in ("kept", "NA", "Logs"), date[5:]))
    ctx.evaluations += H.check_fresh(ctx, "C10", fresh_items, "cost", fresh_ref)
    ctx.traces += n_seq


def wholerun_oracle(ctx):
    """optional stage: timeseries cost columns vs wrapper counts of completed surveys / deployed
    crews / repairs, on whole simulations"""
    if not os.path.exists(os.path.join(core.VERIF, "harness", "wholerun.py")):
        ctx.note("whole-run stage skipped: harness/wholerun.py absent")
        return
    from harness.props import _crew_wholerun as W

    W.run_c10(ctx)


def regenerate_tables(ctx):
    """Generated/CrewCost.lean from the current /repo; an unexpected code shape is a broken obligation,
    the rest of the check still runs"""
    try:
        from harness.extract import crewcost

        st, changed = crewcost.regenerate()
        ctx.extra["crewcost_table"] = {k: len(v) for k, v in st.items()}
        if changed:
            ctx.note("regenerated " + ", ".join(changed))
    except Exception as e:   # noqa: BLE001
        ctx.broke("extract Generated/CrewCost.lean", "%s: %s" % (type(e).__name__, e))


def run(ctx):
    ctx.rule = ("cost blocks: per_day in {-1,0,2,10} x per_site in {absent,-1,0,3,50} x upfront x deployment x crews "
                "(exhaustive, 4 classes); sequences of 2..5 constructions from one shared properties dict; method days: the F5 family (survey that exhausts the crew, weather abort, "
                "partial, site-cost override, stationary) for each class + random work plans in three sizes with "
                "explicit cost blocks; multi-day: random histories of one survey per class; rows: random method lists "
                "x first-day flag x repair costs, programs of 1..6 days with the first_day wiring read from ldar_sim.py; "
                "repairs: structured-exhaustive emission cases (subsampled) + random with cost; whole runs: generated "
                "configurations. non-trivial = distinct (stage, class, cost type, outcome shape) keys")
    regenerate_tables(ctx)
    core.lean_stage(ctx, MODULE, FILE, drivers=["drv_cost", "drv_crew"])
    from harness.props import _tie
    _tie.crew_tie(ctx)  # layer 3: Method.survey_site, translated from the current source, is Crew.surveyStep/applyStep
    _tie.emission_tie(ctx)  # layer 3: the EmisInfo repair counters of the emission classes (RE_update_info ...)
    stage_select(ctx)
    stage_constructs(ctx)
    stage_mday(ctx)
    stage_multiday(ctx)
    stage_rows(ctx)
    stage_repair(ctx)
    stage_history(ctx)
    wholerun_oracle(ctx)
    ctx.assumptions.append("costs integer-valued (exact in float arithmetic); repair cost lists sampled by random.choice are inputs")
    ctx.assumptions.append("model follows /repo after the fix: commits listed in known_findings.json (entries of C10)")


def replay(ctx, data):
    from harness.adapters import cost as K

    inp = data.get("input", {})
    D = core.LeanDriver("drv_cost")
    if "mday" in inp:
        m = inp["mday"]
        case = (m[0], m[1], m[2], m[3], m[4], m[5], m[6], m[7], [C_req_from_json(q) for q in m[8]]) + tuple(m[9:])
        r = K.impl_mday(case)
        print("impl :", K.mday_reply(r), "| reports", r.reports, "| crews", r.crews)
        print("model:", D.run([K.mday_line(case)])[0])
        oracle_mday(ctx, case, r)
    elif "constructs" in inp:
        c = inp["constructs"]
        case = (c[0], c[1], c[2], [tuple(b) for b in c[3]])
        res = K.impl_constructs(*case)
        print("impl : upfront costs", res[0], "| cost block before", res[1], "after", res[2])
        print("model:", D.run([K.constructs_line(*case)])[0])
        if list(res[0]) != [case[2] * (1 if st else n) for (_, st, n) in case[3]]:
            ctx.violate("C10:upfront:depends-on-earlier-constructions", "upfront depends on earlier constructions", inp)
        if res[1] != res[2]:
            ctx.violate("C10:upfront:method-parameters-modified", "shared cost parameters modified", inp)
    elif "select" in inp:
        c = tuple(inp["select"])
        cls = inp.get("cls", "method")
        res = K.impl_select(*c, cls=cls)
        print("impl :", K.select_reply(res))
        print("model:", D.run([K.select_line(*c)])[0])
        if (res[0], res[1]) != expected_select(c[0], c[1]):
            ctx.violate("C10:select:wrong-cost-type", "cost type", inp)
        if res[2] != c[2] * (1 if c[3] else c[4]):
            ctx.violate("C10:upfront:not-upfront-times-crews", "upfront", inp)
    elif "row" in inp:
        first, ms, rep, nat = inp["row"]
        ms = [tuple(m) for m in ms]
        res = K.impl_row(first, ms, rep, nat)
        print("impl :", K.row_reply(res))
        print("model:", D.run([K.row_line(first, ms, rep, nat)])[0])
        oracle_row(ctx, first, ms, rep, nat, res)
        if not ms and rep == 0 and res[0] != 0:
            ctx.violate("C10:no-methods:cost-nonzero", "no methods", inp)
    elif "prog" in inp:
        days = [([tuple(m) for m in ms], rep, nat) for (ms, rep, nat) in inp["prog"]]
        res = K.impl_prog(days)
        print("impl :", K.prog_reply(res))
        print("model:", D.run([K.prog_line(days)])[0])
        oracle_prog(ctx, days, res)
    elif "repair" in inp:
        c = inp["repair"]
        case = (c[0], c[1], c[2], c[3], c[4], [tuple(e) for e in c[5]]) + tuple(c[6:])
        per_day, status, em = K.impl_repair(*case)
        print("impl :", K.repair_reply(per_day))
        print("model:", D.run([K.repair_line(*case)])[0])
        oracle_repair(ctx, case, per_day, status, em)
    elif "mcost" in inp:
        S, st, charge, days = inp["mcost"]
        days = [tuple(d) for d in days]
        res = K.impl_mcost(S, st, charge, days, cls=inp.get("cls", "method"))
        print("impl :", K.mcost_reply(res), res[2])
        print("model:", D.run([K.mcost_line(S, st, charge, days)])[0])
        if res[0] != (charge if res[1] else 0):
            ctx.violate("C10:per_site:double-charge-on-resume" if res[0] > charge else "C10:per_site:multiday-other",
                        "not charged exactly once", inp)
    elif "history" in inp:
        from harness.props import _crew_history as H

        H.replay(ctx, "C10", inp)
    elif "wholerun" in inp:
        from harness.props import _crew_wholerun as W

        W.replay_c10(ctx, inp)
    else:
        print("replay: broken obligation / correspondence:", data.get("broken_obligations"),
              data.get("correspondence_disagreements"))
        return 1
    for v in ctx.violations:
        print("oracle:", v["signature"], "-", v["what"])
    return 1 if ctx.violations else 0
