"""Shared by C08 / C10: generators of survey-step, multi-day and crew-day cases, the correspondence
between the real Method / ComponentLevelMethod code and the Lean model (drv_crew), parsed day
results."""
from __future__ import annotations

from harness.core import LeanDriver

CLASSES = ["method", "site", "equipment", "component"]

# weather triples relative to the envelope of adapters.crew.ENV: inside, on each bound, just outside
WX_OK = [(15, 1, 0), (-10, 0, 0), (25, 8, 3), (0, 4, 1)]
WX_BAD = [(26, 1, 0), (-11, 1, 0), (15, 9, 0), (15, 1, 4), (26, 9, 4), (15, 1, 9)]
# missing values (NaN in the weather file; None here): temperature, wind, precipitation, all three
WX_NAN = [(None, 1, 0), (15, None, 0), (15, 1, None), (None, None, None), (None, 9, 0)]


# dates put into the generators on purpose: day-of-year 366, year boundaries, leap day
BOUNDARY_DATES = ["2020-12-31", "2024-12-31", "2021-12-31", "2021-01-01", "2025-01-01", "2024-02-28", "2024-02-29",
                  "2024-03-01", "2023-02-28", "2023-03-01", "2024-12-30", "2022-07-15"]
# (n_sites, surveys per year, survey minutes): LDAR-Sim's crew estimate for an 8 h day and no travel is
# ceil(n * surveys * minutes / (365 * 480)) = 1, 1, 2, 3, 4, 7, 13
PORTFOLIOS = [[5, 1, 60], [20, 4, 120], [60, 12, 420], [200, 6, 400], [200, 12, 300], [400, 12, 240], [1000, 12, 190]]
# method names: underscores, digits, prefixes of each other, marker / keyword-like
METHOD_NAMES = ["OGI", "OGI_FU", "OGI_FU_2", "OGI_FU2", "A_1", "a", "kept", "NA", "Logs", "Daily", "site", "day",
                "M 2", "_placeholder_str_x", "1"]


def guarded(ctx, component, inp, fn):
    """run the implementation side of one case; an exception of the real code or a value the adapter
    cannot represent (non-integer minutes / costs, unexpected shape) is a correspondence disagreement
    with the case as input -- never a crash of the check.  Returns fn() or None."""
    try:
        return fn()
    except core_infra() as e:   # harness infrastructure problems stay infrastructure problems
        raise e
    except Exception as e:      # noqa: BLE001
        import traceback

        ctx.disagree(component, inp, "(model)", "implementation side raised %s: %s | %s" % (
            type(e).__name__, str(e)[:200], traceback.format_exc().strip().splitlines()[-3][:160]))
        ctx.count("impl-raised")
        return None


def core_infra():
    from harness import core

    return core.InfraError


# ------------------------------------------------------------------------------------------------
# survey step, exhaustive
# ------------------------------------------------------------------------------------------------
def step_tuples(rmax=24, smax=8, tmax=4):
    for R in range(rmax + 1):
        for S in range(smax + 1):
            for T in range(tmax + 1):
                for P in range(S + 1):
                    for stationary in (False, True):
                        for workable in (True, False):
                            yield (R, S, T, P, stationary, workable)


def with_stale_today(tuples):
    """a report resumed on a later day still holds the previous visit's minutes in
    time_surveyed_current_day: every tuple with P > 0 (mobile) is also run with that field set to P
    (one earlier partial day) and to 1 (several earlier partial days)"""
    for t in tuples:
        yield t + (0,)
        (R, S, T, P, stationary, workable) = t
        if P > 0 and not stationary:
            yield t + (P,)
            if P > 1:
                yield t + (1,)


def correspond_steps(ctx, tuples, cls="method"):
    """tuples (R, S, T, P, stationary, workable, staleToday); returns list of (tuple, impl result)"""
    from harness.adapters import crew as C

    tuples = list(tuples)
    lines = [C.step_line(*t[:6], today0=t[6]) for t in tuples]
    model = LeanDriver("drv_crew").run(lines)
    out = []
    for t, ml in zip(tuples, model):
        kind = (t[0] * 7 + t[1] * 3 + t[2] + t[3]) % 6     # which value is out of the envelope / missing
        res = guarded(ctx, "crew.step/" + cls, {"step": list(t), "cls": cls, "unworkable_kind": kind},
                      lambda: C.impl_step(*t[:6], cls=cls, today0=t[6], unworkable_kind=kind))
        if res is None:
            continue
        il = guarded(ctx, "crew.step/" + cls, {"step": list(t), "cls": cls}, lambda: C.impl_step_reply(res))
        ctx.evaluations += 1
        if il is not None and il != ml:
            ctx.disagree("crew.step/" + cls, {"step": list(t), "cls": cls}, ml, il)
            ctx.count("disagree")
        out.append((t, res))
    ctx.traces += len(tuples)
    return out


def step_branch(t, res):
    (R, S, T, P, stationary, workable) = t[:6]
    if not res["visited"]:
        return "unworkable"
    rp, before = res["report"], res["before"]
    if rp[3]:
        return "complete-last" if res["last"] else "complete"
    if rp[4] and rp[0] > before[0]:
        return "partial"
    return "no-time"


# ------------------------------------------------------------------------------------------------
# one survey over several days
# ------------------------------------------------------------------------------------------------
def random_multiday(rng, big=False):
    S = rng.randint(0, 60 if big else 10)
    stationary = rng.random() < 0.15
    n = rng.randint(1, 8 if big else 5)
    days = []
    for _ in range(n):
        T = rng.choice([0, 1, 2, 3, 5]) if not big else rng.choice([0, 5, 10, 20])
        R = rng.randint(0, 40 if big else 14)
        days.append((R, T, rng.random() < 0.8, rng.random() < 0.85))
    return (S, stationary, days)


def small_multidays():
    """exhaustive: S<=3, two or three days, R<=5, T<=1, both weather outcomes"""
    import itertools

    day_opts = [(R, T, w, True) for R in range(0, 6) for T in (0, 1) for w in (True, False)]
    for S in range(0, 4):
        for d1, d2 in itertools.product(day_opts, day_opts):
            yield (S, False, [d1, d2])


def correspond_multiday(ctx, cases, cls="method"):
    from harness.adapters import crew as C

    cases = list(cases)
    lines = [C.multiday_line(*c) for c in cases]
    model = LeanDriver("drv_crew").run(lines)
    out = []
    for c, ml in zip(cases, model):
        steps = []
        inp_ = {"multiday": [c[0], c[1], [list(d) for d in c[2]]], "cls": cls}
        res = guarded(ctx, "crew.multiday/" + cls, inp_, lambda: C.impl_multiday(c[0], c[1], c[2], cls=cls, steps=steps))
        if res is None:
            continue
        il = guarded(ctx, "crew.multiday/" + cls, inp_, lambda: C.impl_multiday_reply(res))
        ctx.evaluations += 1
        if il is not None and il != ml:
            ctx.disagree("crew.multiday/" + cls, {"multiday": [c[0], c[1], [list(d) for d in c[2]]], "cls": cls}, ml, il)
            ctx.count("disagree")
        out.append((c, res, steps))
    ctx.traces += len(cases)
    return out


def long_multiday(rng):
    """a survey that needs three or more crew-days: S several times the daily minutes"""
    T = rng.choice([0, 0, 1, 2, 5, 10])
    R = rng.choice([6, 10, 30, 60, 360]) + 2 * T
    S = rng.randint(2 * (R - 2 * T) + 1, 6 * (R - 2 * T))
    days = []
    for _ in range(rng.randint(4, 9)):
        r = R if rng.random() < 0.7 else rng.randint(0, R)
        days.append((r, T, rng.random() < 0.9, rng.random() < 0.9))
    return (S, False, days)


# ------------------------------------------------------------------------------------------------
# crew days
# ------------------------------------------------------------------------------------------------
def random_day(rng, size="small", cls=None, cost_types=("day", "site", "none")):
    """(cls, stationary, cost_type, unit_cost, budget, crews, consider_weather, reqs[, upfront])"""
    cls = cls or rng.choice(CLASSES)
    stationary = rng.random() < 0.2
    cost_type = rng.choice(list(cost_types))
    unit_cost = rng.choice([1, 5, 10, 50, 200])
    consider_weather = rng.random() < 0.6
    if size == "tiny":
        budget = rng.randint(0, 24)
        smax, tset = 8, [0, 1, 2, 3, 4]
        nreq = rng.randint(0, 5)
    elif size == "small":
        budget = rng.choice([0, 15, 30, 45, 60, 90, 120, 240, 480])
        smax, tset = max(budget, 10), [0, 5, 10, 15, 30, 60]
        nreq = rng.randint(0, 7)
    else:
        budget = rng.choice([240, 480, 600, 720, 1440])
        smax, tset = 900, [0, 10, 20, 30, 45, 60, 90]
        nreq = rng.randint(3, 25)
    crews = 1 if stationary else rng.choice([0, 1, 1, 2, 2, 3, 5])
    reqs = []
    # site ids: unsorted, non-contiguous, and with natural order != lexicographic order of "s<id>"
    sids = rng.sample(range(0, 60), nreq) if rng.random() < 0.7 else list(range(nreq))
    for sid in sids:
        S = rng.choice([0, rng.randint(0, smax), rng.randint(0, max(smax // 4, 1))])
        T = rng.choice(tset)
        td = 0
        if stationary or rng.random() < 0.55 or S < 2:
            P, ip, trav = 0, False, 0
        else:
            # a report carried over from earlier days, as the real code leaves it: minutes so far,
            # in progress, and time_surveyed_current_day still holding the last visit's minutes
            P = rng.randint(1, S - 1)
            ip = True
            trav = rng.choice([0, T, 2 * T])
            td = rng.choice([P, P, rng.randint(1, P), 0])
        scost = rng.choice([0, 0, 3, 20, 75])
        if not consider_weather:
            wx = rng.choice(WX_OK + WX_BAD + WX_NAN)
        else:
            x = rng.random()
            wx = rng.choice(WX_OK) if x < 0.65 else rng.choice(WX_BAD) if x < 0.85 else rng.choice(WX_NAN)
        reqs.append((sid, S, P, ip, trav, T, scost, wx, td))
    # the exact-fit family: first survey uses the crew's day to the minute
    if reqs and not stationary and rng.random() < 0.25 and budget > 0:
        (sid, S, P, ip, trav, T, scost, wx, td) = reqs[0]
        T = min(T, budget // 2)
        reqs[0] = (sid, budget - 2 * T, 0, False, 0, T, scost, wx if consider_weather else WX_OK[0], 0)
    upfront = rng.choice([0, 0, 100, 2500])
    opts = {}
    if not stationary and rng.random() < 0.35:
        # the method is constructed for a portfolio of its own: LDAR-Sim's crew estimate is then
        # smaller than, equal to or LARGER than the configured crew_count (a genuine crew shortage:
        # many sites x frequent x long surveys, few crews) -- the configured count must win
        opts["portfolio"] = rng.choice(PORTFOLIOS)
        if rng.random() < 0.2:
            opts["follow_up"] = True
        if crews == 0 and rng.random() < 0.7:
            opts["estimate"] = True      # crew_count 0: the documented estimate is what the method gets
    if rng.random() < 0.4:
        opts["date"] = rng.choice(BOUNDARY_DATES)
    if rng.random() < 0.4:
        opts["name"] = rng.choice(METHOD_NAMES)
    return (cls, stationary, cost_type, unit_cost, budget, crews, consider_weather, reqs, upfront, opts)


def parse_day_reply(line):
    head, recs, crews = [x.strip() for x in line.split("|")]
    h = [int(x) for x in head.split()]
    out = {"cost": h[0], "visited": h[1], "travel": h[2], "survey": h[3], "wp_travel": h[4], "recs": [], "crews": []}
    for rec in filter(None, recs.split(";")):
        f = rec.split(":")
        out["recs"].append({"site": int(f[0]), "crew": None if f[1] == "-" else int(f[1]),
                            "surveyed": int(f[2]), "today": int(f[3]), "travel": int(f[4]),
                            "complete": f[5] == "1", "in_progress": f[6] == "1", "visited": f[7] == "1",
                            "last": f[8] == "1", "travel_charged": int(f[9])})
    for c in filter(None, crews.split(",")):
        f = c.split(":")
        out["crews"].append({"id": int(f[0]), "rem": int(f[1]), "deployed": f[2] == "1",
                             "spent": int(f[3]), "home": int(f[4])})
    return out


def correspond_days(ctx, cases):
    """returns list of (case, DayResult, impl reply line)"""
    from harness.adapters import crew as C

    cases = list(cases)
    lines = [C.day_line(c) for c in cases]
    model = LeanDriver("drv_crew").run(lines)
    out = []
    for c, ml in zip(cases, model):
        r = guarded(ctx, "crew.day/" + c[0], {"day": case_json(c)}, lambda: C.impl_day(c))
        if r is None:
            continue
        ctx.evaluations += 1
        il = guarded(ctx, "crew.day/" + c[0], {"day": case_json(c)}, lambda: C.impl_day_reply(c, r))
        if il is not None and il != ml:
            ctx.disagree("crew.day/" + c[0], {"day": case_json(c)}, ml, il)
            ctx.count("disagree")
        out.append((c, r, il))
    ctx.traces += len(cases)
    return out


def case_json(c):
    from harness.adapters import crew as C

    c = list(c)
    c[7] = [C.req_json(r) for r in c[7]]
    return c


def case_from_json(c):
    from harness.adapters import crew as C

    c = list(c)
    c[7] = [C.req_from_json(r) for r in c[7]]
    return tuple(c)


def random_campaign(rng):
    """several days of one mobile method over the same sites; survey times up to several crew-days"""
    T = rng.choice([0, 0, 5, 10, 30])
    budget = rng.choice([60, 120, 360, 480])
    work = max(budget - 2 * T, 1)
    n = rng.randint(1, 6)
    sites = []
    for _ in range(n):
        k = rng.choice([0.3, 0.8, 1.0, 1.4, 2.5, 3.5, 5.0])
        sites.append((max(int(work * k) + rng.choice([-1, 0, 0, 1]), 0), T if rng.random() < 0.7 else rng.choice([0, 5, 15]),
                      rng.choice([0, 0, 20])))
    camp = {"cls": rng.choice(CLASSES), "budget": budget, "crews": rng.choice([1, 1, 2, 3]),
            "per_day_plan": rng.choice([1, 2, 3, 6]), "ndays": rng.randint(3, 12), "sites": sites, "weather": None}
    if rng.random() < 0.5:
        # campaigns that straddle New Year / the leap day / day-of-year 366
        camp["start"] = rng.choice(["2024-12-27", "2020-12-29", "2021-12-30", "2024-02-26", "2023-02-26"])
    if rng.random() < 0.4:
        camp["weather"] = [[list(rng.choice(WX_OK) if rng.random() < 0.7 else rng.choice(WX_BAD + WX_NAN)) for _ in range(n)]
                           for _ in range(rng.randint(2, 5))]
    return camp


def correspond_campaigns(ctx, camps):
    """every day of every campaign: real outcome vs the model run on the state the day started from;
    returns list of (campaign, [(day case, DayResult)])"""
    from harness.adapters import crew as C

    runs = []
    for camp in camps:
        days = guarded(ctx, "crew.campaign/" + camp["cls"], {"campaign": camp}, lambda: C.impl_campaign(camp))
        if days is not None:
            runs.append((camp, days))
    lines = [C.day_line(case) for (_, days) in runs for (case, _) in days]
    model = LeanDriver("drv_crew").run(lines)
    k = 0
    for camp, days in runs:
        for d, (case, r) in enumerate(days):
            il = guarded(ctx, "crew.campaign/" + camp["cls"], {"campaign": camp, "day": d}, lambda: C.impl_day_reply(case, r))
            ctx.evaluations += 1
            if il is not None and il != model[k]:
                ctx.disagree("crew.campaign/" + camp["cls"], {"campaign": camp, "day": d}, model[k], il)
                ctx.count("disagree")
            k += 1
    ctx.traces += len(runs)
    return runs


def model_workable(case, req):
    from harness.adapters import crew as C

    if not case[6]:
        return True
    (t, w, p) = tuple(req[7])
    if t is None or w is None or p is None:
        return False      # a missing value (NaN in the weather file) is inside no envelope
    e = C.ENV
    return e["temp"][0] <= t <= e["temp"][1] and e["wind"][0] <= w <= e["wind"][1] and e["precip"][0] <= p <= e["precip"][1]
