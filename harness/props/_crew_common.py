"""Shared by C08 / C10: generators of survey-step, multi-day and crew-day cases, the correspondence
between the real Method / ComponentLevelMethod code and the Lean model (drv_crew), parsed day
results."""
from __future__ import annotations

from harness.core import LeanDriver

CLASSES = ["method", "site", "equipment", "component"]

# weather triples relative to the envelope of adapters.crew.ENV: inside, on each bound, just outside
WX_OK = [(15, 1, 0), (-10, 0, 0), (25, 8, 3), (0, 4, 1)]
WX_BAD = [(26, 1, 0), (-11, 1, 0), (15, 9, 0), (15, 1, 4), (26, 9, 4), (15, 1, 9)]


# ------------------------------------------------------------------------------------------------
# survey step, exhaustive
# ------------------------------------------------------------------------------------------------
def step_tuples(rmax=24, smax=8, tmax=4):
    for R in range(rmax + 1):
        for S in range(smax + 1):
            for T in range(tmax + 1):
                for P in range(S + 1):
                    for stationary in (False, True):
                        for workable in (True, False):
                            yield (R, S, T, P, stationary, workable)


def correspond_steps(ctx, tuples, cls="method"):
    """returns list of (tuple, impl result dict)"""
    from harness.adapters import crew as C

    tuples = list(tuples)
    lines = [C.step_line(*t) for t in tuples]
    model = LeanDriver("drv_crew").run(lines)
    out = []
    for t, ml in zip(tuples, model):
        res = C.impl_step(*t, cls=cls)
        il = C.impl_step_reply(res)
        ctx.evaluations += 1
        if il != ml:
            ctx.disagree("crew.step/" + cls, {"step": list(t), "cls": cls}, ml, il)
            ctx.count("disagree")
        out.append((t, res))
    ctx.traces += len(tuples)
    return out


def step_branch(t, res):
    (R, S, T, P, stationary, workable) = t
    if not res["visited"]:
        return "unworkable"
    rp, before = res["report"], res["before"]
    if rp[3]:
        return "complete-last" if res["last"] else "complete"
    if rp[4] and rp[0] > before[0]:
        return "partial"
    return "no-time"


# ------------------------------------------------------------------------------------------------
# one survey over several days
# ------------------------------------------------------------------------------------------------
def random_multiday(rng, big=False):
    S = rng.randint(0, 60 if big else 10)
    stationary = rng.random() < 0.15
    n = rng.randint(1, 8 if big else 5)
    days = []
    for _ in range(n):
        T = rng.choice([0, 1, 2, 3, 5]) if not big else rng.choice([0, 5, 10, 20])
        R = rng.randint(0, 40 if big else 14)
        days.append((R, T, rng.random() < 0.8, rng.random() < 0.85))
    return (S, stationary, days)


def small_multidays():
    """exhaustive: S<=3, two or three days, R<=5, T<=1, both weather outcomes"""
    import itertools

    day_opts = [(R, T, w, True) for R in range(0, 6) for T in (0, 1) for w in (True, False)]
    for S in range(0, 4):
        for d1, d2 in itertools.product(day_opts, day_opts):
            yield (S, False, [d1, d2])


def correspond_multiday(ctx, cases, cls="method"):
    from harness.adapters import crew as C

    cases = list(cases)
    lines = [C.multiday_line(*c) for c in cases]
    model = LeanDriver("drv_crew").run(lines)
    out = []
    for c, ml in zip(cases, model):
        res = C.impl_multiday(c[0], c[1], c[2], cls=cls)
        il = C.impl_multiday_reply(res)
        ctx.evaluations += 1
        if il != ml:
            ctx.disagree("crew.multiday/" + cls, {"multiday": [c[0], c[1], [list(d) for d in c[2]]], "cls": cls}, ml, il)
            ctx.count("disagree")
        out.append((c, res))
    ctx.traces += len(cases)
    return out


# ------------------------------------------------------------------------------------------------
# crew days
# ------------------------------------------------------------------------------------------------
def random_day(rng, size="small", cls=None, cost_types=("day", "site", "none")):
    """(cls, stationary, cost_type, unit_cost, budget, crews, consider_weather, reqs[, upfront])"""
    cls = cls or rng.choice(CLASSES)
    stationary = rng.random() < 0.2
    cost_type = rng.choice(list(cost_types))
    unit_cost = rng.choice([1, 5, 10, 50, 200])
    consider_weather = rng.random() < 0.6
    if size == "tiny":
        budget = rng.randint(0, 24)
        smax, tset = 8, [0, 1, 2, 3, 4]
        nreq = rng.randint(0, 5)
    elif size == "small":
        budget = rng.choice([0, 15, 30, 45, 60, 90, 120, 240, 480])
        smax, tset = max(budget, 10), [0, 5, 10, 15, 30, 60]
        nreq = rng.randint(0, 7)
    else:
        budget = rng.choice([240, 480, 600, 720, 1440])
        smax, tset = 900, [0, 10, 20, 30, 45, 60, 90]
        nreq = rng.randint(3, 25)
    crews = 1 if stationary else rng.choice([0, 1, 1, 2, 2, 3, 5])
    reqs = []
    for sid in range(nreq):
        S = rng.choice([0, rng.randint(0, smax), rng.randint(0, max(smax // 4, 1))])
        T = rng.choice(tset)
        if stationary or rng.random() < 0.6 or S < 2:
            P, ip, trav = 0, False, 0
        else:
            P = rng.randint(1, S - 1)
            ip = True
            trav = rng.choice([0, T, 2 * T])
        scost = rng.choice([0, 0, 3, 20, 75])
        if not consider_weather:
            wx = rng.choice(WX_OK + WX_BAD)
        else:
            wx = rng.choice(WX_OK) if rng.random() < 0.7 else rng.choice(WX_BAD)
        reqs.append((sid, S, P, ip, trav, T, scost, wx))
    # the exact-fit family: first survey uses the crew's day to the minute
    if reqs and not stationary and rng.random() < 0.25 and budget > 0:
        (sid, S, P, ip, trav, T, scost, wx) = reqs[0]
        T = min(T, budget // 2)
        reqs[0] = (sid, budget - 2 * T, 0, False, 0, T, scost, wx if consider_weather else WX_OK[0])
    upfront = rng.choice([0, 0, 100, 2500])
    return (cls, stationary, cost_type, unit_cost, budget, crews, consider_weather, reqs, upfront)


def parse_day_reply(line):
    head, recs, crews = [x.strip() for x in line.split("|")]
    h = [int(x) for x in head.split()]
    out = {"cost": h[0], "visited": h[1], "travel": h[2], "survey": h[3], "wp_travel": h[4], "recs": [], "crews": []}
    for rec in filter(None, recs.split(";")):
        f = rec.split(":")
        out["recs"].append({"site": int(f[0]), "crew": None if f[1] == "-" else int(f[1]),
                            "surveyed": int(f[2]), "today": int(f[3]), "travel": int(f[4]),
                            "complete": f[5] == "1", "in_progress": f[6] == "1", "visited": f[7] == "1",
                            "last": f[8] == "1", "travel_charged": int(f[9])})
    for c in filter(None, crews.split(",")):
        f = c.split(":")
        out["crews"].append({"id": int(f[0]), "rem": int(f[1]), "deployed": f[2] == "1",
                             "spent": int(f[3]), "home": int(f[4])})
    return out


def correspond_days(ctx, cases):
    """returns list of (case, DayResult, impl reply line)"""
    from harness.adapters import crew as C

    cases = list(cases)
    lines = [C.day_line(c) for c in cases]
    model = LeanDriver("drv_crew").run(lines)
    out = []
    for c, ml in zip(cases, model):
        r = C.impl_day(c)
        il = C.impl_day_reply(c, r)
        ctx.evaluations += 1
        if il != ml:
            ctx.disagree("crew.day/" + c[0], {"day": case_json(c)}, ml, il)
            ctx.count("disagree")
        out.append((c, r, il))
    ctx.traces += len(cases)
    return out


def case_json(c):
    c = list(c)
    c[7] = [list(r[:7]) + [list(r[7])] for r in c[7]]
    return c


def case_from_json(c):
    c = list(c)
    c[7] = [tuple(r[:7]) + (tuple(r[7]),) for r in c[7]]
    return tuple(c)


def model_workable(case, req):
    from harness.adapters import crew as C

    if not case[6]:
        return True
    (t, w, p) = req[7]
    e = C.ENV
    return e["temp"][0] <= t <= e["temp"][1] and e["wind"][0] <= w <= e["wind"][1] and e["precip"][0] <= p <= e["precip"][1]
