"""Shared by C06 / C07: protocol lines for drv_sched, canonical rendering of the implementation
traces produced by harness/adapters/sched.py, the day-by-day correspondence, case generators."""
from __future__ import annotations

from datetime import date, timedelta

from harness.core import LeanDriver

CODE = {"C": 0, "P": 1, "U": 2, "?": 2}


# ------------------------------------------------------------------------------------------------
# rendering (must equal the strings of Driver/Sched.lean)
# ------------------------------------------------------------------------------------------------
SCALE = {"k": 1}   # minutes are sent to the (integer) model multiplied by the case's scale (fractional daylight)


def Q(v):
    """a minute value for the model: exact multiple of 1/scale, as an integer"""
    from fractions import Fraction

    f = Fraction(v) * SCALE["k"]
    if f.denominator != 1:
        return "NONINTEGRAL(%s)" % v      # shows up as a disagreement with the case attached
    return int(f)


def L(xs):
    return "[" + ",".join(str(x) for x in xs) + "]"


def show_queue(q):
    return L(L(e) for e in q)


def show_rep(r):
    return "-" if r is None else L([r[0], Q(r[1])])


def new_line(case, plans):
    kind = {"routine": "r", "stationary": "s", "followup": "f"}[case["kind"]]
    # no capacity given: the Method's own estimate, as DOCUMENTED (computed from the configuration by the harness)
    cap = case["cap"] if case.get("cap") is not None else case.get("_cap_documented", case["_cap_used"])
    sites = []
    for s, plan in zip(case["sites"], plans):
        f = s.get("freq")
        sites.append(L([s["id"], -1 if f is None else f, 1 if s.get("deploy", True) else 0, Q(s["S"]),
                        L(s.get("months", [])), L(s.get("years", [])),
                        L(L(p[:2]) for p in (plan or []))]))
    crews = case["crews"] if case["crews"] > 0 else (case.get("_crews_estimate") or case.get("_crews_used") or 0)
    return "new %s %d %d %d %d %d %d %d %d %s" % (
        kind, crews, cap, *case["start"], *case["end"], L(sites))


def new_reply(static):
    return "ok " + L(L([st["site"], st["rs"], L(st["dep_years"]), L(st["sim_years"])]) for st in static)


def day_line(rec):
    outs = rec.get("outcomes") or []
    return "day %d %d %d %s" % (*rec["date"], L(L([o[0], CODE[o[1]], Q(o[2]) if o[1] == "P" else 0]) for o in outs))


def day_reply_routine(rec):
    if rec["crash"]:
        return "c=1"
    today = L(L([o[0], Q(o[2]) if o[1] in "CP" else 0]) for o in rec["outcomes"])
    st = L(L([p["site"], p["queued"], L(L(x) for x in p["done"]), show_rep(p["report"])]) for p in rec["planners"])
    return "c=0 i=%s p=%s t=%s q=%s s=%s" % (L(rec["issued"]), L(rec["plan"]), today, show_queue(rec["queue"]), st)


def day_reply_followup(case, rec):
    if rec["crash"]:
        return "c=1"
    today = L(L([o[0], Q(o[2]) if o[1] in "CP" else 0]) for o in rec["outcomes"])
    reps = {p[0]: p[1] for p in rec["planners"]}
    st = L(L([s["id"], 1 if s["id"] in rec["flags"] else 0, L([L([0, rec["totals"][s["id"]]])]),
              show_rep(reps.get(s["id"]))]) for s in case["sites"])
    return "c=0 i=[] p=%s t=%s q=%s s=%s" % (L(rec["plan"]), today, show_queue(rec["queue"]), st)


# ------------------------------------------------------------------------------------------------
# correspondence
# ------------------------------------------------------------------------------------------------
def lines_routine(case, static, trace):
    SCALE["k"] = case.get("scale", 1)
    plans = [st["plan"] for st in static]
    req = [new_line(case, plans)]
    exp = [new_reply(static)]
    for rec in trace:
        req.append(day_line(rec))
        exp.append(day_reply_routine(rec))
    return req, exp


def lines_followup(case, trace):
    SCALE["k"] = case.get("scale", 1)
    req = [new_line(case, [[] for _ in case["sites"]])]
    exp = [None]
    for rec in trace:
        for op in rec["ops"]:
            if op[0] == "add":
                req.append("add %d %d %d" % (op[1], op[2], op[3]))
                exp.append("q=" + show_queue(op[4]))
            elif op[0] == "redetect":
                req.append("redetect %d %d %d" % (op[1], op[2], op[3]))
                exp.append("c=0 q=" + show_queue(op[4]))
            else:  # redetect of a site that is not in the queue: the real caller would crash on None
                req.append("redetect %d %d %d" % (op[1], op[2], op[3]))
                exp.append("c=1 q=" + show_queue(op[4]))
        req.append(day_line(rec))
        exp.append(day_reply_followup(case, rec))
    return req, exp


def compare(ctx, component, case, req, exp, model):
    """first differing line -> ctx.disagree; returns True when all lines agree"""
    for k, (r, e, m) in enumerate(zip(req, exp, model)):
        if e is None:
            if not m.startswith("ok"):
                ctx.disagree(component, {"case": case, "line": r}, m, "ok ...")
                return False
            continue
        if e == "c=1":
            if not m.startswith("c=1"):
                ctx.disagree(component, {"case": case, "line": r, "index": k}, m, e)
                return False
            continue
        if e != m:
            ctx.disagree(component, {"case": case, "line": r, "index": k}, m, e)
            return False
    return True


def run_model(batches):
    """batches: list of request-line lists; one driver process for all"""
    flat = [ln for b in batches for ln in b]
    out = LeanDriver("drv_sched").run(flat)
    res, k = [], 0
    for b in batches:
        res.append(out[k:k + len(b)])
        k += len(b)
    return res


# ------------------------------------------------------------------------------------------------
# helpers for the oracles
# ------------------------------------------------------------------------------------------------
def D(t):
    return date(t[0], t[1], t[2])


def add_days(t, k):
    d = D(t) + timedelta(days=k)
    return [d.year, d.month, d.day]
