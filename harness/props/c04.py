"""C04 — a leak is repaired only after being tagged, exactly after the configured delays.

Lean: Props/C04.lean (C04_first_tag_wins, C04_end_date(_E), C04_untagged_natural(_E),
C04_repair_needs_tag(_E), C04_not_earlier, C04_never_later(_E), C04_natural_first(_E), C04_first_tag_stays(_E),
C04_tag_needs_completed_survey, C04_tag_event_fields, C04_incomplete_survey_no_tags, C04_delay_from_list).
`tagCalls`/`tagEvs`/`latestTaggingSurvey` are compared with the real ComponentLevelMethod.survey_site and
`sampleDelay` with the real Source._get_rep_delay / _create_emission on every run (drv_emission ops
`tagcalls`, `sampledelay`).
Tie: real emission classes through real Component/Source vs drv_emission (same case set as C02) and
trace conformance of whole simulations.  Oracle: an independent day-arithmetic specification of
"first tag + max(1, repair delay + reporting delay), unless the natural end comes first" evaluated on
the implementation's records; whole runs: every program repair needs a logged tagging call of its
component on a *completed* survey of a component-scale method at that site on the detection date.
"""
from harness import core
from harness.props import _emission_common as EC

MANIFEST_ENTRY = {
    "text": "Lean theorem C04_repair_needs_tag (and its mixed-event lift _E) proves by induction over days, for every repairable emission, event schedule and horizon: a leak ended 'repaired by company c' has a first tag request, on a day T inside the period while it was active, issued by c, no tag request reached it on an earlier active day, and its end date is exactly T + max(1, repair delay + that request's reporting delay); C04_not_earlier / C04_never_later(_E): while waiting it is still active with an exact day count below the delay - a tagged leak is never left active beyond the delays; C04_natural_first(_E): a leak that ended 'natural' ended on its natural end date and either no tag request reached it while active or the natural end was strictly before T + max(1, delays); C04_first_tag_stays(_E): whatever the status, the company / reporting delay / detection date on record are those of the first tag request; C04_untagged_natural; C04_end_date: end date = start + days active (incl. pre-period) for all four emission classes; C04_first_tag_wins; C04_tag_needs_completed_survey / C04_tag_event_fields / C04_incomplete_survey_no_tags over tagCalls/tagEvs/latestTaggingSurvey and C04_delay_from_list over sampleDelay - these four definitions are compared on every run with the REAL ComponentLevelMethod.survey_site (generated reports: complete / incomplete, measured rates < 0, 0, > 0) and the REAL Source._get_rep_delay / _create_emission (list / int / dataframe column; the drawn index is recorded from np.random.choice). Model tied to the real classes by differential correspondence on every run and by trace conformance of whole simulations; the oracle recomputes the expected end from the events by plain date arithmetic, checks whole-run repairs against logged tagging calls and completed surveys, and whole-run tagged leaks that were not repaired against never-later / natural-first / first-tag-stays. run_shift / C04_period_shift: the life-cycle is calendar-free (a period starting k days later shifts only the two recorded dates), checked against the real classes under eight first simulated days (New Year, Feb 29, day-of-year 366, Dec 31, one year later). Hardening stages shared with C02/C03 (same-process history, shared inputs, copies / pickles, copy-hook table, marker-like method names, boundary-period / two-simulation / pool-mode whole runs). Layer 3 (every run): the methods of the four emission classes are translated from the current source to Lean (harness/extract/py2lean.py, emission_src.py -> Generated/EmissionSrc.lean) and Props/EmissionTie.lean + EmissionOnSource.lean are re-checked: each translated method equals the model's function through the abstraction, iterating them is Emission.run (run_tie), and the C02/C03/C04 statements hold of the translated code; a method outside the translated subset is a note, a failing tie theorem a broken obligation.",
    "design_ref": "DESIGN.md 5.4, 4.1",
    "note": "convention fixed in DESIGN.md 5.4: with day granularity the earliest end is tag day + 1, delays 0 and 1 coincide (max 1 delta). trusted: Lean kernel + standard axioms; model tied by sampled/structured-exhaustive correspondence; harness wrappers that log tagging calls and survey steps (observation only)",
    "technique": "Lean 4 history-invariant proof over the emission state machine + differential correspondence + trace conformance + direct oracle",
}
MODULE = "LdarModel.Props.C04"
FILE = "LdarModel/Props/C04.lean"


def expected(case):
    """independent specification: (status, endDate, by_company_index|natural|None, T)"""
    (start, nrd, delay, rep, inter, ad, idur, n, evs) = case
    a = max(start, 0)
    b4 = max(0, -start)
    life = max(1, nrd - b4)
    nat_end = a + life  # first day the emission is no longer active if nobody intervenes
    if a >= n:
        return ("inactive", None, None, None)
    if not rep:
        return ("expired", nat_end, "expire", None) if nat_end <= n else ("active", None, None, None)
    tag_days = sorted(set(e[0] for e in evs if not (len(e) > 3 and e[3] == 1) and a <= e[0] < min(nat_end, n)))
    if tag_days:
        T = tag_days[0]
        first = next(e for e in evs if e[0] == T and not (len(e) > 3 and e[3] == 1))
        rep_end = T + EC.due_days(delay, first[2])
        if rep_end <= nat_end:
            return ("repaired", rep_end, "c%d" % first[1], T) if rep_end <= n else ("active", None, "c%d" % first[1], T)
    return ("repaired", nat_end, "natural", None) if nat_end <= n else ("active", None, None, None)


def oracle_case(ctx, case, res):
    (start, nrd, delay, rep, inter, ad, idur, n, evs) = case
    inp = {"case": list(case), "implementation": res}
    b4 = max(0, -start)
    if res["status"] in ("repaired", "expired"):
        if res["endDate"] != start + b4 + res["activeDays"]:
            ctx.violate("C04:end-date!=start+days-active", "recorded end date differs from start + total days active", inp)
    elif res["endDate"] is not None:
        ctx.violate("C04:end-date-on-live-emission", "an emission that has not ended carries an end date", inp)
    if nrd < 1:
        return
    st, end, by, T = expected(case)
    inp["expected"] = {"status": st, "endDate": end, "by": by, "tagDay": T}
    if res["status"] != st or res["endDate"] != end:
        if res["status"] == "repaired" and res["by"].startswith("c") and T is None:
            sig = "C04:repaired-without-tag"
        elif end is not None and res["endDate"] is not None and res["endDate"] < end:
            sig = "C04:ended-earlier-than-specified"
        elif res["endDate"] is None or (end is not None and res["endDate"] > end):
            sig = "C04:ended-later-than-specified"
        else:
            sig = "C04:end-differs"
        ctx.violate(sig, "end of the emission differs from tag day + max(1, repair delay + reporting delay) / natural end", inp)
    elif rep and st == "repaired" and res["by"] != by:
        ctx.violate("C04:wrong-tagger", "repaired leak is attributed to a different tag than the first one", inp)
    elif rep and T is not None and st in ("repaired", "active") and res["by"] not in (by, "natural"):
        ctx.violate("C04:first-tag-overwritten", "tag fields are not those of the first tag", inp)


def wholerun_record(ctx, res, rec):
    cfg = res.cfg
    inp = {"cfg": cfg, "prog": rec["prog"], "sim": rec["sim"], "key": list(rec["key"]), "row": rec["row"],
           "events_at_component": rec["tags"]}
    b4 = max(0, -rec["start"])
    if rec["status"] in ("repaired", "expired"):
        if rec["endDate"] != rec["start"] + b4 + rec["activeDays"]:
            ctx.violate("C04:end-date!=start+days-active", "recorded end date differs from start + total days active", inp)
    # nothing ends after the simulated period: an end date is the day after the last active day, so at
    # most the day after the last simulated day (day index N), and no record has more in-period days than
    # the period has
    if rec["endDate"] is not None and rec["endDate"] > res.ndays:
        ctx.violate("C04:ends-after-period", "an emission is recorded as ending after the simulated period", inp)
    if rec["activeDays"] > res.ndays - max(rec["start"], 0) and rec["start"] < res.ndays:
        ctx.violate("C04:more-active-days-than-the-period-has",
                    "an emission is recorded with more active days than lie between its start and the end of the period", inp)
    if not rec["repairable"]:
        return
    # tagged by a method of its OWN program: the tagger on record (configuration + output file only) must be
    # one of the methods the record's program is configured with
    own_methods = next((p["methods"] for p in cfg["programs"] if p["name"] == rec["prog"]), [])
    if rec["tagged"] and rec["by"] not in ("natural", "", "None", "N/A", None) and rec["by"] not in own_methods:
        ctx.violate("C04:tagged-by-method-of-another-program",
                    "a leak is recorded as tagged by a method that is not among the methods of its own program "
                    "(%s has %s)" % (rec["prog"], own_methods), inp)
    if rec["tagged"] and not own_methods and rec["by"] != "natural":
        ctx.violate("C04:tagged-in-program-without-methods", "a program without any method reports a tagged leak", inp)
    if not EC.tagging_methods(cfg, rec["prog"]):
        ctx.count("wholerun_records_of_programs_that_cannot_tag:%s" % ("no-methods" if not next(p_["methods"] for p_ in res.cfg["programs"] if p_["name"] == rec["prog"]) else "coverage-0"))
        if rec["tagged"] and rec["by"] != "natural":
            ctx.violate("C04:tagged-with-zero-coverage",
                        "a program none of whose methods can see any emission (coverage 0) reports a tagged leak", inp)
    # the reporting delay of every tagging call is the one CONFIGURED for the calling method
    for e in rec["tags"]:
        if e[0] == "tag":
            want = EC.configured_reporting_delay(cfg, e[5], e[6])
            if e[6] != want:
                ctx.violate("C04:reporting-delay-differs-from-configuration",
                            "a tagging call carries a reporting delay other than the one configured for its method "
                            "(%s: %s, configured %s)" % (e[5], e[6], want), inp)
                break
    a = max(rec["start"], 0)
    nat_end = a + max(1, rec["nrd"] - b4)
    # the configured repair delays, as configured (they may be fractions of a day): read from the cfg
    delays = [float(x) if float(x) != int(x) else int(x) for x in cfg["repair_delay"]]
    if any(isinstance(d, float) for d in delays):
        ctx.count("wholerun_records_with_fractional-repair-delay-configured")
    if 0 in delays:
        ctx.count("wholerun_records_with_repair-delay-0-configured")
    comp_methods = [m for m, v in cfg["methods"].items() if v["measurement_scale"] == "component"]
    # tagging calls reach every emission *active* at the component: calls before this emission's first
    # active day concern its predecessors at the same component
    tag_calls = [e for e in rec["tags"] if e[0] == "tag" and e[1] >= a]
    # ... and calls on or after the day it ended concern its successors
    last_active = (rec["endDate"] - 1) if rec["endDate"] is not None else res.ndays - 1
    live_calls = [e for e in tag_calls if e[1] <= last_active]
    if rec["status"] == "repaired" and rec["by"] not in ("natural",):
        ctx.count("wholerun_program_repaired")
        mine = [e for e in tag_calls if e[5] == rec["by"]]
        if rec["by"] not in comp_methods:
            ctx.violate("C04:tagged-by-non-tagging-method", "leak repaired after a tag of a method that cannot tag", inp)
        elif not mine:
            ctx.violate("C04:repaired-without-tag", "repaired leak has no logged tagging call of its component by that method", inp)
        else:
            first = tag_calls[0]
            T = first[1]
            if first[5] != rec["by"]:
                ctx.violate("C04:wrong-tagger", "repaired leak is not attributed to the first tagging call", inp)
            done = [s for s in rec["surveys"] if s[1] == T and s[2] == first[5] and s[3] == rec["key"][0] and s[11]]
            if not done:
                ctx.violate("C04:tag-without-completed-survey",
                            "tagging call without a completed survey of that site by that method that day", inp)
            trd = EC.configured_reporting_delay(cfg, first[5], first[6])
            ok = any(rec["endDate"] == T + EC.due_days(d, trd) for d in delays)
            if trd >= 30:
                ctx.count("wholerun_program_repaired_with_reporting-delay>=30")
            if rec["endDate"] == T + 1:
                ctx.count("wholerun_program_repaired_on_the_day_after_the_tag")
            if not ok:
                ctx.violate("C04:end-differs", "repair date is not tag date + max(1, repair delay + reporting delay) for any configured delay", inp)
            if rec["endDate"] > nat_end:
                ctx.violate("C04:ended-later-than-specified", "program repair after the natural end", inp)
    if rec["status"] == "repaired" and rec["by"] == "natural":
        if rec["endDate"] != nat_end:
            ctx.violate("C04:natural-end-differs", "naturally ended leak did not end at its natural duration", inp)
    # ---- leaks that were reached by a tagging call but did not end by a program repair ------------
    # (never later / natural end first / first tag stays, on the implementation's own records and the
    # logged tagging calls; the sampled repair delay is one of the configured ones)
    if live_calls and not (rec["status"] == "repaired" and rec["by"] != "natural"):
        first = live_calls[0]
        T, trd = first[1], EC.configured_reporting_delay(cfg, first[5], first[6])
        dues = [T + EC.due_days(d, trd) for d in delays]
        inp2 = dict(inp, first_tagging_call=first, repair_due_for_each_configured_delay=dues, natural_end=nat_end,
                    horizon=res.ndays)
        if first[5] not in comp_methods:
            ctx.violate("C04:tagged-by-non-tagging-method", "tagging call logged for a method that is not component-scale", inp2)
        if rec["status"] == "active":
            ctx.count("wholerun_tagged_still_active")
            # overdue for every configured delay => must have been repaired (by that method)
            if all(due <= min(nat_end, res.ndays) for due in dues):
                ctx.violate("C04:overdue-tagged-leak-still-active",
                            "a tagged leak is still active although tag date + max(1, repair delay + reporting delay) "
                            "has passed for every configured repair delay", inp2)
            if not rec["tagged"] or rec["by"] != first[5]:
                ctx.violate("C04:first-tag-overwritten",
                            "still-active tagged leak: `Tagged By` is not the method of the first tagging call "
                            "that reached it", inp2)
        elif rec["status"] == "repaired" and rec["by"] == "natural":
            ctx.count("wholerun_tagged_ended_natural")
            # natural end first: allowed only if for some configured delay the repair was due strictly
            # after the natural end (on a tie the program repair wins)
            if all(due <= nat_end for due in dues):
                ctx.violate("C04:ended-natural-although-repair-due",
                            "a tagged leak ended `natural` although tag date + max(1, repair delay + reporting "
                            "delay) <= natural end for every configured repair delay", inp2)
    elif not live_calls and rec["status"] == "active" and rec["tagged"]:
        ctx.violate("C04:tagged-without-tag", "active leak is tagged but no tagging call of its component was logged while it was active", inp)
    ctx.count("wholerun_oracle_evaluated")


# ------------------------------------------------------------------------------------------------
# tie of `tagCalls` / `tagEvs` / `latestTaggingSurvey` to the real ComponentLevelMethod.survey_site
# ------------------------------------------------------------------------------------------------
SURVEY_RATES = [0, 0, -512, -1, 1, 256, 1024, 3584]  # scaled by 1024: 0, negative, tiny, dyadic positives


def survey_spec(rng):
    groups = []
    for g in range(rng.choice([0, 1, 1, 2, 3])):
        dets = [["comp%s_%d" % (rng.choice("AB"), rng.randint(1, 2)), rng.choice(SURVEY_RATES)]
                for _ in range(rng.choice([0, 1, 2, 2, 3, 4]))]
        groups.append(["eq%d" % rng.randint(1, 2), dets])
    prev = rng.randint(-30, 40)
    return {"complete": rng.random() < 0.6, "method": rng.randint(1, 5), "trd": rng.choice([0, 0, 1, 2, 5, 14]),
            "crew": rng.randint(1, 4), "prev": prev, "cur": prev + rng.randint(0, 400), "groups": groups}


def survey_specs_exhaustive():
    """every (complete, rate pattern) over up to 3 detections with rates in {negative, 0, positive}"""
    import itertools

    for complete in (True, False):
        for k in range(0, 4):
            for rates in itertools.product([-512, 0, 1024], repeat=k):
                for split in range(k + 1):
                    groups = [["eq1", [["compA_%d" % (i + 1), r] for i, r in enumerate(rates[:split])]],
                              ["eq2", [["compA_1", r] for r in rates[split:]]]]
                    yield {"complete": complete, "method": 2, "trd": 3, "crew": 1, "prev": 4, "cur": 10, "groups": groups}


def survey_oracle(ctx, spec, out):
    """the property's own clauses on the real survey_site, independent of the model"""
    inp = {"survey_spec": spec, "implementation": {k: v for k, v in out.items()}}
    flat = [(eqg, comp, r) for eqg, ds in spec["groups"] for comp, r in ds]
    want = [(eqg, comp, r) for (eqg, comp, r) in flat if r > 0] if spec["complete"] else []
    got = [(c["eqg"], c["comp"], c["rate_scaled"]) for c in out["calls"]]
    if not spec["complete"] and out["calls"]:
        ctx.violate("C04:survey:tag-on-incomplete-survey", "tagging call issued by a survey step that did not complete the site", inp)
    elif any(c["rate_scaled"] <= 0 for c in out["calls"]):
        ctx.violate("C04:survey:tag-for-nonpositive-rate", "tagging call for a detection report with measured rate <= 0", inp)
    elif got != want:
        ctx.violate("C04:survey:tagging-calls-differ",
                    "tagging calls are not exactly the detection reports with measured rate > 0, in report order", inp)
    for c in out["calls"]:
        if (c["company"], c["trd"], c["day"], c["t_since"], c["crew"]) != \
                ("c%d" % spec["method"], spec["trd"], spec["cur"], spec["cur"] - spec["prev"], spec["crew"]):
            ctx.violate("C04:survey:wrong-tagging-info",
                        "a tagging call does not carry the method's name / reporting delay / current date / days since the last survey / crew", inp)
            break
    if out["sets"] != ([spec["cur"]] if spec["complete"] else []):
        ctx.violate("C04:survey:latest-tagging-survey-date", "latest tagging survey date not set exactly once, to the current day, by a completed survey (and only then)", inp)
    if out["tagged_daily"] != len(out["calls"]):
        ctx.violate("C04:survey:tag-counter", "daily tagged-emissions counter differs from the number of tagging calls", inp)
    if not out["returned_super_tuple"] or not out["super_called_with_same_objects"]:
        ctx.violate("C04:survey:report-not-passed-through", "survey_site does not pass the generic survey step's result through", inp)


def survey_stage(ctx):
    from harness.adapters import emission as E

    specs = list(survey_specs_exhaustive()) + [survey_spec(ctx.rng) for _ in range(ctx.pick(3000, 60000))]
    model = core.LeanDriver("drv_emission").run([E.survey_model_line(sp) for sp in specs])
    for sp, ml in zip(specs, model):
        try:
            out = E.run_survey_site(sp)
        except (Exception, SystemExit) as e:  # noqa: BLE001
            ctx.disagree("emission/survey_site(tagCalls,tagEvs,latestTaggingSurvey)", {"survey_spec": sp}, ml,
                         "implementation: %s: %s" % (type(e).__name__, e))
            ctx.count("impl_exception")
            continue
        il = E.survey_impl_line(sp, out)
        ctx.evaluations += 1
        if il != ml:
            ctx.disagree("emission/survey_site(tagCalls,tagEvs,latestTaggingSurvey)", {"survey_spec": sp}, ml, il)
            ctx.count("survey_site_disagree")
        survey_oracle(ctx, sp, out)
        n_pos = sum(1 for _, ds in sp["groups"] for _, r in ds if r > 0)
        n_all = sum(len(ds) for _, ds in sp["groups"])
        ctx.count("survey_site:%s" % ("complete" if sp["complete"] else "incomplete"))
        if sp["complete"] and n_pos:
            ctx.count("survey_site:complete-with-tagging-calls")
        if n_all > n_pos:
            ctx.count("survey_site:with-nonpositive-measured-rate")
        if not sp["complete"] and n_pos:
            ctx.count("survey_site:incomplete-with-positive-detections")
        ctx.nontrivial.add(("survey", sp["complete"], min(n_pos, 4), min(n_all - n_pos, 4), len(sp["groups"])))
    ctx.traces += len(specs)
    ctx.count("survey_site_cases", len(specs))
    ctx.sample({"survey_spec": specs[-1], "model": model[-1]})


# ------------------------------------------------------------------------------------------------
# tie of `sampleDelay` to the real Source._get_rep_delay / Source._create_emission
# ------------------------------------------------------------------------------------------------
def delay_case(rng):
    kind = rng.choice(["list", "list", "list", "column", "column", "int", "missing-column"])
    n = 1 if kind == "int" else rng.choice([1, 2, 2, 3, 4, 5, 8])
    values = [rng.choice([0, 1, 2, 3, 7, 14, 30, 60, rng.randint(0, 90)]) for _ in range(n)]
    if kind in ("list", "column") and rng.random() < 0.3:
        # fractions of a day are valid input (the shipped default is the float list [14.0])
        values = [rng.choice([0.25, 0.5, 0.75, 2.5, 6.5, 10.25, 14.0, 3]) for _ in range(n)]
    return kind, values, rng.randrange(1 << 31)


def delay_oracle(ctx, kind, values, seed, out):
    inp = {"delay_case": [kind, values, seed], "implementation": out}
    if kind in ("list", "column") and not values:
        # empty collection: there is nothing to choose from (model: sampleDelay [] i = none)
        if not out["exited"]:
            ctx.violate("C04:delay:from-empty-configuration", "a repair delay was produced although no value is configured", inp)
        return
    if kind == "missing-column":
        if not out["exited"]:
            ctx.violate("C04:delay:unknown-column-accepted", "a repair-delay column that does not exist did not stop the run", inp)
        return
    if out["exited"]:
        ctx.violate("C04:delay:configured-delay-rejected", "_get_rep_delay exited on a valid configuration", inp)
        return
    if out["value"] not in values:
        ctx.violate("C04:delay:not-from-configured-values", "the sampled repair delay is not one of the configured values", inp)
    if out["emission_delay"] != out["value"]:
        ctx.violate("C04:delay:emission-gets-other-delay",
                    "the repair delay of a freshly created emission is not the value _get_rep_delay draws from the same generator state", inp)


def delay_stage(ctx):
    from harness.adapters import emission as E

    cases = [("list", [3], 1), ("list", [2, 9], 2), ("int", [5], 3), ("column", [1, 2, 3], 4), ("missing-column", [1], 5),
             ("list", [], 6), ("column", [], 7), ("list", [0], 8), ("list", [0, 0, 365], 9),
             ("list", [2.5, 6.5], 10), ("list", [0.75, 10.25], 11), ("column", [2.5, 6.5], 12), ("list", [14.0], 13)]
    cases += [delay_case(ctx.rng) for _ in range(ctx.pick(1500, 20000))]
    lines, owners = [], []
    hit = {}
    for kind, values, seed in cases:
        try:
            out = E.run_get_rep_delay(kind, values, seed)
        except Exception as e:  # noqa: BLE001
            ctx.disagree("emission/_get_rep_delay(sampleDelay)", {"delay_case": [kind, values, seed]},
                         "a configured value" if values else "-", "implementation: %s: %s" % (type(e).__name__, e))
            ctx.count("impl_exception")
            continue
        ctx.evaluations += 1
        delay_oracle(ctx, kind, values, seed, out)
        ctx.count("rep_delay:%s" % kind)
        if kind == "missing-column" or out["exited"]:
            continue
        if kind == "int":
            idx = 0  # no draw: the model's list is the singleton
        else:
            idx = out["index"]
            if idx is None or out.get("index_value") != out["value"]:
                # the model draws one element through np.random.choice; the implementation did not
                ctx.disagree("emission/_get_rep_delay(sampleDelay)", {"delay_case": [kind, values, seed]},
                             "one np.random.choice draw over the configured values, value = values[index]",
                             "draw recorded: index %r, value %r" % (idx, out["value"]))
                ctx.count("rep_delay_disagree")
                continue
            hit.setdefault(len(values), set()).add(idx)
        # the model's list holds integers: quarter days
        lines.append("sampledelay [%s] %d" % (",".join(str(int(round(v * 4))) for v in values), idx))
        if any(float(v) != int(v) for v in values):
            ctx.count("rep_delay:fractional-values")
        owners.append((kind, values, seed, out))
    model = core.LeanDriver("drv_emission").run(lines)
    for (kind, values, seed, out), ml in zip(owners, model):
        if ml != str(int(round(out["value"] * 4))):
            ctx.disagree("emission/_get_rep_delay(sampleDelay)", {"delay_case": [kind, values, seed]}, ml, str(out["value"]))
            ctx.count("rep_delay_disagree")
        ctx.nontrivial.add(("delay", kind, len(values), out["index"]))
    ctx.traces += len(cases)
    ctx.extra["rep_delay_indices_drawn"] = {str(n): sorted(v) for n, v in sorted(hit.items())}
    ctx.sample({"delay_case": list(cases[1]), "model": model[1] if len(model) > 1 else None})


def run(ctx):
    ctx.rule = ("same case set as C02 (structured-exhaustive core over reachable starts: persistent and intermittent kinds, "
                "one tag with reporting delay {0,2}, two tags with reporting delays {0,2}x{0,2} and different companies; + "
                "random small/large, tag and detection-only events, up to 3 tag requests incl. same-day and post-repair ones); "
                "expected end recomputed by date arithmetic; the real ComponentLevelMethod.survey_site on generated reports "
                "(complete / incomplete, measured rates <0, 0, >0; exhaustive up to 3 detections + random) vs tagCalls/tagEvs; "
                "the real Source._get_rep_delay/_create_emission (list / int / column / unknown column) vs sampleDelay with the "
                "drawn index recorded; whole simulations: repairs vs logged tagging calls and completed surveys, tagged leaks "
                "that were not repaired vs never-later / natural-first / first-tag-stays")
    core.lean_stage(ctx, MODULE, FILE, drivers=["drv_emission"])
    EC.tie_stage(ctx)  # layer 3: the emission methods, translated from the current source, are the model's functions
    cases = EC.build_cases(ctx)
    results = EC.correspond(ctx, cases)
    for (c, res, ml, il) in results:
        oracle_case(ctx, c, res)
        ctx.count("oracle_evaluated")
    for (c, res, ml, il) in results[:3]:
        ctx.sample({"case": list(c), "impl": il.split(" | ")[0], "expected": expected(c)})
    EC.shared_component_stage(ctx, lambda ctx, case, res, base, w: oracle_case(ctx, case, res))
    EC.hardening_stages(ctx, results, lambda ctx, case, res, base, origin: oracle_case(ctx, case, res))
    survey_stage(ctx)
    delay_stage(ctx)
    EC.wholerun_stage(ctx, 5, 21, wholerun_record)
    EC.finish_hit_rates(ctx)
    for k in ("wholerun_program_repaired", "wholerun_tagged_still_active", "wholerun_tagged_ended_natural"):
        ctx.counts.setdefault(k, 0)
        if ctx.counts[k] == 0:
            ctx.note("whole runs of this seed: %s = 0 - the corresponding whole-run oracle was not exercised "
                     "(the unit and shared-component stages cover the clause)" % k)
    ctx.extra["wholerun_evidence"] = {k: v for k, v in sorted(ctx.counts.items()) if k.startswith("wholerun_")}
    _end_arg_problem(ctx)


def _end_arg_problem(ctx):
    from harness.adapters import emission as E

    for msg in E.END_ARG_PROBLEM:
        ctx.broke("correspondence: summary end-date argument", msg)


def replay(ctx, data):
    inp = data.get("input", {})
    if "survey_spec" in inp:
        from harness.adapters import emission as E

        out = E.run_survey_site(inp["survey_spec"])
        survey_oracle(ctx, inp["survey_spec"], out)
        print("survey_site :", out)
    elif "delay_case" in inp:
        from harness.adapters import emission as E

        kind, values, seed = inp["delay_case"]
        out = E.run_get_rep_delay(kind, values, seed)
        delay_oracle(ctx, kind, values, seed, out)
        print("_get_rep_delay :", out)
    elif "case" not in inp:
        print("replay: not a single-emission case:", data.get("signature"), data.get("broken_obligations"))
        print(str(inp)[:2000])
        return 1
    else:
        c = inp["case"]
        case = tuple(c[:8]) + ([tuple(e) for e in c[8]],)
        res = EC.impl_result(case)
        oracle_case(ctx, case, res)
        print("implementation:", res)
        print("expected      :", expected(case))
    for v in ctx.violations:
        print("oracle:", v["signature"], "-", v["what"])
    return 1 if ctx.violations else 0
