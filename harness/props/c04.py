"""C04 — a leak is repaired only after being tagged, exactly after the configured delays.

Lean: Props/C04.lean (C04_first_tag_wins, C04_end_date(_E), C04_untagged_natural(_E),
C04_repair_needs_tag(_E), C04_not_earlier, C04_tag_needs_completed_survey, C04_delay_from_list).
Tie: real emission classes through real Component/Source vs drv_emission (same case set as C02) and
trace conformance of whole simulations.  Oracle: an independent day-arithmetic specification of
"first tag + max(1, repair delay + reporting delay), unless the natural end comes first" evaluated on
the implementation's records; whole runs: every program repair needs a logged tagging call of its
component on a *completed* survey of a component-scale method at that site on the detection date.
"""
from harness import core
from harness.props import _emission_common as EC

MANIFEST_ENTRY = {
    "text": "Lean theorem C04_repair_needs_tag (and its mixed-event lift _E) proves by induction over days, for every repairable emission, event schedule and horizon: a leak ended 'repaired by company c' has a first tag request, on a day T inside the period while it was active, issued by c, no tag request reached it on an earlier active day, and its end date is exactly T + max(1, repair delay + that request's reporting delay); C04_not_earlier: while waiting it is still active with an exact day count below the delay; C04_untagged_natural: without a company tag it ends only naturally after its natural in-period life; C04_end_date: end date = start + days active (incl. pre-period) for all four emission classes; C04_first_tag_wins; C04_tag_needs_completed_survey; C04_delay_from_list. Model tied to the real classes by differential correspondence on every run and by trace conformance of whole simulations; the oracle recomputes the expected end from the events by plain date arithmetic and checks whole-run repairs against logged tagging calls and completed surveys.",
    "design_ref": "DESIGN.md 5.4, 4.1",
    "note": "convention fixed in DESIGN.md 5.4: with day granularity the earliest end is tag day + 1, delays 0 and 1 coincide (max 1 delta). trusted: Lean kernel + standard axioms; model tied by sampled/structured-exhaustive correspondence; harness wrappers that log tagging calls and survey steps (observation only)",
    "technique": "Lean 4 history-invariant proof over the emission state machine + differential correspondence + trace conformance + direct oracle",
}
MODULE = "LdarModel.Props.C04"
FILE = "LdarModel/Props/C04.lean"


def expected(case):
    """independent specification: (status, endDate, by_company_index|natural|None, T)"""
    (start, nrd, delay, rep, inter, ad, idur, n, evs) = case
    a = max(start, 0)
    b4 = max(0, -start)
    life = max(1, nrd - b4)
    nat_end = a + life  # first day the emission is no longer active if nobody intervenes
    if a >= n:
        return ("inactive", None, None, None)
    if not rep:
        return ("expired", nat_end, "expire", None) if nat_end <= n else ("active", None, None, None)
    tag_days = sorted(set(e[0] for e in evs if not (len(e) > 3 and e[3] == 1) and a <= e[0] < min(nat_end, n)))
    if tag_days:
        T = tag_days[0]
        first = next(e for e in evs if e[0] == T and not (len(e) > 3 and e[3] == 1))
        rep_end = T + max(1, delay + first[2])
        if rep_end <= nat_end:
            return ("repaired", rep_end, "c%d" % first[1], T) if rep_end <= n else ("active", None, "c%d" % first[1], T)
    return ("repaired", nat_end, "natural", None) if nat_end <= n else ("active", None, None, None)


def oracle_case(ctx, case, res):
    (start, nrd, delay, rep, inter, ad, idur, n, evs) = case
    inp = {"case": list(case), "implementation": res}
    b4 = max(0, -start)
    if res["status"] in ("repaired", "expired"):
        if res["endDate"] != start + b4 + res["activeDays"]:
            ctx.violate("C04:end-date!=start+days-active", "recorded end date differs from start + total days active", inp)
    elif res["endDate"] is not None:
        ctx.violate("C04:end-date-on-live-emission", "an emission that has not ended carries an end date", inp)
    if nrd < 1:
        return
    st, end, by, T = expected(case)
    inp["expected"] = {"status": st, "endDate": end, "by": by, "tagDay": T}
    if res["status"] != st or res["endDate"] != end:
        if res["status"] == "repaired" and res["by"].startswith("c") and T is None:
            sig = "C04:repaired-without-tag"
        elif end is not None and res["endDate"] is not None and res["endDate"] < end:
            sig = "C04:ended-earlier-than-specified"
        elif res["endDate"] is None or (end is not None and res["endDate"] > end):
            sig = "C04:ended-later-than-specified"
        else:
            sig = "C04:end-differs"
        ctx.violate(sig, "end of the emission differs from tag day + max(1, repair delay + reporting delay) / natural end", inp)
    elif rep and st == "repaired" and res["by"] != by:
        ctx.violate("C04:wrong-tagger", "repaired leak is attributed to a different tag than the first one", inp)
    elif rep and T is not None and st in ("repaired", "active") and res["by"] not in (by, "natural"):
        ctx.violate("C04:first-tag-overwritten", "tag fields are not those of the first tag", inp)


def wholerun_record(ctx, res, rec):
    cfg = res.cfg
    inp = {"cfg": cfg, "prog": rec["prog"], "sim": rec["sim"], "key": list(rec["key"]), "row": rec["row"],
           "events_at_component": rec["tags"]}
    b4 = max(0, -rec["start"])
    if rec["status"] in ("repaired", "expired"):
        if rec["endDate"] != rec["start"] + b4 + rec["activeDays"]:
            ctx.violate("C04:end-date!=start+days-active", "recorded end date differs from start + total days active", inp)
    if not rec["repairable"]:
        return
    # tagging calls reach every emission *active* at the component: calls before this emission's first
    # active day concern its predecessors at the same component
    tag_calls = [e for e in rec["tags"] if e[0] == "tag" and e[1] >= max(rec["start"], 0)]
    if rec["status"] == "repaired" and rec["by"] not in ("natural",):
        comp_methods = [m for m, v in cfg["methods"].items() if v["measurement_scale"] == "component"]
        mine = [e for e in tag_calls if e[5] == rec["by"]]
        if rec["by"] not in comp_methods:
            ctx.violate("C04:tagged-by-non-tagging-method", "leak repaired after a tag of a method that cannot tag", inp)
        elif not mine:
            ctx.violate("C04:repaired-without-tag", "repaired leak has no logged tagging call of its component by that method", inp)
        else:
            first = tag_calls[0]
            T = first[1]
            if first[5] != rec["by"]:
                ctx.violate("C04:wrong-tagger", "repaired leak is not attributed to the first tagging call", inp)
            done = [s for s in rec["surveys"] if s[1] == T and s[2] == first[5] and s[3] == rec["key"][0] and s[11]]
            if not done:
                ctx.violate("C04:tag-without-completed-survey",
                            "tagging call without a completed survey of that site by that method that day", inp)
            delays = [int(x) for x in cfg["repair_delay"]]
            ok = any(rec["endDate"] == T + max(1, d + first[6]) for d in delays)
            nat_end = max(rec["start"], 0) + max(1, rec["nrd"] - b4)
            if not ok:
                ctx.violate("C04:end-differs", "repair date is not tag date + max(1, repair delay + reporting delay) for any configured delay", inp)
            if rec["endDate"] > nat_end:
                ctx.violate("C04:ended-later-than-specified", "program repair after the natural end", inp)
    if rec["status"] == "repaired" and rec["by"] == "natural":
        nat_end = max(rec["start"], 0) + max(1, rec["nrd"] - b4)
        if rec["endDate"] != nat_end:
            ctx.violate("C04:natural-end-differs", "naturally ended leak did not end at its natural duration", inp)
    ctx.count("wholerun_oracle_evaluated")


def run(ctx):
    ctx.rule = ("same case set as C02 (structured-exhaustive core + random small/large, tag and detection-only "
                "events, up to 3 tag requests incl. same-day and post-repair ones); expected end recomputed by "
                "date arithmetic; whole simulations: repairs vs logged tagging calls and completed surveys")
    core.lean_stage(ctx, MODULE, FILE, drivers=["drv_emission"])
    cases = EC.build_cases(ctx)
    results = EC.correspond(ctx, cases)
    for (c, res, ml, il) in results:
        oracle_case(ctx, c, res)
        ctx.count("oracle_evaluated")
    for (c, res, ml, il) in results[:3]:
        ctx.sample({"case": list(c), "impl": il.split(" | ")[0], "expected": expected(c)})
    EC.shared_component_stage(ctx, lambda ctx, case, res, base, w: oracle_case(ctx, case, res))
    EC.wholerun_stage(ctx, 2, 12, wholerun_record)


def replay(ctx, data):
    inp = data.get("input", {})
    if "case" not in inp:
        print("replay: not a single-emission case:", data.get("signature"), data.get("broken_obligations"))
        print(str(inp)[:2000])
        return 1
    c = inp["case"]
    case = tuple(c[:8]) + ([tuple(e) for e in c[8]],)
    res = EC.impl_result(case)
    oracle_case(ctx, case, res)
    print("implementation:", res)
    print("expected      :", expected(case))
    for v in ctx.violations:
        print("oracle:", v["signature"], "-", v["what"])
    return 1 if ctx.violations else 0
