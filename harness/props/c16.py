"""C16 — generated emissions respect their parameters, units and replicate independence.

Lean: Props/C16.lean (date_bounds, no_presim_when_disabled, no_overlap_single, ids_unique,
generate_sorted, convert_linear, unit_invariance (any Consistent table), rate_invariance,
cap_respected(_dist), table obligations Units.*, seeds_collide_beyond_range, extension_seed_index,
extension_preserves_existing, extension_distinct, C16_partial,
C16_counterexample).  Generated/Units.lean and Generated/EmisSeed.lean are rewritten from /repo first.
Tie: real Source.generate_emissions (np.random.binomial recorded, not altered) vs `drv_gen gen`;
real gas_convert evaluated on exact rationals vs `drv_gen conv/gas`; real EmissionsSource.unit_conversion,
EmissionsSourceSample / EmissionsSourceDist built by the real reader from generated emissions files in
every unit vs `drv_gen uconv/sample/dist`; real gen_seed_emis vs `drv_gen seeds`; real gen_seed_emis + initialize_emissions chained over multi-step
histories on one generator folder (np.random.seed recorded) vs `drv_gen init`.
Oracle: every clause of the property evaluated directly on the implementation's outputs.
"""
from __future__ import annotations

import ast
import hashlib
import math
import os
import shutil
import tempfile
from fractions import Fraction

from harness import core
from harness.extract import units as EX

MANIFEST_ENTRY = {
    "text": "Lean theorems over the generator model prove, for every pair of Bernoulli outcome lists, duration, multi-emission flag and pre-simulation setting: start dates within [start - duration, end] (date_bounds), none before the period when pre-simulation emissions are off (no_presim_when_disabled), starts of a single-emission source more than `duration` apart (no_overlap_single), ids 0..n-1 unique (ids_unique), pending list popped in strictly increasing start order (generate_sorted). Over exact rationals and the unit tables regenerated from unit_converter.py on every run: gas_convert is linear (convert_linear), converts any SI-written rate back to the same g/s value for every Consistent table (unit_invariance, rate_invariance), capped rates never exceed the converted maximum (cap_respected, cap_respected_dist with the table-positivity obligation), all 56 unit pairs convert with a positive factor; the current table is proved NOT consistent (seconds per year 31 540 000: known finding F10b) and what does hold of it is proved for every quantity: both rate sources return exactly 7884/7885 (1 for per-second units) times the capped physical rate, so SI units sharing a time unit agree exactly (si_drift_all, real_table_rates, same_increment_same_rates, per_second_rates_exact); mscf converts to exactly 353147/353100 of 1000 cubic feet (Units.mscf_drift, F10d); pound, cubic feet, liter, week, month, year are within 2e-6 of their independent legal/SI definitions (Units.non_si_entries_within_tolerance); the seed-index expressions of both generation loops of initialize_emissions are extracted from the AST and proved to be the simulation number (EmisSeed.seed_index_is_simulation_number), from which seeds drawn by randint(0,255) collide for certain beyond 255 simulations and may collide before (seeds_collide_beyond_range, seeds_distinct_counterexample: known finding F10c); after any history of fresh runs, extensions and smaller runs on one generator folder simulation i holds the scenario of emis_preseed_val[i], existing pickles are untouched by an extension and distinct seeds give distinct scenarios (extension_seed_index, extension_preserves_existing, extension_distinct); a table of class-/module-level containers, caches and copy hooks of the five modelled modules is extracted on every run and must show no state that survives between cases and a Source.__reduce__ argument order equal to _reconstruct's (GenState.no_cross_case_state); for every requested count the simulation manager runs exactly the numbers 0..n-1, each once, in both execution modes (numbers_run_exactly_once over batch_simulations, table obligation SimNumber.numbering_is_standard on the expressions extracted from both run loops); whatever runs used the generator folder before and wherever they were killed (after check_generator_files, after setup_infrastructure, after k scenario files, or not at all), a completed run hands out only scenarios generated under its own configuration (handed_out_own_configuration, table obligation GenMarker.marker_removed_with_hashes on the removal order extracted from the source); C16_partial / C16_counterexample. Models are tied to the real Source.generate_emissions, gas_convert (run on exact rationals), EmissionsSource classes built by the real reader from generated emissions files in all 56 units, gen_seed_emis and initialize_emissions (single runs and multi-step folder histories with the applied seed recorded per simulation number) by differential correspondence on every run; each clause of the property is evaluated directly on the implementation outputs (calendar dates read with datetime arithmetic, boundary periods - 1/2-day, Dec 31/Jan 1, Feb 28/29, day 366, whole-year shifts - generated on purpose); same-process histories (emissions files with colliding column names in both orders against the same file loaded alone in a fresh interpreter, reused and same-named Source objects, shared input dictionaries/lists/frames, pickling round trips) and emissions files with unusual column names and shapes are run on every check; the real SimulationManager.run_simulations loops (debug and pool) are driven for many counts, and whole runs in the normal execution mode with 6/7 (thorough 11/13) simulations, the DEBUG route and a run-after-another-run history are judged from the output files and the generator folder (every number simulated once, on its own generated scenario); set-up histories on a real SimulationManager with kill points between the steps are run over configurations differing in one clause-relevant leaf, and every clause is evaluated on the scenarios the last run hands to its simulations against its own parameters; granular infrastructure files with FALSE / 0 / blank / other override cells at every level are read by the real intake and the handed-out scenarios judged against the most granular value resolved from the files (duration, non-overlap, rate 0 => no emission); a crash or an unexpected shape of the real code becomes a violation with its input or a broken obligation, never an infrastructure exit.",
    "design_ref": "DESIGN.md 5.16",
    "note": "trusted: Lean kernel + propext/Classical.choice/Quot.sound; hand-written models tied by sampled correspondence; the ast extractor of the unit tables (cross-checked against the imported module on every run); float results of the rate-source classes are compared with the exact model inside a rounding envelope of 2^-40 relative (the function itself is compared exactly on rationals); non-SI units (pound, cubic feet, week, month, year) are written as defined by the table, whose entries are bounded against independent definitions at 2e-6 (Lean obligation + harness check), mscf as 1000 cubic feet; a unit deviation is filed under a known finding only when its ratio equals the proved drift within 1e-9; the injectivity seed -> scenario assumed by distinct_scenarios_partial / extension_distinct is measured (evidence: injectivity_assumption) and fails by construction for production rate 0; distributional correctness of the draws and of scipy/numpy is outside this check; 'different scenarios' is checked as distinct seeds + observed scenario inequality on non-degenerate configurations",
    "technique": "Lean 4 proofs over an executable generator / converter model + tables regenerated from source + differential correspondence with the real classes + direct oracle",
}

MODULE = "LdarModel.Props.C16"
FILE = "LdarModel/Props/C16.lean"
ENV = Fraction(1, 2 ** 40)          # float rounding envelope (relative)
SAME = 1e-9                         # "same rate" for the physical-equality oracle (relative)

SIG_TIME = "C16:unit-invariance:time-unit-other-than-second"
SIG_MSCF = "C16:unit-invariance:mscf-vs-cubic-feet"
SIG_SEED = "C16:replicates:seed-collision"
SIG_SAME = "C16:replicates:identical-scenarios-same-seed"


# ------------------------------------------------------------------------------------------------
# fingerprints of the modelled code
# ------------------------------------------------------------------------------------------------
def _find(tree, path):
    node = tree
    for name in path:
        for ch in node.body:
            if isinstance(ch, (ast.ClassDef, ast.FunctionDef)) and ch.name == name:
                node = ch
                break
        else:
            raise EX.ExtractError(f"{'.'.join(path)} not found")
    return node


def _strip_doc(fn):
    body = fn.body
    if body and isinstance(body[0], ast.Expr) and isinstance(getattr(body[0], "value", None), ast.Constant) \
            and isinstance(body[0].value.value, str):
        body = body[1:]
    return body


def code_fingerprints():
    from harness import shim
    src = lambda *p: open(os.path.join(shim.REPO_SRC, *p)).read()  # noqa: E731
    out = {}
    t = ast.parse(src("virtual_world", "sources.py"))
    out["sources.Source.generate_emissions"] = _find(t, ["Source", "generate_emissions"])
    t = ast.parse(src("file_processing", "input_processing", "emissions_source_processing.py"))
    out["emissions_source_processing.EmissionsSource.unit_conversion"] = _find(t, ["EmissionsSource", "unit_conversion"])
    out["emissions_source_processing.EmissionsSourceSample"] = _find(t, ["EmissionsSourceSample"])
    out["emissions_source_processing.EmissionsSourceDist.get_a_rate"] = _find(t, ["EmissionsSourceDist", "get_a_rate"])
    return {k: hashlib.sha256("\n".join(ast.dump(s) for s in _strip_doc(v)).encode()).hexdigest()[:16]
            for k, v in out.items()}


# ------------------------------------------------------------------------------------------------
# helpers
# ------------------------------------------------------------------------------------------------
def parse_frac(s):
    if s == "none":
        return None
    n, d = s.split("/")
    return Fraction(int(n), int(d))


def within(impl_float, model_frac, env=ENV):
    if impl_float is None or model_frac is None:
        return impl_float is None and model_frac is None
    x = Fraction(float(impl_float))
    return abs(x - model_frac) <= env * abs(model_frac)


def rel_diff(a, b):
    if a == b:
        return 0.0
    return abs(a - b) / max(abs(a), abs(b))


def real_crash(ctx, component, e, inp):
    """the real code raised on a valid input: never an infrastructure error, never a silent skip.  Consistency
    checks of the adapters (RuntimeError: the code no longer has the shape the adapter drives) become a broken
    obligation, anything else a violation with the input; the search continues."""
    import traceback as _tb
    if isinstance(e, core.InfraError):
        raise e
    if isinstance(e, RuntimeError):
        if sum(1 for b in ctx.broken if b["obligation"].startswith("adapter shape")) < 5:
            ctx.broke(f"adapter shape: {component}", f"{e} | input {inp}")
        ctx.count("adapter-shape:" + component)
        return
    ctx.violate(f"C16:crash:{component}:{type(e).__name__}",
                f"the real code raised {type(e).__name__} on a valid input: {str(e)[:160]}",
                dict(inp, traceback=_tb.format_exc()[-600:]))
    ctx.count("crash:" + component)


class Model:
    """the compiled Lean driver; if it could not be built the model side is skipped (the broken
    build is already recorded) and only the oracles run"""

    def __init__(self, ctx):
        self.drv = core.LeanDriver("drv_gen")
        self.ok = self.drv.available() and not any("lake build" in b["obligation"] for b in ctx.broken)
        if not self.ok:
            ok, _ = core.lake_build(["drv_gen"])
            self.ok = ok and self.drv.available()
        if not self.ok:
            ctx.note("drv_gen unavailable: model side of the correspondence skipped")

    def run(self, lines):
        if not self.ok:
            return [None] * len(lines)
        return self.drv.run(lines)


# physical meaning of the units, independent of the converter's seconds-per-year entry
def unit_defs(u):
    t = u["tables"]
    inm, inc = t["in_metrics"], t["increments"]
    year = Fraction(365 * 86400)
    secs = {"second": Fraction(1), "minute": Fraction(60), "hour": Fraction(3600), "day": Fraction(86400)}
    for k in inc:
        if k not in secs:                      # week / month / year: defined by the table relative to year
            secs[k] = year / inc[k]
    grams = {"gram": Fraction(1), "kilogram": Fraction(1000), "tonne": Fraction(10 ** 6)}
    for k, e in inm.items():
        if e["type"] == "mass" and k not in grams:
            grams[k] = Fraction(10 ** 6) / e["per_unit"]       # pound: as tabulated
    m3 = {"cubic meter": Fraction(1), "liter": Fraction(1, 1000)}
    for k, e in inm.items():
        if e["type"] == "volume" and k not in m3 and k != "mscf":
            m3[k] = 1 / e["per_unit"]                          # cubic feet: as tabulated
    if "mscf" in inm and "cubic feet" in m3:
        m3["mscf"] = 1000 * m3["cubic feet"]                   # by the meaning of the name
    return secs, grams, m3


# ------------------------------------------------------------------------------------------------
# part A/B: tables and the converter function (exact)
# ------------------------------------------------------------------------------------------------
def check_tables(ctx, G, M, u, s):
    live = G.live_tables()
    if live != u["tables"]:
        ctx.disagree("extractor", "unit tables", str(u["tables"])[:400], str(live)[:400])
    names = M.run(["names", "seedrange"])
    if names[0] is not None:
        t = u["tables"]
        enl = lambda ks: "[" + ",".join(G.en(k) for k in ks) + "]"  # noqa: E731
        want = (f"in={enl(t['in_metrics'])} out={enl(t['out_metrics'])} inc={enl(t['increments'])} "
                f"sub={enl(t['substances'])} temp={enl(t['temperature_units'])} pres={enl(t['pressure_units'])}")
        if names[0] != want:
            ctx.disagree("generated-table", "names", names[0], want)
        if s is not None and names[1] != f"{s['low']} {s['high']}":
            ctx.disagree("generated-table", "seedrange", names[1], f"{s['low']} {s['high']}")
    ctx.evaluations += 1


def converter_cases(ctx, u):
    t = u["tables"]
    rng = ctx.rng
    qs = [Fraction(0), Fraction(1), Fraction(18, 5), Fraction(1, 3), Fraction(1000), Fraction(-2)]
    qs += [Fraction(rng.randint(1, 10 ** 6), 10 ** rng.randint(0, 4)) for _ in range(ctx.pick(4, 40))]
    conv = [(m, i, q) for m in t["in_metrics"] for i in t["increments"] for q in qs]
    conv += [("Kilogram", "HOUR", Fraction(5)), ("furlong", "hour", Fraction(1)), ("gram", "fortnight", Fraction(1)),
             ("cubic feet", "Day", Fraction(7, 2))]
    subs = list(t["substances"]) + ["Methane", "ethane"]
    mets_out = list(t["out_metrics"]) + ["stone"]
    incs = list(t["increments"]) + ["decade"]
    temps = list(t["temperature_units"]) + ["f"]
    press = list(t["pressure_units"]) + ["bar"]
    full = []
    for _ in range(ctx.pick(2500, 40000)):
        dec = lambda lo, hi, p: Fraction(rng.randint(lo, hi), 10 ** p)  # noqa: E731
        full.append(dict(
            input_quantity=dec(0, 10 ** 5, rng.randint(0, 3)),
            input_substance=rng.choice(subs), input_metric=rng.choice(list(t["in_metrics"]) + ["stone"] * 0 + (["stone"] if rng.random() < 0.03 else [])),
            input_increment=rng.choice(incs if rng.random() < 0.05 else list(t["increments"])),
            output_substance=rng.choice(subs),
            output_metric=rng.choice(mets_out if rng.random() < 0.05 else list(t["out_metrics"])),
            output_increment=rng.choice(incs if rng.random() < 0.05 else list(t["increments"])),
            NG_comp=rng.choice([Fraction(949, 1000), dec(1, 1000, 3), Fraction(0)]) if rng.random() < 0.5 else Fraction(949, 1000),
            T=rng.choice([Fraction(60), dec(-400, 4000, 1), Fraction(0)]),
            P=rng.choice([Fraction(1), dec(0, 2000, 1)]),
            temperature_unit=rng.choice(temps if rng.random() < 0.05 else list(t["temperature_units"])),
            pressure_unit=rng.choice(press if rng.random() < 0.05 else list(t["pressure_units"])),
            GWP=rng.choice([Fraction(25), dec(1, 300, 1), Fraction(0)]) if rng.random() < 0.3 else Fraction(25),
        ))
    return conv, full


def run_converter(ctx, G, M, u):
    conv, full = converter_cases(ctx, u)
    lines = [f"conv {G.en(m)} {G.en(i)} {G.ftok(q)}" for (m, i, q) in conv]
    order = ["input_quantity", "input_substance", "input_metric", "input_increment", "output_substance",
             "output_metric", "output_increment", "NG_comp", "T", "P", "temperature_unit", "pressure_unit", "GWP"]

    def gas_line(kw):
        toks = []
        for k in order:
            v = kw[k]
            toks.append(G.ftok(v) if isinstance(v, Fraction) else G.en(v))
        return "gas " + " ".join(toks)

    lines += [gas_line(kw) for kw in full]
    model = M.run(lines)
    worst = 0.0
    for (m, i, q), ml in zip(conv, model):
        il = G.conv_exact(m, i, q)
        ctx.evaluations += 1
        if ml is not None and il != ml:
            ctx.disagree("gas_convert(exact)", {"metric": m, "increment": i, "q": str(q)}, ml, il)
        # float mode of the very same call stays inside the rounding envelope of the exact value
        fl = G.conv_float(m, i, float(q))
        ex = parse_frac(il)
        if not within(fl, ex):
            ctx.disagree("gas_convert(float-vs-exact)", {"metric": m, "increment": i, "q": str(q)}, il, repr(fl))
        elif ex:
            worst = max(worst, float(abs(Fraction(fl) - ex) / abs(ex)))
        ctx.count("conv:" + ("reject" if il == "none" else "ok"))
        if il != "none" and q > 0:
            ctx.nontrivial.add(("conv", m.lower(), i.lower()))
    for kw, ml in zip(full, model[len(conv):]):
        call = {k: (G.Q(v) if isinstance(v, Fraction) else v) for k, v in kw.items()}
        il = G.gas_exact(**call)
        ctx.evaluations += 1
        if ml is not None and il != ml:
            ctx.disagree("gas_convert(exact,all-args)", {k: str(v) for k, v in kw.items()}, ml, il)
        ctx.count("gas:" + ("reject" if il == "none" else "ok"))
        if il != "none":
            ctx.nontrivial.add(("gas", kw["input_substance"].lower(), kw["output_substance"].lower(),
                                u["tables"]["in_metrics"][kw["input_metric"].lower()]["type"],
                                u["tables"]["out_metrics"][kw["output_metric"].lower()]["type"]))
    ctx.extra["float_vs_exact_worst_rel"] = worst
    ctx.traces += len(lines)
    ctx.sample({"conv": "kilogram/hour 18/5", "impl_exact": G.conv_exact("kilogram", "hour", Fraction(18, 5)),
                "impl_float": G.conv_float("kilogram", "hour", 3.6)})


def run_unit_conversion_exact(ctx, G, M, u):
    """EmissionsSource.unit_conversion (list branch, pass-through) on exact numbers, mass metrics"""
    t = u["tables"]
    es = G.ESP.EmissionsSource("x")
    qs = [Fraction(18, 5), Fraction(1), Fraction(ctx.rng.randint(1, 9999), 100)]
    cases = [(m, i, q) for m, e in t["in_metrics"].items() if e["type"] == "mass" for i in t["increments"] for q in qs]
    model = M.run([f"uconv {G.en(m)} {G.en(i)} {G.ftok(q)}" for (m, i, q) in cases])
    for (m, i, q), ml in zip(cases, model):
        out = es.unit_conversion([G.Q(q)], m, i)
        il = "none" if out is None else G.fstr(out[0].v)
        ctx.evaluations += 1
        if ml is not None and il != ml:
            ctx.disagree("EmissionsSource.unit_conversion(list, exact)", {"metric": m, "increment": i, "q": str(q)}, ml, il)
        ctx.nontrivial.add(("uconv", m, i))
    ctx.traces += len(cases)


# ------------------------------------------------------------------------------------------------
# part C: rate-source classes from generated files in every unit
# ------------------------------------------------------------------------------------------------
def population(rng):
    """a base population in reference units (g/s for mass, m3/s for volume): samples, cap, lognormal"""
    n = rng.randint(1, 7)
    samples = [rng.choice([0.25, 0.5, 1.0, 2.5, 4.0, 7.25, rng.randint(1, 4000) / 100.0]) for _ in range(n)]
    cap = rng.choice([1.0, 3.0, 5.5, 1000.0, rng.randint(50, 600) / 100.0])
    mu = rng.randint(-200, 200) / 100.0
    sigma = rng.randint(20, 250) / 100.0
    dcap = math.exp(mu) * rng.choice([0.5, 1.0, 3.0, 1e6])
    return {"samples": samples, "cap": cap, "mu": mu, "sigma": sigma, "dcap": dcap}


def write_unit_file(G, folder, pop, metric, increment, f):
    """the population written in `metric` per `increment` (f = units per reference unit)"""
    cols = [
        dict(name="smp", kind="sample", cap=repr(pop["cap"] * f), metric=metric, increment=increment,
             values=[repr(s * f) for s in pop["samples"]]),
        dict(name="dst", kind="dist", cap=repr(pop["dcap"] * f), metric=metric, increment=increment,
             values=[repr(pop["mu"] + math.log(f)), repr(pop["sigma"])]),
    ]
    G.write_emissions_file(folder, cols)
    return cols


def draw_rates(G, srcs, np_seed, k):
    """k rates from each source under a fixed generator state; picks / draws recorded"""
    out = {}
    for name in ("smp", "dst"):
        G.np.random.seed(np_seed)
        with G.record_rate_draws([srcs[name]]) as (picks, draws):
            rates = [float(srcs[name].get_a_rate()) for _ in range(k)]
        out[name] = (rates, list(picks), list(draws))
    return out


def unit_factor(secs, grams, m3, kind, metric, increment):
    per_ref = (1 / grams[metric]) if kind == "mass" else (1 / m3[metric])
    return per_ref * secs[increment]


DRIFT_TIME = 7884 / 7885            # Lean: Units.si_drift / si_drift_all (31 536 000 / 31 540 000)
DRIFT_MSCF = 353147 / 353100        # Lean: Units.mscf_drift   (35.3147 / (1000 * 0.03531))


def classify_unit_violation(metric, increment, pairs):
    """pairs = [(rate from the file in this unit, rate from the reference-unit file)].  The two recorded
    table inconsistencies predict the ratio EXACTLY (proved in Lean); a deviation is filed under a known
    signature only if every ratio equals that prediction within 1e-9 — anything else (a second small
    error on the same unit, a typo in another entry, a skipped or doubled conversion) is its own
    signature and therefore a VIOLATION."""
    expected = 1.0
    if increment != "second":
        expected *= DRIFT_TIME
    if metric == "mscf":
        expected *= DRIFT_MSCF
    ratios = [a / b for a, b in pairs if b != 0]
    exact = bool(ratios) and all(abs(r - expected) < 1e-9 for r in ratios) \
        and all(a == 0 for a, b in pairs if b == 0)
    if exact and increment != "second":
        return SIG_TIME          # for mscf per non-second the predicted ratio is the product of both drifts
    if exact and metric == "mscf":
        return SIG_MSCF
    return f"C16:unit-invariance:{metric}/{increment}"


def run_rate_sources(ctx, G, M, u, tmp):
    t = u["tables"]
    secs, grams, m3 = unit_defs(u)
    rounds = ctx.pick(4, 30)
    k = ctx.pick(12, 30)
    lines, checks = [], []
    for r in range(rounds):
        pop = population(ctx.rng)
        np_seed = ctx.rng.randrange(2 ** 31)
        ref = {}
        for kind, refm in (("mass", "gram"), ("volume", "cubic meter")):
            folder = os.path.join(tmp, f"u{r}_{kind}_ref")
            os.makedirs(folder)
            write_unit_file(G, folder, pop, refm, "second", 1.0)
            ref[kind] = draw_rates(G, G.load_rate_sources(folder), np_seed, k)
        for metric, e in t["in_metrics"].items():
            kind = e["type"]
            for increment in t["increments"]:
                f = float(unit_factor(secs, grams, m3, kind, metric, increment))
                folder = os.path.join(tmp, f"u{r}_{G.en(metric)}_{increment}")
                os.makedirs(folder)
                cols = write_unit_file(G, folder, pop, metric, increment, f)
                srcs = G.load_rate_sources(folder)
                got = draw_rates(G, srcs, np_seed, k)
                inp = {"kind": "unit-case", "population": pop, "metric": metric, "increment": increment,
                       "np_seed": np_seed, "k": k}
                # ---- correspondence: the class against the exact model (rounding envelope)
                smp = srcs["smp"]
                file_vals = [float(v) for v in cols[0]["values"]]
                capf = float(cols[0]["cap"])
                rates, picks, _ = got["smp"]
                for rate, pick in zip(rates, picks):
                    idx = [j for j, cv in enumerate(smp._samples) if float(cv) == pick]
                    if not idx:
                        ctx.disagree("EmissionsSourceSample", inp, "pick is one of the converted samples", repr(pick))
                        continue
                    lines.append(f"sample {G.en(metric)} {G.en(increment)} {G.ftok(Fraction(file_vals[idx[0]]))} {G.ftok(Fraction(capf))}")
                    checks.append(("EmissionsSourceSample.get_a_rate", inp, rate))
                dcapf = float(cols[1]["cap"])
                rates_d, _, draws = got["dst"]
                for rate, draw in zip(rates_d, draws):
                    lines.append(f"dist {G.en(metric)} {G.en(increment)} {G.ftok(Fraction(draw))} {G.ftok(Fraction(dcapf))}")
                    checks.append(("EmissionsSourceDist.get_a_rate", inp, rate))
                # ---- oracle: never above the declared maximum; same rates as the reference unit
                cap_ref = {"smp": pop["cap"], "dst": pop["dcap"]}
                bad_unit = None
                for name in ("smp", "dst"):
                    for j, (a, b) in enumerate(zip(got[name][0], ref[kind][name][0])):
                        ctx.evaluations += 1
                        if kind == "mass" and a > cap_ref[name] * (1 + SAME):
                            ctx.violate("C16:cap-exceeded:" + name, "true rate above the declared maximum (g/s)",
                                        dict(inp, source=name, rate=a, cap_gs=cap_ref[name]))
                        if rel_diff(a, b) > SAME and (bad_unit is None or rel_diff(a, b) > rel_diff(*bad_unit[2:])):
                            bad_unit = (name, j, a, b)
                if bad_unit is not None:
                    name, j, a, b = bad_unit
                    allpairs = [(x, y) for nm in ("smp", "dst") for x, y in zip(got[nm][0], ref[kind][nm][0])]
                    ctx.violate(classify_unit_violation(metric, increment, allpairs),
                                "the same physical rates written in another unit give different g/s rates",
                                dict(inp, source=name, draw=j, rate=a, reference_rate=b, rel=rel_diff(a, b)))
                    ctx.count("unit-invariance:differs")
                else:
                    ctx.count("unit-invariance:same")
                capped = sum(1 for x in got["smp"][0] if x == float(smp._max_emis_rate))
                ctx.nontrivial.add(("rates", metric, increment, capped > 0, capped < k))
    model = M.run(lines)
    for ml, (comp, inp, rate) in zip(model, checks):
        ctx.evaluations += 1
        if ml is not None and not within(rate, parse_frac(ml)):
            ctx.disagree(comp, inp, ml, repr(rate))
    ctx.traces += len(lines)


# ------------------------------------------------------------------------------------------------
# part D: generation
# ------------------------------------------------------------------------------------------------
BOUNDARY_STARTS = ["2023-12-31", "2024-01-01", "2024-02-28", "2024-02-29", "2024-03-01", "2023-02-28", "2023-03-01",
                   "2024-12-31", "2022-07-15", "2024-12-30", "2023-01-02", "2020-02-29"]


def case_start(c):
    from datetime import date as _d
    return _d.fromisoformat(c[8]) if len(c) > 8 and c[8] else None


def gen_cases(ctx):
    """(duration, multi, pre-sim, N, p, numpy seed, repairable, persistent, start date or None)"""
    rng = ctx.rng
    cases = []
    ps = [0.0, 1.0, 0.5, 0.5, 0.3, 0.8, 0.1]
    for _ in range(ctx.pick(28000, 240000)):
        cases.append((rng.randint(0, 5), rng.random() < 0.4, rng.random() < 0.7, rng.randint(1, 8),
                      rng.choice(ps), rng.randrange(2 ** 31), rng.random() < 0.7, rng.random() < 0.8,
                      rng.choice(BOUNDARY_STARTS) if rng.random() < 0.3 else None))
    for _ in range(ctx.pick(800, 15000)):
        dur = rng.choice([1, 7, 30, 90, 365, rng.randint(1, 500)])
        cases.append((dur, rng.random() < 0.4, rng.random() < 0.7, rng.choice([1, 30, 365, 730, rng.randint(1, 900)]),
                      rng.choice([0.0, 1.0, 0.0065, 0.05, 0.5, rng.random()]), rng.randrange(2 ** 31),
                      rng.random() < 0.7, rng.random() < 0.8, rng.choice(BOUNDARY_STARTS) if rng.random() < 0.3 else None))
    # boundary dates and periods on purpose: 1- and 2-day periods, periods ending on / straddling Dec 31, Feb 28/29,
    # day 366, durations of exactly a (leap) year, pre-period windows that reach back across New Year
    grid = [(st, n, dur) for st in BOUNDARY_STARTS for n in (1, 2, 3, 59, 60, 365, 366, 367)
            for dur in (0, 1, 2, 30, 365, 366)]
    rng.shuffle(grid)
    for (st, n, dur) in grid[:ctx.pick(220, len(grid))]:
        cases.append((dur, rng.random() < 0.5, rng.random() < 0.8, n, rng.choice([1.0, 0.5, 0.05, 0.3]),
                      rng.randrange(2 ** 31), True, True, st))
    return cases


def calendar_oracle(ctx, c, out):
    """reads the emissions' own calendar dates (ISO strings) with datetime.date arithmetic only"""
    from datetime import date as _d, timedelta as _td
    (dur, multi, pre_en, n) = c[:4]
    start = case_start(c) or _d(2022, 1, 1)
    end = start + _td(days=n - 1)
    ds = [_d.fromisoformat(x) for x in out["dates"]]
    inp = {"kind": "gen-case", "case": list(c), "dates": out["dates"], "period": [start.isoformat(), end.isoformat()]}
    if any(not (start - _td(days=dur) <= d <= end) for d in ds):
        ctx.violate("C16:date-bounds:calendar", "emission start date outside [period start - duration, period end] (calendar)", inp)
    if not pre_en and any(d < start for d in ds):
        ctx.violate("C16:presim-disabled:calendar", "emission dated before the period although pre-simulation emissions are disabled", inp)
    if len(set(ds)) != len(ds):
        ctx.violate("C16:calendar:duplicate-date", "two emissions of one source start on the same calendar date", inp)
    if not multi:
        asc = sorted(ds)
        if any(b <= a + _td(days=dur) for a, b in zip(asc, asc[1:])):
            ctx.violate("C16:overlap-single:calendar", "single-emission source: natural lifetimes overlap (calendar)", inp)
    for d in ds:
        ctx.count("calendar:" + ("dec31" if (d.month, d.day) == (12, 31) else "jan1" if (d.month, d.day) == (1, 1)
                                 else "feb29" if (d.month, d.day) == (2, 29) else "other"))


def one_year_twin(ctx, G, c, out, rs):
    """the same period shifted by exactly one calendar year (same length, same draws) gives the same offsets"""
    from datetime import date as _d
    st = case_start(c)
    if st is None:
        return
    try:
        st2 = _d(st.year + 1, st.month, st.day)
    except ValueError:
        st2 = _d(st.year + 4, st.month, st.day)        # Feb 29: the next leap year
    (dur, multi, pre_en, n, p, seed, rep, pers) = c[:8]
    twin = G.run_generate(dur, multi, pre_en, n, p, seed, rs, rate_key="smp", repairable=rep, persistent=pers, sim_start=st2)
    ctx.evaluations += 1
    if [(a, b) for (a, b, _, _) in twin["ems"]] != [(a, b) for (a, b, _, _) in out["ems"]] or twin["pre"] != out["pre"] \
            or twin["sim"] != out["sim"]:
        ctx.violate("C16:calendar:period-shift", "the same period shifted by whole years (same length, same draws) gives different start offsets",
                    {"kind": "gen-case", "case": list(c), "shifted_start": st2.isoformat(), "dates": out["dates"], "dates_shifted": twin["dates"]})
    ctx.nontrivial.add(("twin", c[8], min(n, 400), bool(out["ems"])))


def gen_oracle(ctx, case, out, cap_gs, allowed):
    (dur, multi, pre_en, n, p, seed, rep, pers) = case[:8]
    inp = {"kind": "gen-case", "case": list(case), "pre": out["pre"], "sim": out["sim"],
           "emissions": [[s, ids] for (s, _, ids, _) in out["ems"]]}
    starts = [s for (s, _, _, _) in out["ems"]]
    for s in starts:
        if not (-dur <= s <= n - 1):
            ctx.violate("C16:date-bounds", "emission starts outside [start - duration, end]", inp)
            break
    if not pre_en and any(s < 0 for s in starts):
        ctx.violate("C16:presim-disabled", "emission starts before the period although pre-simulation emissions are disabled", inp)
    if not multi:
        asc = sorted(starts)
        if any(b <= a + dur for a, b in zip(asc, asc[1:])):
            ctx.violate("C16:overlap-single", "single-emission source: natural lifetimes of two emissions overlap", inp)
    ids = [i for (_, _, i, _) in out["ems"]]
    if len(set(ids)) != len(ids):
        ctx.violate("C16:ids-not-unique", "two emissions of one source share an identifier", inp)
    if any(a <= b for a, b in zip(starts, starts[1:])):
        ctx.violate("C16:pending-list-order", "pending list is not in strictly decreasing start order (pop() would deliver out of date order)", inp)
    for (_, _, _, rate) in out["ems"]:
        if rate > cap_gs * (1 + SAME):
            ctx.violate("C16:cap-exceeded:population", "generated emission above the declared maximum", dict(inp, rate=rate, cap=cap_gs))
            break
        if allowed is not None and not any(rel_diff(rate, a) <= SAME for a in allowed):
            ctx.violate("C16:rate-not-from-source", "generated rate is not one of the (capped) sample rates in g/s", dict(inp, rate=rate))
            break


def run_generation(ctx, G, M, tmp):
    # rate sources: one sample-type source in kg/h and one in g/s over the same physical population
    pop = {"samples": [0.5, 1.0, 2.5, 7.25], "cap": 3.0, "mu": 0.0, "sigma": 1.0, "dcap": 3.0}
    folder = os.path.join(tmp, "gen_rates")
    os.makedirs(folder)
    write_unit_file(G, folder, pop, "gram", "second", 1.0)
    rs = G.load_rate_sources(folder)
    allowed = [min(s, pop["cap"]) for s in pop["samples"]]
    cases0 = gen_cases(ctx)
    cases, outs, lines = [], [], []
    for c in cases0:
        (dur, multi, pre_en, n, p, seed, rep, pers) = c[:8]
        try:
            out = G.run_generate(dur, multi, pre_en, n, p, seed, rs, rate_key="smp", repairable=rep, persistent=pers,
                                 sim_start=case_start(c))
        except (Exception, SystemExit) as e:    # noqa: BLE001  a valid case must not crash the real generator
            real_crash(ctx, "Source.generate_emissions", e, {"kind": "gen-case", "case": list(c)})
            continue
        cases.append(c)
        outs.append(out)
        lines.append(G.gen_line(dur, multi, pre_en, out["pre"], out["sim"]))
    model = M.run(lines)
    for c, out, ml in zip(cases, outs, model):
        (dur, multi, pre_en, n, p, seed, rep, pers) = c[:8]
        ctx.evaluations += 1
        il = G.impl_gen_reply(out["ems"])
        if len(out["sim"]) != n or (pre_en and len(out["pre"]) != dur):
            ctx.disagree("generate_emissions(draw sizes)", {"case": list(c)}, f"pre {dur} sim {n}",
                         f"pre {len(out['pre'])} sim {len(out['sim'])}")
        if ml is not None and il != ml:
            ctx.disagree("Source.generate_emissions", {"case": list(c), "pre": out["pre"], "sim": out["sim"]}, ml, il)
        gen_oracle(ctx, c, out, pop["cap"], allowed)
        calendar_oracle(ctx, c, out)
        if len(c) > 8 and c[8] and (n in (1, 2, 3, 59, 60, 365, 366, 367)) and dur in (0, 1, 2, 30, 365, 366):
            try:
                one_year_twin(ctx, G, c, out, rs)
            except (Exception, SystemExit) as e:    # noqa: BLE001
                real_crash(ctx, "Source.generate_emissions", e, {"kind": "gen-case", "case": list(c), "shifted": True})
        starts = [s for (s, _, _, _) in out["ems"]]
        hits = sum(out["pre"]) + sum(out["sim"])
        if out["ems"]:
            ctx.nontrivial.add(("gen", multi, pre_en, min(dur, 6), any(s < 0 for s in starts), -dur in starts,
                                hits > len(starts), min(len(starts), 6), min(n, 9), (n - 1) in starts))
        ctx.count("gen:" + ("multi" if multi else "single") + ("+pre" if pre_en else ""))
        ctx.count("gen:kind:" + ("rep" if rep else "nonrep") + ("" if pers else "-interm"))
        if len(c) > 8 and c[8]:
            ctx.count("gen:boundary-start")
    ctx.traces += len(cases)
    for c, out in list(zip(cases, outs))[:2]:
        ctx.sample({"gen_case": list(c), "pre": out["pre"], "sim": out["sim"], "impl": G.impl_gen_reply(out["ems"])})
    # same physical population written in other units gives the same scenario (dates, ids and rates)
    secs, grams, m3 = UNITDEFS
    for (metric, increment) in [("kilogram", "hour"), ("tonne", "day"), ("gram", "second"), ("kilogram", "second"), ("pound", "minute")]:
        f = float(unit_factor(secs, grams, m3, "mass", metric, increment))
        folder = os.path.join(tmp, f"gen_{metric}_{increment}")
        os.makedirs(folder)
        write_unit_file(G, folder, pop, metric, increment, f)
        rs_u = G.load_rate_sources(folder)
        for key in ("smp", "dst"):
            for _ in range(ctx.pick(6, 40)):
                c = (ctx.rng.randint(1, 40), ctx.rng.random() < 0.5, True, ctx.rng.randint(20, 200), 0.3, ctx.rng.randrange(2 ** 31), True, True)
                a = G.run_generate(*c[:6], rs, rate_key=key)
                b = G.run_generate(*c[:6], rs_u, rate_key=key)
                ctx.evaluations += 1
                inp = {"kind": "scenario-unit-case", "case": list(c), "metric": metric, "increment": increment,
                       "population": pop, "source": key}
                if [(s, i) for (s, i, _, _) in a["ems"]] != [(s, i) for (s, i, _, _) in b["ems"]]:
                    ctx.violate("C16:scenario-differs-by-unit:dates", "emission dates change with the unit of the emissions file", inp)
                elif any(rel_diff(x[3], y[3]) > SAME for x, y in zip(a["ems"], b["ems"])):
                    ctx.violate(classify_unit_violation(metric, increment, [(y[3], x[3]) for x, y in zip(a["ems"], b["ems"])]),
                                "the same physical rates written in another unit give a different scenario (rates)",
                                dict(inp, rates=[x[3] for x in a["ems"]][:4], rates_other_unit=[y[3] for y in b["ems"]][:4]))
                if a["ems"]:
                    ctx.nontrivial.add(("scenario-unit", metric, increment, key))


# ------------------------------------------------------------------------------------------------
# part E: seeds and replicates
# ------------------------------------------------------------------------------------------------
SPECS = [(5, False, 0.5), (3, True, 0.4)]


def seed_case(ctx, G, M, tmp, tag, n_sim, np_seed, grow_to=None):
    gd = os.path.join(tmp, f"seed_{tag}")
    os.makedirs(gd)
    gen = os.path.join(gd, "generator")
    seeds, force, calls = G.run_gen_seed_emis(n_sim, gen, np_seed)
    rng_ok = SEEDINFO is None or all((lo, hi) == (SEEDINFO["low"], SEEDINFO["high"]) for lo, hi, _ in calls)
    if not rng_ok:
        ctx.disagree("gen_seed_emis(randint range)", {"n_sim": n_sim}, f"{SEEDINFO}", str(calls[:3]))
    if SEEDINFO is not None and any(not (SEEDINFO["low"] <= v < SEEDINFO["high"]) for _, _, v in calls):
        ctx.disagree("randint semantics", {"n_sim": n_sim}, "low <= v < high", str(calls[:3]))
    draws = [v for _, _, v in calls]
    lines = [f"seeds [] [{','.join(map(str, draws))}] {n_sim}"]
    expect = [seeds]
    if grow_to:
        seeds2, _, calls2 = G.run_gen_seed_emis(grow_to, gen)
        lines.append(f"seeds [{','.join(map(str, seeds))}] [{','.join(str(v) for _, _, v in calls2)}] {grow_to}")
        expect.append(seeds2)
        seeds3, _, calls3 = G.run_gen_seed_emis(max(1, n_sim - 1), gen)   # fewer simulations: list untouched
        lines.append(f"seeds [{','.join(map(str, seeds2))}] [] {max(1, n_sim - 1)}")
        expect.append(seeds3)
        if calls3:
            ctx.disagree("gen_seed_emis", {"n_sim": n_sim}, "no draw when enough seeds exist", str(calls3))
        seeds = seeds2
    for ml, e in zip(M.run(lines), expect):
        ctx.evaluations += 1
        if ml is not None and ml != "[" + ",".join(map(str, e)) + "]":
            ctx.disagree("gen_seed_emis", {"n_sim": n_sim, "np_seed": np_seed}, ml, str(e))
    ctx.traces += len(lines)
    inp = {"kind": "seed-case", "n_sim": len(seeds), "np_seed": np_seed, "grow_to": grow_to, "first_n": n_sim}
    dup = sorted({v for v in seeds if seeds.count(v) > 1})
    if dup:
        a = seeds.index(dup[0])
        b = seeds.index(dup[0], a + 1)
        ctx.violate(SIG_SEED, "two simulation numbers receive the same emission seed",
                    dict(inp, simulations=[a, b], seed=dup[0]))
        ctx.count("seeds:collision")
    else:
        ctx.count("seeds:distinct")
    ctx.nontrivial.add(("seeds", min(len(seeds), 300) // 50, bool(dup), bool(grow_to)))
    return seeds, gen


INJ = {"nondegenerate_pairs_with_different_seeds": 0, "of_which_different_scenarios": 0,
       "degenerate_pairs_with_different_seeds": 0, "of_which_identical_scenarios": 0}


def scenario_case(ctx, G, tmp, tag, seeds, preseed, np_seed, n_days=60, pre_enabled=True, specs=None):
    """specs=None: the non-degenerate configuration SPECS (judged).  A degenerate configuration (production
    rate 0: every seed gives the empty scenario) is run only to MEASURE how the injectivity assumption of
    distinct_scenarios_partial / extension_distinct fails there; it is counted, not judged."""
    degenerate = specs is not None
    gd = os.path.join(tmp, f"scen_{tag}")
    os.makedirs(gd)
    fps = G.run_initialize_emissions(len(seeds), preseed, seeds, gd, specs or SPECS, RATES, n_days, pre_enabled, np_seed)
    inp = {"kind": "scenario-case", "seeds": seeds if len(seeds) <= 12 else None, "n_sim": len(seeds),
           "preseed": preseed, "np_seed": np_seed, "n_days": n_days}
    if preseed and len(seeds) <= 60:
        for a in range(len(seeds)):
            for b in range(a + 1, len(seeds)):
                if seeds[a] != seeds[b]:
                    if degenerate:
                        INJ["degenerate_pairs_with_different_seeds"] += 1
                        INJ["of_which_identical_scenarios"] += int(fps[a] == fps[b])
                    else:
                        INJ["nondegenerate_pairs_with_different_seeds"] += 1
                        INJ["of_which_different_scenarios"] += int(fps[a] != fps[b])
    if degenerate:
        ctx.count("scenarios:degenerate-configuration(not judged)")
        return fps
    seen = {}
    for i, fp in enumerate(fps):
        ctx.evaluations += 1
        if fp in seen:
            j = seen[fp]
            if preseed and seeds[i] == seeds[j]:
                ctx.violate(SIG_SAME, "two simulation numbers receive the identical emission scenario (same seed)",
                            dict(inp, simulations=[j, i], seed=seeds[i], seeds=seeds if len(seeds) <= 400 else None))
            else:
                ctx.violate("C16:replicates:identical-scenarios", "two simulation numbers receive the identical emission scenario",
                            dict(inp, simulations=[j, i]))
            break
        seen[fp] = i
    ctx.nontrivial.add(("scenarios", preseed, len(seeds) > 255, len(set(fps)) < len(fps)))
    return fps


def run_seeds(ctx, G, M, tmp):
    rng = ctx.rng
    plan = [(2, None), (5, 9), (30, None), (100, 140), (300, None), (1, 3)]
    plan += [(rng.randint(2, 60), None) for _ in range(ctx.pick(10, 200))]
    first_collision = None
    for k, (n, grow) in enumerate(plan):
        seeds, _ = seed_case(ctx, G, M, tmp, k, n, rng.randrange(2 ** 31), grow)
        if k < ctx.pick(6, 30) or (first_collision is None and len(set(seeds)) < len(seeds)):
            scenario_case(ctx, G, tmp, f"p{k}", seeds, True, rng.randrange(2 ** 31))
            if len(set(seeds)) < len(seeds):
                first_collision = k
    # the Lean witness of seeds_distinct_counterexample replayed on the real code
    scenario_case(ctx, G, tmp, "witness", [7, 7], True, 0)
    # without pre-seeding nothing re-seeds the generator between simulations
    for k in range(ctx.pick(3, 20)):
        scenario_case(ctx, G, tmp, f"n{k}", [0] * rng.randint(2, 12), False, rng.randrange(2 ** 31))
    # degenerate configurations (production rate 0): measured against the injectivity assumption, not judged
    for k in range(ctx.pick(3, 12)):
        scenario_case(ctx, G, tmp, f"d{k}", rng.sample(range(255), rng.randint(2, 8)), True, rng.randrange(2 ** 31),
                      specs=[(5, False, 0.0), (3, True, 0.0)])
    ctx.extra["injectivity_assumption"] = dict(INJ)



# ------------------------------------------------------------------------------------------------
# part F: histories of runs on one generator folder (fresh, extension, smaller run)
# ------------------------------------------------------------------------------------------------
def history_oracle(ctx, M, steps, np_seed, res, reload=False):
    inp = {"kind": "history-case", "steps": [list(s) for s in steps], "np_seed": np_seed, "reload": reload}
    lines = []
    for st in res:
        lines.append(f"init [{','.join(map(str, st['seed_file']))}] {st['saved_before']} {int(st['fresh'])} {st['n']}")
    model = M.run(lines)
    expected_saved, prev_saved = 0, 0
    for k, (st, ml) in enumerate(zip(res, model)):
        ctx.evaluations += 1
        il = "[" + ",".join(f"[{i},{'-' if sd is None else sd}]" for i, sd in st["trace"]) + f"] {st['saved_after']}"
        if ml is not None and ml != il:
            ctx.disagree("initialize_emissions(seed trace)", dict(inp, step=k), ml, il)
        tag = "fresh" if st["fresh"] else "extension"
        # computed from the configuration of the history, not from the folder's own bookkeeping
        exp_saved = st["n"] if st["fresh"] else max(expected_saved, st["n"])
        expected_saved = exp_saved
        if st["saved_after"] != exp_saved:
            ctx.violate("C16:replicates:n-sim-saved", "the saved simulation count is not the number of simulations the history generated",
                        dict(inp, step=k, saved=st["saved_after"], expected=exp_saved))
        if st["force_returned"] != st["force_expected"]:
            ctx.violate("C16:replicates:force-remake-flag", "gen_seed_emis reports a (non-)fresh seed file contrary to the folder it found",
                        dict(inp, step=k, returned=st["force_returned"], folder_had_seed_file=not st["force_expected"]))
        exp_writes = list(range(st["n"])) if st["fresh"] else list(range(min(prev_saved, st["n"]), st["n"])) if prev_saved < st["n"] else []
        if [i for i, _ in st["trace"]] != exp_writes:
            ctx.violate(f"C16:replicates:{tag}:generated-simulation-numbers",
                        "the run did not generate exactly the simulation numbers it had to (all for a fresh run, the added ones for an extension)",
                        dict(inp, step=k, generated=[i for i, _ in st["trace"]], expected=exp_writes))
        prev_saved = exp_saved
        for i, fp in st["returned_fps"].items():
            if st["fps_after"].get(i) != fp:
                ctx.violate("C16:replicates:pickle-differs-from-generated", "the scenario read back from the pickle is not the scenario that was generated",
                            dict(inp, step=k, simulation=i))
                break
        # (a) the seed applied before simulation i is the stored emis_preseed_val[i]
        for i, sd in st["trace"]:
            want = st["seed_file"][i] if i < len(st["seed_file"]) else None
            if sd != want:
                ctx.violate(f"C16:replicates:{tag}:seed-index",
                            "the seed applied before generating a simulation number is not the seed stored for that number",
                            dict(inp, step=k, simulation=i, seed_applied=sd, seed_stored=want, seed_file=st["seed_file"]))
                break
        # (c) a non-fresh run leaves the pickles of the existing simulation numbers untouched
        if not st["fresh"]:
            for i in range(st["saved_before"]):
                if st["fps_before"].get(i) != st["fps_after"].get(i):
                    ctx.violate("C16:replicates:extension:existing-scenario-changed",
                                "extending the generator folder changed the scenario of an existing simulation number",
                                dict(inp, step=k, simulation=i))
                    break
        # (b) all stored simulation numbers hold pairwise different scenarios (non-degenerate configuration)
        seen = {}
        for i in range(st["saved_after"]):
            fp = st["fps_after"].get(i)
            if fp is None:
                ctx.violate("C16:replicates:missing-scenario", "a stored simulation number has no scenario file", dict(inp, step=k, simulation=i))
                break
            if fp in seen:
                j = seen[fp]
                if st["seed_file"][i] == st["seed_file"][j]:
                    ctx.violate(SIG_SAME, "two simulation numbers receive the identical emission scenario (same seed)",
                                dict(inp, step=k, simulations=[j, i], seed=st["seed_file"][i]))
                else:
                    ctx.violate(f"C16:replicates:{tag}:identical-scenarios-different-seeds",
                                "two simulation numbers with different stored seeds receive the identical emission scenario",
                                dict(inp, step=k, simulations=[j, i], seeds=[st["seed_file"][j], st["seed_file"][i]],
                                     seed_file=st["seed_file"]))
                break
            seen[fp] = i
        ctx.count("history:" + tag + (":writes" if st["trace"] else ":noop"))
        ctx.nontrivial.add(("history", tag, min(st["saved_before"], 5), min(len(st["trace"]), 5), k))
    ctx.traces += len(lines)


def run_histories(ctx, G, M, tmp):
    rng = ctx.rng
    hists = [
        [(1, False), (3, True)],
        [(2, False), (4, True)],
        [(4, False), (2, True), (6, True)],          # shrink, then raise
        [(3, False), (3, True), (5, True), (9, True)],
        [(2, False), (5, True), (3, False), (6, True)],   # a later fresh run (inputs changed) over an existing folder
        [(1, False), (2, True), (3, True), (4, True)],
    ]
    for _ in range(ctx.pick(10, 150)):
        h, first = [], True
        for _ in range(rng.randint(2, 5)):
            h.append((rng.randint(1, 12), (not first) and rng.random() < 0.85))
            first = False
        hists.append(h)
    for k, steps in enumerate(hists):
        np_seed = rng.randrange(2 ** 31)
        gd = os.path.join(tmp, f"hist_{k}", "generator")
        os.makedirs(os.path.dirname(gd))
        reload = k % 2 == 1      # every other history continues with the sources reloaded from a pickle
        try:
            res = G.run_history(steps, gd, SPECS, RATES, 60, True, np_seed, reload=reload)
        except (Exception, SystemExit) as e:   # noqa: BLE001
            real_crash(ctx, "gen_seed_emis+initialize_emissions", e,
                       {"kind": "history-case", "steps": [list(x) for x in steps], "np_seed": np_seed, "reload": reload})
            continue
        history_oracle(ctx, M, steps, np_seed, res, reload)
    ctx.sample({"history": hists[2], "trace_last_step": res[-1]["trace"] if hists else None})


# ------------------------------------------------------------------------------------------------
# part G: table entries against independent definitions; out-of-range production rates; one whole run
# ------------------------------------------------------------------------------------------------
NONSI_TOL = Fraction(2, 10 ** 6)     # as in Lean: Units.non_si_entries_within_tolerance


def nonsi_expectations():
    ft3 = Fraction(3048, 10000) ** 3
    return {
        ("metric", "pound"): (Fraction(10 ** 6) / Fraction(45359237, 100000), NONSI_TOL),
        ("metric", "cubic feet"): (1 / ft3, NONSI_TOL),
        ("metric", "liter"): (Fraction(1000), Fraction(0)),
        ("metric", "cubic meter"): (Fraction(1), Fraction(0)),
        ("metric", "mscf"): (1 / (1000 * ft3), Fraction(2, 10 ** 4)),     # coarse bound; the fine one is F10d
        ("increment", "week"): (Fraction(365, 7), NONSI_TOL),
        ("increment", "month"): (Fraction(12), Fraction(0)),
        ("increment", "year"): (Fraction(1), Fraction(0)),
    }


def check_nonsi_table(ctx, u):
    t = u["tables"]
    for (kind, name), (exact, tol) in nonsi_expectations().items():
        tabs = [("in_metrics", t["in_metrics"]), ("out_metrics", t["out_metrics"])] if kind == "metric" \
            else [("increments", t["increments"])]
        for tname, tab in tabs:
            ctx.evaluations += 1
            v = tab.get(name)
            v = v["per_unit"] if isinstance(v, dict) else v
            if v is None or abs(v - exact) > tol * exact:
                ctx.violate(f"C16:unit-table:{tname}.{name}",
                            "table entry disagrees with the independent definition of the unit beyond the tabulated precision",
                            {"kind": "table-entry", "table": tname, "name": name, "value": str(v),
                             "independent_definition": float(exact), "tolerance": float(tol)})
            ctx.nontrivial.add(("table-entry", tname, name))


def run_bad_production_rates(ctx, G):
    for p in [-0.5, -1e-9, 1.0 + 1e-9, 1.5, 2, float("nan")]:
        for (dur, multi, pre_en, n) in [(3, False, True, 5), (0, True, True, 4), (4, True, False, 1), (30, False, True, 400)]:
            ctx.evaluations += 1
            kind, what = G.run_generate_outcome(dur, multi, pre_en, n, p, 1, {"r": RATES["r"]})
            ctx.count(f"bad-production-rate:{kind}:{what if kind == 'raised' else 'n'}")
            if kind == "returned":
                ctx.violate("C16:production-rate-out-of-range:accepted",
                            "a production rate outside [0, 1] is silently accepted by the generator",
                            {"kind": "bad-rate-case", "case": [dur, multi, pre_en, n, repr(p)], "emissions": what})
            ctx.nontrivial.add(("bad-rate", repr(p), pre_en))


def wholerun_oracle(ctx, G, cfg, seeds, n_saved, scen, start, ndays):
    inp0 = {"kind": "wholerun-case", "cfg": cfg}
    # the saved count only grows: a folder used before by a run with MORE simulations keeps the larger count and
    # the extra seeds / scenario files (history shape "n-sims"); what this run needs is one per simulation it runs
    if n_saved < cfg["n_sims"] or len(seeds) < cfg["n_sims"]:
        ctx.violate("C16:wholerun:folder-shape", "generator folder does not hold one seed and one scenario per simulation",
                    dict(inp0, n_saved=n_saved, seeds=seeds))
    for i, rows in scen.items():
        for (path, reps, durs, ems) in rows:
            ctx.evaluations += 1
            if not ems:
                continue
            if len(reps) != 1:
                ctx.violate("C16:wholerun:mixed-kinds", "one source holds repairable and non-repairable emissions", dict(inp0, source=path))
                continue
            par = cfg["rep"] if next(iter(reps)) else cfg["nonrep"]
            if durs != {int(par["duration"])}:
                ctx.note(f"whole run: source {path} has durations {sorted(durs)} != configured {par['duration']}; skipped")
                continue
            case = (int(par["duration"]), bool(par["multi"]), bool(cfg["pre_sim_emissions"]), ndays, par["epr"], None, True, True)
            out = {"pre": [], "sim": [], "ems": ems}
            before = len(ctx.violations)
            gen_oracle(ctx, case, out, 100000.0, list(cfg["rates"]))
            for v in ctx.violations[before:]:
                v["input"] = dict(inp0, simulation=i, source=list(path), emissions=[[s, ids, r] for (s, _, ids, r) in ems])
            ctx.nontrivial.add(("wholerun", case[1], case[2], any(s < 0 for (s, _, _, _) in ems), min(len(ems), 4)))
    fps = [tuple((p, tuple(e)) for (p, _, _, e) in rows) for _, rows in sorted(scen.items())]
    for a in range(len(fps)):
        for b in range(a + 1, len(fps)):
            if fps[a] == fps[b] and any(e for (_, _, _, e) in scen[a]):
                sig = SIG_SAME if seeds[a] == seeds[b] else "C16:replicates:wholerun:identical-scenarios-different-seeds"
                ctx.violate(sig, "two simulation numbers of a whole run hold the identical scenario",
                            dict(inp0, simulations=[a, b], seeds=seeds))
    if len(set(seeds[:n_saved])) < n_saved:
        ctx.violate(SIG_SEED, "two simulation numbers receive the same emission seed", dict(inp0, seeds=seeds))


def wholerun_numbers_oracle(ctx, G, res, cfg, scen, start, inp0, seeds=None):
    """from the OUTPUT FILES and the generator folder only: every requested simulation number 0..n-1 was simulated
    exactly once (one summary row per program and number, one per-simulation emissions file) and on its OWN generated
    scenario (the emissions of <program>_<i>_emissions_summary.csv are those of gen_infrastructure_emissions_<i>.p)"""
    n = cfg["n_sims"]
    want = list(range(n))
    summ = res.summary("Emissions Summary")
    pick = {i: G.pickled_scenario_fingerprint(rows, start) for i, rows in scen.items()}
    for prog in res.programs:
        ctx.evaluations += 1
        col = [int(float(r["Simulation"])) for r in (summ or []) if r.get("Program Name") == prog]
        if sorted(col) != want:
            ctx.violate("C16:replicates:wholerun:summary-rows",
                        "the final Emissions Summary does not hold exactly one row per requested simulation number",
                        dict(inp0, program=prog, simulation_column=col, expected=want))
        for i in want:
            ctx.evaluations += 1
            rows = res.emissions(prog, i)
            if rows is None:
                ctx.violate("C16:replicates:wholerun:simulation-not-run",
                            "a requested simulation number has no per-simulation output: it was never simulated",
                            dict(inp0, program=prog, simulation=i, simulation_column=col))
                continue
            got = G.output_scenario_fingerprint(rows)
            if i in pick and got != pick[i]:
                same_as = [j for j, fp in pick.items() if fp == got]
                ctx.violate("C16:replicates:wholerun:not-own-scenario",
                            "the emissions a simulation number was run on are not the scenario generated for that number",
                            dict(inp0, program=prog, simulation=i, matches_generated_scenarios=same_as,
                                 n_output=len(got), n_generated=len(pick[i])))
        outs = {i: res.emissions(prog, i) for i in want}
        fps = {i: tuple(G.output_scenario_fingerprint(r)) for i, r in outs.items() if r is not None}
        for a in fps:
            for b in fps:
                if a < b and fps[a] == fps[b] and fps[a]:
                    # two numbers that share an emission seed (known finding F10c) are generated identical; that is
                    # the recorded consequence, not a defect of the run
                    shared = seeds is not None and a < len(seeds) and b < len(seeds) and seeds[a] == seeds[b]
                    ctx.violate(SIG_SAME if shared else "C16:replicates:wholerun:two-numbers-same-output-scenario",
                                "two simulation numbers of one program were simulated on the identical emissions"
                                + (" (same emission seed)" if shared else ""),
                                dict(inp0, program=prog, simulations=[a, b], seeds=seeds))
    ctx.nontrivial.add(("wholerun-numbers", n, inp0.get("debug"), n > 5, n % 5))


def one_wholerun(ctx, G, tmp, tag, c, debug, processes, history=None):
    """one whole run (or, with history=(cfg_prev, what), that run AFTER another one in the same folder); every
    whole-run oracle is applied to it against `c`"""
    from datetime import date as _date
    from harness import wholerun as W
    root = os.path.join(tmp, f"whole_{tag}")
    os.makedirs(root)
    inp0 = {"kind": "wholerun-case", "cfg": c, "debug": debug, "processes": processes}
    kw = dict(debug=debug, processes=processes, trace=False, workdir=root, repo=os.environ.get("LDAR_REPO"))
    if history is not None:
        inp0["history"] = {"cfg_prev": history[0], "what_differs": history[1]}
        res = W.run_after(history[0], c, **kw)
        ctx.count("history:" + history[1])
    else:
        res = W.run_config(c, **kw)
    gdir = os.path.join(root, "inputs", "generator")
    if res.rc != 0 or not os.path.isdir(gdir):
        ctx.broke("whole-run stage: the real simulator did not complete", f"rc {res.rc} {inp0}\n{res.log[-1500:]}")
        ctx.count("wholerun:not-completed")
        if not (os.path.isdir(gdir) and os.path.exists(os.path.join(gdir, "n_sim_saved.p"))):
            return
    start = _date(*c["start"])
    seeds, n_saved, scen = G.read_generator_folder(gdir, start)
    before = len(ctx.violations)
    wholerun_oracle(ctx, G, c, seeds, n_saved, scen, start, res.ndays)
    if res.rc == 0:
        wholerun_numbers_oracle(ctx, G, res, c, scen, start, inp0, seeds)
    for v in ctx.violations[before:]:
        v["input"].update({k: inp0[k] for k in ("debug", "processes") if k not in v["input"]})
        if history is not None:
            v["input"].setdefault("history", inp0["history"])
    ctx.count("wholerun:" + ("debug" if debug else "pool") + f":n_sims={c['n_sims']}")
    ctx.traces += 1


PROGS2 = [{"name": "P_none", "methods": []}, {"name": "P_OGI", "methods": ["OGI"]}]


def run_wholerun(ctx, G, tmp, replay=None):
    from harness import wholerun as W
    rng = ctx.rng
    if replay is not None:
        hist = replay.get("history")
        one_wholerun(ctx, G, tmp, "r", replay["cfg"], replay.get("debug", True), replay.get("processes", 1),
                     history=(hist["cfg_prev"], hist["what_differs"]) if hist else None)
        return
    small = dict(ndays=90, n_sites=3, programs=PROGS2)
    # normal execution mode (pool), more than one batch of five with a partial last batch; DEBUG route as control
    c = W.make_config(rng, wide=["sims-batch"], **small)
    one_wholerun(ctx, G, tmp, "pool", c, False, 2)
    c2 = W.make_config(rng, n_sims=13 - c["n_sims"], **small)          # 6 <-> 7
    one_wholerun(ctx, G, tmp, "debug", c2, True, 1)
    for k, n in enumerate(ctx.pick([], [11, 13, 5, 10])):
        one_wholerun(ctx, G, tmp, f"pool{k}", W.make_config(rng, n_sims=n, **small), False, 2)
    # the run the user asked for AFTER another run in the same folder (generator + output folders left behind)
    seen = set()
    for k in range(ctx.pick(1, 4)):
        c = W.make_config(rng, n_sims=rng.choice([2, 3]), ndays=120, n_sites=4)
        for _ in range(20):
            prev, what = W.prev_variant(c, rng)
            if what not in seen:
                break
        seen.add(what)
        one_wholerun(ctx, G, tmp, f"hist{k}", c, k % 2 == 0, 2, history=(prev, what))


# ------------------------------------------------------------------------------------------------
# part H: same-process history, shared inputs, pickling round trips (LESSONS 1, 4)
# ------------------------------------------------------------------------------------------------
def _unit_folder(G, tmp, tag, pop, metric, increment):
    secs, grams, m3 = UNITDEFS
    kind = "mass" if metric in grams else "volume"
    folder = os.path.join(tmp, tag)
    os.makedirs(folder)
    write_unit_file(G, folder, pop, metric, increment, float(unit_factor(secs, grams, m3, kind, metric, increment)))
    return folder


def files_history_case(ctx, G, tmp, tag, specs, np_seed, k):
    """specs = [(population, metric, increment)] * 2: two emissions files with the SAME column names and different
    content, loaded in one process in both orders; every load must equal the same file loaded ALONE in a fresh
    interpreter"""
    folders = [_unit_folder(G, tmp, f"{tag}_{j}", pop, m, i) for j, (pop, m, i) in enumerate(specs)]
    alone = G.alone_jobs([{"folder": f, "np_seed": np_seed, "k": k} for f in folders])
    inp = {"kind": "history-files-case", "specs": [[pop, m, i] for (pop, m, i) in specs], "np_seed": np_seed, "k": k}
    for j, a in enumerate(alone):
        if "error" in a:
            ctx.broke("same-process history: reference run in a fresh interpreter failed", a["error"])
            return
    for order in ([0, 1], [1, 0], [0, 1, 0]):
        for pos, j in enumerate(order):
            ctx.evaluations += 1
            try:
                got = G.rates_of_folder(folders[j], np_seed, k)
            except (Exception, SystemExit) as e:   # noqa: BLE001
                real_crash(ctx, "process_emission_sources", e, dict(inp, order=order, position=pos))
                continue
            if got != alone[j]:
                col = next((c for c in got if got[c] != alone[j].get(c)), "?")
                ctx.violate("C16:history:emissions-file-depends-on-earlier-file",
                            "an emissions file gives different rate sources when another file with the same column names "
                            "was loaded before it in the same process",
                            dict(inp, order=order, position=pos, column=col, in_history=got.get(col), alone=alone[j].get(col)))
            ctx.nontrivial.add(("files-history", tuple(order), pos, specs[j][1], specs[j][2]))
    ctx.traces += 1


def source_history_case(ctx, G, rs, rng):
    """one real Source object generating several simulation numbers / the same number again, and two Sources with
    the same id and different parameters in both orders: every call equals the same call on a fresh object"""
    specs = [(rng.randint(0, 6), rng.random() < 0.5, rng.choice([0.3, 0.5, 1.0])) for _ in range(2)]
    calls = [(rng.choice([0, 1, 0, 2]), rng.randrange(2 ** 31), rng.randint(1, 12), rng.random() < 0.7) for _ in range(4)]
    for order in ([0, 1], [1, 0]):
        objs = {}
        for which in order:
            (dur, multi, p) = specs[which]
            for (simno, seed, n, pre_en) in calls:
                ctx.evaluations += 1
                inp = {"kind": "history-source-case", "specs": [list(x) for x in specs], "calls": [list(x) for x in calls],
                       "order": order, "at": [which, simno, seed, n, pre_en]}
                try:
                    src = objs.get(which) or G.make_source(dur, multi, p, rate_source="smp", sid="S")
                    objs[which] = src
                    a = G.run_generate(dur, multi, pre_en, n, p, seed, rs, rate_key="smp", sim_number=simno, source=src)
                    b = G.run_generate(dur, multi, pre_en, n, p, seed, rs, rate_key="smp", sim_number=simno)
                except (Exception, SystemExit) as e:   # noqa: BLE001
                    real_crash(ctx, "Source.generate_emissions", e, inp)
                    continue
                if a["ems"] != b["ems"] or a["pre"] != b["pre"] or a["sim"] != b["sim"]:
                    ctx.violate("C16:history:source-reuse",
                                "a Source that already generated emissions (or a same-named Source built earlier) gives a "
                                "different scenario than a fresh Source for the same draws",
                                dict(inp, reused=a["ems"][:6], fresh=b["ems"][:6]))
    ctx.nontrivial.add(("source-history", specs[0][1], specs[1][1]))


def shared_input_checks(ctx, G, tmp):
    import copy
    import pickle
    from virtual_world.sources import Source
    SFC, pdc = G.SFC, G.pdc
    # two Sources from the same dictionaries
    info = {SFC.REPAIRABLE: True, SFC.PERSISTENT: True, SFC.ACTIVE_DUR: 1, SFC.INACTIVE_DUR: 0}
    prop = {SFC.EMIS_ERS: "smp", SFC.EMIS_EPR: 0.5, SFC.EMIS_DUR: 4, SFC.MULTI_EMISSIONS: False,
            SFC.REPAIR_DELAY: {pdc.Common_Params.VAL: 14}, SFC.REPAIR_COST: {pdc.Common_Params.VAL: 200.0},
            pdc.Common_Params.METH_SPECIFIC: {SFC.SPATIAL_PLACEHOLDER: {"M": 1.0}, SFC.TEMPORAL_PLACEHOLDER: {"M": 0.5}}}
    info0, prop0 = copy.deepcopy(info), copy.deepcopy(prop)
    a, b = Source("S", info, prop), Source("S", info, prop)
    ctx.evaluations += 2
    if info != info0 or prop != prop0:
        ctx.violate("C16:shared-input-mutated:Source.__init__", "building a Source changes the dictionaries it is built from",
                    {"kind": "shared-input-case", "what": "Source.__init__", "before": str(prop0), "after": str(prop)})
    da = {k: v for k, v in a.__dict__.items()}
    db = {k: v for k, v in b.__dict__.items()}
    if da != db:
        ctx.violate("C16:shared-input:second-object-differs", "two Sources built from the same dictionaries differ",
                    {"kind": "shared-input-case", "what": "Source x2", "first": str(da), "second": str(db)})
    # two sample sources from one list; the converter must not touch its input list
    samples = ["3.6", "7.2", "0.5"]
    s0 = list(samples)
    x = G.ESP.EmissionsSourceSample("c", "kilogram", "hour", samples, 5.0)
    y = G.ESP.EmissionsSourceSample("c", "kilogram", "hour", samples, 5.0)
    vals = [1.5, 2.5]
    v0 = list(vals)
    conv = G.ESP.EmissionsSource("c").unit_conversion(vals, "kilogram", "hour")
    ctx.evaluations += 3
    if samples != s0 or vals != v0 or conv is vals:
        ctx.violate("C16:shared-input-mutated:sample-list", "building a sample source / converting a list changes (or returns) the input list",
                    {"kind": "shared-input-case", "what": "sample list", "samples": samples, "values": vals})
    if x._samples != y._samples or x._max_emis_rate != y._max_emis_rate:
        ctx.violate("C16:shared-input:second-object-differs", "two sample sources built from the same list differ",
                    {"kind": "shared-input-case", "what": "EmissionsSourceSample x2", "first": x._samples, "second": y._samples})
    # one data frame processed twice; rate-source dictionary untouched by generation
    folder = _unit_folder(G, tmp, "shared_df", {"samples": [0.5, 2.0, 9.0], "cap": 3.0, "mu": 0.1, "sigma": 1.0, "dcap": 2.0},
                          "tonne", "day")
    frame = G.ESP.read_in_emissions_sources_file(G.pathlib.Path(folder), {esp_key(G)[0]: {esp_key(G)[1]: "emissions_file.csv"}})
    f0 = frame.copy(deep=True)
    r1 = G.ESP.process_emission_source_file(frame)
    r2 = G.ESP.process_emission_source_file(frame)
    ctx.evaluations += 2
    if not frame.equals(f0):
        ctx.violate("C16:shared-input-mutated:emissions-frame", "processing the emissions data frame changes it",
                    {"kind": "shared-input-case", "what": "emissions frame"})
    if r1["smp"]._samples != r2["smp"]._samples or r1["smp"]._max_emis_rate != r2["smp"]._max_emis_rate:
        ctx.violate("C16:shared-input:second-object-differs", "processing the same emissions frame twice gives different sources",
                    {"kind": "shared-input-case", "what": "process_emission_source_file x2"})
    snap = (list(r1["smp"]._samples), r1["smp"]._max_emis_rate)
    for k in range(30):
        G.run_generate(3, k % 2 == 0, True, 20, 0.6, k, r1, rate_key="smp")
    if (list(r1["smp"]._samples), r1["smp"]._max_emis_rate) != snap:
        ctx.violate("C16:shared-input-mutated:rate-source", "generating emissions changes the shared rate source",
                    {"kind": "shared-input-case", "what": "rate source after generation"})
    # pickling round trips (argument order of Source.__reduce__ / _reconstruct; rate sources; generated lists)
    src = G.make_source(5, False, 0.5, rate_source="smp")
    src2 = pickle.loads(pickle.dumps(src))
    ctx.evaluations += 3
    if src.__dict__ != src2.__dict__:
        diff = sorted(k for k in set(src.__dict__) | set(src2.__dict__) if src.__dict__.get(k, "<absent>") != src2.__dict__.get(k, "<absent>"))
        ctx.violate("C16:pickle-roundtrip:Source", "a Source changes in a pickling round trip",
                    {"kind": "shared-input-case", "what": "Source round trip", "attributes": diff,
                     "before": {k: str(src.__dict__.get(k)) for k in diff}, "after": {k: str(src2.__dict__.get(k)) for k in diff}})
    try:
        a = G.run_generate(5, False, True, 40, 0.5, 11, r1, rate_key="smp", source=src)
        b = G.run_generate(5, False, True, 40, 0.5, 11, pickle.loads(pickle.dumps(r1)), rate_key="smp", source=src2)
        if a["ems"] != b["ems"]:
            ctx.violate("C16:pickle-roundtrip:generation", "a reloaded Source / rate source generates a different scenario for the same draws",
                        {"kind": "shared-input-case", "what": "generate after round trip", "original": a["ems"][:6], "reloaded": b["ems"][:6]})
        src3 = pickle.loads(pickle.dumps(src))
        back = [((e._start_date - G.SIM_START).days, e._emissions_id, float(e._rate)) for e in src3._generated_emissions[0]]
        if back != [(s_, i_, r_) for (s_, _, i_, r_) in a["ems"]]:
            ctx.violate("C16:pickle-roundtrip:generated-list", "the stored pending list changes in a pickling round trip",
                        {"kind": "shared-input-case", "what": "pending list round trip"})
    except (Exception, SystemExit) as e:   # noqa: BLE001
        real_crash(ctx, "pickle round trip", e, {"kind": "shared-input-case", "what": "round trip"})
    ctx.nontrivial.add(("shared-input",))


def esp_key(G):
    from constants.file_processing_const import Emissions_Source_Processing_Const as esp
    return esp.EMISSION, esp.EMISSION_FILE


def run_same_process(ctx, G, M, tmp, rs):
    rng = ctx.rng
    units = [("kilogram", "hour"), ("tonne", "day"), ("gram", "second"), ("pound", "minute"), ("cubic feet", "day"),
             ("kilogram", "second"), ("liter", "hour")]
    for k in range(ctx.pick(2, 8)):
        (m1, i1), (m2, i2) = rng.sample(units, 2)
        files_history_case(ctx, G, tmp, f"fh{k}", [(population(rng), m1, i1), (population(rng), m2, i2)],
                           rng.randrange(2 ** 31), 8)
    for _ in range(ctx.pick(60, 1500)):
        source_history_case(ctx, G, rs, rng)
    try:
        shared_input_checks(ctx, G, tmp)
    except (Exception, SystemExit) as e:   # noqa: BLE001
        real_crash(ctx, "shared-input checks", e, {"kind": "shared-input-case", "what": "crash"})


# ------------------------------------------------------------------------------------------------
# part J: names and shapes of emissions files (LESSONS 3)
# ------------------------------------------------------------------------------------------------
def shapes_case(ctx, G, M, tmp, tag, rng):
    """column names with underscores / digits / prefixes of each other / marker-like names / blanks, mixed-case data-use
    and unit cells, columns of different lengths, one-sample columns, zero samples, a maximum below every sample and a
    maximum of zero; every column is judged from the FILE CONTENT (exact model + independent expectation)"""
    secs, grams, m3 = UNITDEFS
    names = ["smp", "smp_1", "smp_10", "smp_1_x", "1", "dist", "sample", " padded ", "NA_src", "kept", "a-b.c"]
    rng.shuffle(names)
    cols, meta = [], []
    for name in names[:rng.randint(3, 8)]:
        metric, increment = rng.choice([("gram", "second"), ("kilogram", "hour"), ("tonne", "day"), ("kilogram", "second"),
                                        ("gram", "hour"), ("pound", "minute")])
        f = float(unit_factor(secs, grams, m3, "mass", metric, increment))
        kind = rng.choice(["sample", "sample", "dist"])
        mcell = rng.choice([metric, metric.capitalize(), " " + metric + " "]) if (metric, increment) != ("gram", "second") else metric
        icell = rng.choice([increment, increment.upper()]) if (metric, increment) != ("gram", "second") else increment
        use = rng.choice([kind, kind.capitalize(), kind.upper()])
        if kind == "sample":
            vals = [rng.choice([0.0, 0.25, 1.0, 2.5, 40.0, rng.randint(1, 999) / 100.0]) for _ in range(rng.choice([1, 1, 2, 5, 9]))]
            cap = rng.choice([0.0, 0.1, 3.0, 1e5])
            cols.append(dict(name=name, kind=use, cap=repr(cap * f), metric=mcell, increment=icell, values=[repr(v * f) for v in vals]))
            meta.append(("sample", name, metric, increment, vals, cap))
        else:
            mu, sigma = rng.randint(-100, 100) / 100.0, rng.randint(30, 150) / 100.0
            cap = math.exp(mu) * rng.choice([0.5, 2.0, 1e6])
            cols.append(dict(name=name, kind=use, cap=repr(cap * f), metric=mcell, increment=icell,
                             values=[repr(mu + math.log(f)), repr(sigma)]))
            meta.append(("dist", name, metric, increment, (mu, sigma), cap))
    folder = os.path.join(tmp, tag)
    os.makedirs(folder)
    G.write_emissions_file(folder, cols)
    inp = {"kind": "shapes-case", "columns": cols}
    try:
        srcs = G.load_rate_sources(folder)
    except (Exception, SystemExit) as e:   # noqa: BLE001
        real_crash(ctx, "process_emission_sources", e, inp)
        return
    ctx.evaluations += 1
    want = sorted(m[1].strip() for m in meta)
    if sorted(srcs) != want:
        ctx.violate("C16:shapes:column-names", "the rate sources are not keyed by the (stripped) column names of the file",
                    dict(inp, keys=sorted(srcs), expected=want))
        return
    lines, checks = [], []
    for (kind, name, metric, increment, body, cap), col in zip(meta, cols):
        src = srcs[name.strip()]
        drift = 1.0 if increment == "second" else DRIFT_TIME
        ctx.evaluations += 1
        if kind == "sample":
            if not isinstance(src, G.ESP.EmissionsSourceSample) or len(src._samples) != len(body):
                ctx.violate("C16:shapes:sample-column", "a sample column is not read as a sample source with one entry per value",
                            dict(inp, column=name, got=type(src).__name__, n=len(getattr(src, "_samples", []))))
                continue
            for v, got, cell in zip(body, src._samples, col["values"]):
                # independent expectation from the file content: value in g/s times the proved drift of the table
                if abs(float(got) - v * drift) > SAME * max(abs(v * drift), 1e-300) and not (v == 0 and got == 0):
                    ctx.violate("C16:shapes:sample-value", "a sample of a column with an unusual name / shape is not the g/s value of the cell",
                                dict(inp, column=name, cell=cell, got=float(got), expected=v * drift))
                    break
                lines.append(f"uconv {G.en(metric)} {G.en(increment)} {G.ftok(Fraction(float(cell)))}")
                checks.append((name, float(got), inp))
            G.np.random.seed(5)
            for _ in range(6):
                r = float(src.get_a_rate())
                if r > cap * drift * (1 + SAME) + 1e-300:
                    ctx.violate("C16:cap-exceeded:shapes", "rate above the declared maximum", dict(inp, column=name, rate=r, cap_gs=cap))
                    break
        else:
            if not isinstance(src, G.ESP.EmissionsSourceDist):
                ctx.violate("C16:shapes:dist-column", "a distribution column is not read as a distribution source",
                            dict(inp, column=name, got=type(src).__name__))
                continue
            G.np.random.seed(5)
            for _ in range(6):
                r = float(src.get_a_rate())
                if r > cap * drift * (1 + SAME):
                    ctx.violate("C16:cap-exceeded:shapes", "rate above the declared maximum", dict(inp, column=name, rate=r, cap_gs=cap))
                    break
        ctx.nontrivial.add(("shapes", kind, name, metric, increment, len(body) if kind == "sample" else 0, cap == 0))
    for ml, (name, got, inp_) in zip(M.run(lines), checks):
        ctx.evaluations += 1
        if ml is not None and not within(got, parse_frac(ml)):
            ctx.disagree("EmissionsSourceSample(shapes)", dict(inp_, column=name), ml, repr(got))
    ctx.traces += 1


def run_shapes(ctx, G, M, tmp):
    for k in range(ctx.pick(25, 400)):
        shapes_case(ctx, G, M, tmp, f"shape{k}", ctx.rng)


# ------------------------------------------------------------------------------------------------
# part K: simulation numbers run by the manager (batch_simulations + both run loops)
# ------------------------------------------------------------------------------------------------
def run_sim_numbers(ctx, G, M):
    ns = list(range(0, 32)) + [35, 36, 49, 50, 51, 99, 100, 101, 250, 1003]
    real = [G.real_batches(n) for n in ns]
    for n, r, ml in zip(ns, real, M.run([f"batches {n}" for n in ns])):
        ctx.evaluations += 1
        il = "[" + ",".join(map(str, r)) + "]"
        if ml is not None and ml != il:
            ctx.disagree("batch_simulations", {"n": n}, ml, il)
        if sum(r) != n or any(x > 5 for x in r) or any(x != 5 for x in r[:-1]):
            ctx.violate("C16:replicates:batches", "the batches do not add up to the requested number of simulations in fives",
                        {"kind": "sim-numbers-case", "n": n, "debug": True, "batches": r})
    plan = [(n, True) for n in list(range(0, 27)) + [36, 51]] + [(n, False) for n in ctx.pick([1, 6, 7, 11], [1, 2, 5, 6, 7, 8, 9, 10, 11, 12, 13, 16])]
    got = []
    for n, debug in plan:
        try:
            got.append(G.run_manager_numbers(n, debug))
        except (Exception, SystemExit) as e:   # noqa: BLE001
            real_crash(ctx, "SimulationManager.run_simulations", e, {"kind": "sim-numbers-case", "n": n, "debug": debug})
            got.append(None)
    model = M.run([f"simnums {'debug' if d else 'pool'} {n}" for n, d in plan])
    for (n, debug), nums, ml in zip(plan, got, model):
        if nums is None:
            continue
        ctx.evaluations += 1
        il = "[" + ",".join(map(str, nums)) + "]"
        if ml is not None and ml != il:
            ctx.disagree("SimulationManager.run_simulations(numbers)", {"n": n, "debug": debug}, ml, il)
        if nums != list(range(n)):
            missing = sorted(set(range(n)) - set(nums))
            twice = sorted({x for x in nums if nums.count(x) > 1})
            ctx.violate("C16:replicates:simulation-numbers:" + ("debug" if debug else "pool"),
                        "the manager does not run every requested simulation number exactly once "
                        f"(never run: {missing}, run more than once: {twice})",
                        {"kind": "sim-numbers-case", "n": n, "debug": debug, "numbers_run": nums})
        ctx.count("sim-numbers:" + ("debug" if debug else "pool"))
        ctx.nontrivial.add(("sim-numbers", debug, min(n, 14), n > 5, n % 5))
    ctx.traces += len(plan)


# ------------------------------------------------------------------------------------------------
# part L: set-up histories on the real path with kill points BETWEEN the steps (round 5)
# ------------------------------------------------------------------------------------------------
def c16_variants(cfg):
    """configurations that differ from cfg in ONE leaf a C16 clause depends on"""
    import copy
    from datetime import date as _d, timedelta as _td
    out = []
    v = copy.deepcopy(cfg); v["pre_sim_emissions"] = not cfg["pre_sim_emissions"]; out.append(("pre-sim", v))
    v = copy.deepcopy(cfg)
    sd, ed = _d(*cfg["start"]) + _td(days=400), _d(*cfg["end"]) + _td(days=400)
    v["start"], v["end"] = [sd.year, sd.month, sd.day], [ed.year, ed.month, ed.day]; out.append(("period", v))
    v = copy.deepcopy(cfg); v["rep"]["duration"] = max(2, cfg["rep"]["duration"] // 4); v["nonrep"]["duration"] = max(2, cfg["nonrep"]["duration"] // 3)
    out.append(("duration", v))
    v = copy.deepcopy(cfg); v["rep"]["multi"] = not cfg["rep"]["multi"]; v["nonrep"]["multi"] = not cfg["nonrep"]["multi"]; out.append(("multi", v))
    v = copy.deepcopy(cfg); v["rates"] = [r * 3 for r in cfg["rates"]]; out.append(("rates", v))
    v = copy.deepcopy(cfg); v["n_sims"] = cfg["n_sims"] + 2; out.append(("n-sims", v))
    return out


def handed_oracle(ctx, G, cfg, handed, inp, seeds=None, resolver=None):
    """every C16 clause on the scenarios the completed run HANDS to its simulations, against ITS OWN parameters"""
    from datetime import date as _d
    start, end = _d(*cfg["start"]), _d(*cfg["end"])
    ndays = (end - start).days + 1
    if sorted(handed) != list(range(cfg["n_sims"])):
        ctx.violate("C16:handed-out:simulation-numbers", "the run does not hand out one scenario per requested simulation number",
                    dict(inp, numbers=sorted(handed)))
    fps = {}
    for i, rows in handed.items():
        fps[i] = tuple((p, tuple((d, r) for (d, _, r, _, _) in ems)) for p, ems in rows)
        for (path, ems) in rows:
            ctx.evaluations += 1
            if resolver is not None:
                # parameters of THIS source as the most granular level of the input files gives them
                par = resolver(path)
                if par["epr"] == 0 and ems:
                    ctx.violate("C16:handed-out:zero-production-rate-emits",
                                "a source whose production rate is 0 at the most granular level that specifies it generates emissions",
                                dict(inp, simulation=i, source=list(path), emissions=len(ems), resolved=par))
                    continue
            if not ems:
                continue
            reps = {e[3] for e in ems}
            if len(reps) != 1:
                ctx.violate("C16:handed-out:mixed-kinds", "one source holds repairable and non-repairable emissions", dict(inp, source=list(path)))
                continue
            if resolver is None:
                par = cfg["rep"] if next(iter(reps)) else cfg["nonrep"]
            elif par["repairable"] != next(iter(reps)):
                ctx.violate("C16:handed-out:kind-not-as-in-sources-file", "the emissions of a source are not of the kind its sources-file row says",
                            dict(inp, source=list(path), resolved=par))
                continue
            if {e[4] for e in ems} != {int(par["duration"])}:
                ctx.violate("C16:handed-out:duration", "a handed-out emission does not have the duration configured for this run",
                            dict(inp, simulation=i, source=list(path), durations=sorted({e[4] for e in ems}), configured=par["duration"]))
                continue
            case = (int(par["duration"]), bool(par["multi"]), bool(cfg["pre_sim_emissions"]), ndays, par["epr"], None, True, True,
                    start.isoformat())
            out = {"pre": [], "sim": [], "dates": [e[0] for e in ems],
                   "ems": [((_d.fromisoformat(e[0]) - start).days, int(e[1]), e[1], e[2]) for e in ems]}
            before = len(ctx.violations)
            gen_oracle(ctx, case, out, 100000.0, list(cfg["rates"]))
            calendar_oracle(ctx, case, out)
            for v in ctx.violations[before:]:
                v["signature"] = v["signature"].replace("C16:", "C16:handed-out:", 1)
                v["input"] = dict(inp, simulation=i, source=list(path), emissions=[[e[0], e[1], e[2]] for e in ems][:12],
                                  period=[start.isoformat(), end.isoformat()], pre_sim_emissions=cfg["pre_sim_emissions"],
                                  resolved=par if resolver is not None else None)
            ctx.nontrivial.add(("handed", case[1], case[2], any(o[0] < 0 for o in out["ems"]), min(len(ems), 4)))
    for a in fps:
        for b in fps:
            if a < b and fps[a] == fps[b] and any(e for _, e in handed[a]):
                shared = seeds is not None and a < len(seeds) and b < len(seeds) and seeds[a] == seeds[b]
                ctx.violate(SIG_SAME if shared else "C16:handed-out:identical-scenarios",
                            "two simulation numbers are handed the identical scenario", dict(inp, simulations=[a, b], seeds=seeds))


def setup_history_case(ctx, G, M, tmp, tag, runs, what):
    """runs = [(cfg, kill)], the last one complete; judged: the folder protocol against the Lean model, and every
    C16 clause on what the last run hands out"""
    import pickle
    root = os.path.join(tmp, f"sh_{tag}")
    os.makedirs(root)
    cfgs = []
    for c, _ in runs:
        if c not in cfgs:
            cfgs.append(c)
    # identity of a configuration for the folder model: what the generator hashes cover (the simulation count is
    # NOT hashed: more simulations extend the folder) — the model gets (hash id, n) per run
    def _hid(c):
        return {k: v for k, v in c.items() if k not in ("n_sims", "wide_applied")}
    hids = []
    for c, _ in runs:
        if _hid(c) not in hids:
            hids.append(_hid(c))
    inp = {"kind": "setup-history-case", "what_differs": what, "kills": [k for _, k in runs],
           "config_of_run": [cfgs.index(c) for c, _ in runs], "configs": cfgs}
    try:
        res = G.run_setup_history(root, runs)
    except (Exception, SystemExit) as e:   # noqa: BLE001
        real_crash(ctx, "SimulationManager set-up steps", e, inp)
        return
    line = "ghist [" + ",".join(f"[{hids.index(_hid(c))},{c['n_sims']},{'x' if k == 'm' else k}]" for c, k in runs) + "]"
    ml = M.run([line])[0]
    il = " ".join(("-" if r["hash_file_exists"] is None else str(int(r["hash_file_exists"]))) + ":["
                  + ",".join(map(str, r["generated"])) + "]:" + ("-" if r["marker"] is None else str(r["marker"])) for r in res)
    ctx.evaluations += 1
    if ml is not None and ml != il:
        ctx.disagree("generator folder protocol (check / infrastructure / emissions, kill points)", inp, ml, il)
    last_cfg, last = runs[-1][0], res[-1]
    seeds = None
    sp = os.path.join(root, "inputs", "generator", "emis_preseed.p")
    if os.path.exists(sp):
        seeds = [int(x) for x in pickle.load(open(sp, "rb"))]
    if last["handed"] is None:
        ctx.broke("set-up history: the completed run handed nothing out", str(inp)[:400])
    else:
        handed_oracle(ctx, G, last_cfg, last["handed"], inp, seeds)
    ctx.count("setup-history:" + what)
    for k in inp["kills"][:-1]:
        ctx.count("kill-point:" + (k if not k.startswith("f") else "f<k>"))
    ctx.nontrivial.add(("setup-history", what, tuple(inp["kills"]), tuple(inp["config_of_run"])))
    ctx.traces += 1


def run_setup_histories(ctx, G, M, tmp):
    from harness import wholerun as W
    rng = ctx.rng
    n = 0
    for rnd in range(ctx.pick(1, 2)):
        A = W.make_config(rng, n_sims=rng.choice([2, 3]), ndays=120, n_sites=3, programs=[{"name": "P_none", "methods": []}],
                          pre_sim_emissions=(rnd % 2 == 0))
        A["rep"]["epr"], A["nonrep"]["epr"] = 0.03125, 0.015625       # enough emissions for the clauses to bite
        nA = A["n_sims"]
        kills_all = ["c", "i", "f0", "f1", f"f{nA}", f"f{nA + 2}", "m"]
        for what, B in c16_variants(A):
            kills = kills_all if not ctx.quick else ["i", rng.choice(["f1", "c", f"f{nA}", "m"])]
            for k in kills:
                setup_history_case(ctx, G, M, tmp, f"{n}", [(A, "x"), (B, k), (B, "x")], what); n += 1
            for k in (["i", "f1", "m"] if not ctx.quick else [rng.choice(["i", "f1"])]):
                setup_history_case(ctx, G, M, tmp, f"{n}", [(A, "x"), (B, k), (A, "x")], what); n += 1
        for k in (kills_all if not ctx.quick else ["i", "f1"]):
            setup_history_case(ctx, G, M, tmp, f"{n}", [(A, k), (A, "x")], "same-configuration"); n += 1
        vs = c16_variants(A)
        for _ in range(ctx.pick(6, 20)):
            pool = [A] + [v for _, v in rng.sample(vs, 2)]
            runs = [(rng.choice(pool), rng.choice(["c", "i", "f0", "f1", "f2", "m", "x", "x"])) for _ in range(rng.randint(2, 5))]
            runs.append((rng.choice(pool), "x"))
            setup_history_case(ctx, G, M, tmp, f"{n}", runs, "random-history"); n += 1


# ------------------------------------------------------------------------------------------------
# part N: per-level overrides (FALSE / 0 / blank / other) through the real intake path (round 6)
# ------------------------------------------------------------------------------------------------
FAMILIES = {"multi": "multiple_emissions_per_source", "epr": "emissions_production_rate", "duration": "duration"}


def _parse_cell(x):
    x = (x or "").strip()
    if x == "":
        return None
    if x.upper() in ("TRUE", "FALSE"):
        return x.upper() == "TRUE"
    try:
        return int(x)
    except ValueError:
        return float(x)


def file_resolver(in_dir, cfg):
    """what the INPUT FILES say a source's parameters are: the most granular level that specifies a value wins
    (sources row > equipment group > site > site type > parameter file); blank = not specified"""
    import csv as _csv

    def table(name, key):
        with open(os.path.join(in_dir, name), newline="") as fh:
            return {tuple(r[k] for k in key) if len(key) > 1 else r[key[0]]: r for r in _csv.DictReader(fh)}
    src_t = table("sources.csv", ["component", "source"])
    eq_t = table("equipment.csv", ["equipment"])
    site_t = table("sites.csv", ["site_ID"])
    type_t = table("site_type.csv", ["site_type"])

    def resolve(path):
        site, eq, compid, src = path
        comp = compid.rsplit("_", 1)[0]
        row = src_t[(comp, src)]
        rep = _parse_cell(row["repairable"])
        pre = "repairable_" if rep else "non_repairable_"
        base = cfg["rep"] if rep else cfg["nonrep"]
        out = {"repairable": rep}
        for fam, col in FAMILIES.items():
            chain = [("sources file", row.get(col)), ("equipment group file", eq_t.get(eq, {}).get(pre + col)),
                     ("sites file", site_t.get(site, {}).get(pre + col)),
                     ("site type file", type_t.get(site_t[site]["site_type"], {}).get(pre + col))]
            val, lvl = None, "parameter file"
            for name, cell in chain:
                v = _parse_cell(cell)
                if v is not None:
                    val, lvl = v, name
                    break
            if val is None:
                val = base[fam]
            out[fam] = val
            out[fam + "_from"] = lvl
        return out
    return resolve


def override_case(ctx, G, tmp, tag, cfg, ov, what):
    root = os.path.join(tmp, f"ov_{tag}")
    os.makedirs(root)
    ov_json = {lvl: {("/".join(k) if isinstance(k, tuple) else str(k)): v for k, v in d.items()} for lvl, d in ov.items()}
    inp = {"kind": "override-case", "what": what, "cfg": cfg, "overrides": ov_json}
    try:
        res = G.run_setup_history(root, [(cfg, "x")], post_materialize=lambda d, c: G.write_granular_overrides(d, c, ov))
    except (Exception, SystemExit) as e:   # noqa: BLE001
        real_crash(ctx, "intake of granular infrastructure files", e, inp)
        return
    resolver = file_resolver(os.path.join(root, "inputs"), cfg)
    seeds = None
    sp = os.path.join(root, "inputs", "generator", "emis_preseed.p")
    if os.path.exists(sp):
        import pickle
        seeds = [int(x) for x in pickle.load(open(sp, "rb"))]      # same-seed scenarios are known finding F10c
    handed_oracle(ctx, G, cfg, res[-1]["handed"], inp, seeds, resolver=resolver)
    for path, _ in res[-1]["handed"][0]:
        r = resolver(path)
        for fam in FAMILIES:
            ctx.nontrivial.add(("override", fam, r[fam + "_from"], r[fam] in (0, False)))
            ctx.count(f"override:{fam}:{r[fam + '_from']}:" + ("falsy" if r[fam] in (0, False) else "truthy"))
    ctx.traces += 1


def _ov_from_json(ov_json):
    return {lvl: {(tuple(k.split("/")) if lvl == "sources" else (int(k) if lvl == "sites" else k)): v for k, v in d.items()}
            for lvl, d in ov_json.items()}


def run_granular_overrides(ctx, G, tmp):
    from harness import wholerun as W
    rng = ctx.rng

    def base_cfg(truthy):
        c = W.make_config(rng, granular=True, n_sims=2, ndays=120, n_sites=rng.randint(3, 5),
                          programs=[{"name": "P_none", "methods": []}])
        c["rep"].update(epr=0.25, duration=20, multi=True if truthy else rng.random() < 0.5)
        c["nonrep"].update(epr=0.25, duration=10, multi=True if truthy else rng.random() < 0.5)
        return c

    # the shape on purpose: inherited True / positive everywhere above, the sources rows say FALSE / 0 / 0
    c = base_cfg(True)
    srcs = [(s["component"], s["source"]) for s in c["sources"]]
    for fam, falsy in (("multi", False), ("epr", 0), ("duration", 0)):
        ov = {"sources": {k: {FAMILIES[f]: (falsy if f == fam else None) for f in FAMILIES} for k in srcs},
              "equipment": {e: {p + FAMILIES[fam]: ({"multi": True, "epr": 0.5, "duration": 15}[fam])
                                for p in ("repairable_", "non_repairable_")} for e in list(c["equipment"])[:2]}}
        override_case(ctx, G, tmp, f"falsy_{fam}", c, ov, f"source-level {falsy!r} against inherited truthy {fam}")
    choices = {"multi": [None, None, False, True], "epr": [None, None, 0, 0.5], "duration": [None, None, 0, 7, 33]}
    for k in range(ctx.pick(8, 60)):
        c = base_cfg(rng.random() < 0.5)
        ov = {"sources": {}, "equipment": {}, "sites": {}, "site_types": {}}
        for key in [(s["component"], s["source"]) for s in c["sources"]]:
            ov["sources"][key] = {FAMILIES[f]: rng.choice(choices[f]) for f in FAMILIES}
        for lvl, keys in (("equipment", list(c["equipment"])), ("sites", [s_["id"] for s_ in c["sites"]]),
                          ("site_types", list(c["site_types"]))):
            for key in keys:
                if rng.random() < 0.6:
                    ov[lvl][key] = {p + FAMILIES[f]: rng.choice(choices[f]) for f in FAMILIES
                                    for p in ("repairable_", "non_repairable_") if rng.random() < 0.6}
        ov = {lvl: d for lvl, d in ov.items() if any(d.values())}
        override_case(ctx, G, tmp, f"r{k}", c, ov, "random overrides at every level")


UNITDEFS = None
SEEDINFO = None
RATES = None


def fallback_units(G):
    """the tables of the imported module, used when the ast extractor no longer recognises the source"""
    import inspect
    d = {k: p.default for k, p in inspect.signature(G.UC.gas_convert).parameters.items()}
    return {"tables": G.live_tables(), "spans": {}, "defaults": d, "gas_constant": None, "grams_per_tonne": None,
            "fingerprint": "unavailable", "gram": "gram", "second": "second", "unit_names": {}}


def setup(ctx):
    """regenerate the tables; an unexpected shape of the source is a BROKEN OBLIGATION (the generated Lean files
    keep their last content, the correspondence and the oracles continue on the imported module), never exit 2"""
    global UNITDEFS, SEEDINFO, RATES
    from harness.extract import genstate as GS
    changed, fps = [], {}
    u = s = None
    try:
        u = EX.read_unit_tables()
    except (Exception, SystemExit) as e:   # noqa: BLE001
        ctx.broke("extractor: unit tables (unit_converter.py / general_const.py)", f"{type(e).__name__}: {e}")
    try:
        s = EX.read_seed_range()
        s["index"] = EX.read_seed_index()
    except (Exception, SystemExit) as e:   # noqa: BLE001
        ctx.broke("extractor: seed procedure (preseed.py / initialize_emissions.py)", f"{type(e).__name__}: {e}")
        s = None
    try:
        if u is not None and EX._write_if_changed(os.path.join(EX.LEAN_GEN, "Units.lean"), EX.render_units(u)):
            changed.append("Generated/Units.lean")
        if s is not None:
            if s["low"] < 0 or s["high"] < 0:
                raise EX.ExtractError("negative randint bounds are outside the seed model")
            if EX._write_if_changed(os.path.join(EX.LEAN_GEN, "EmisSeed.lean"), EX.render_seed(s, s["index"])):
                changed.append("Generated/EmisSeed.lean")
    except (Exception, SystemExit) as e:   # noqa: BLE001
        ctx.broke("extractor: writing the generated Lean tables", f"{type(e).__name__}: {e}")
    try:
        mk = EX.read_marker_order()
        if EX._write_if_changed(os.path.join(EX.LEAN_GEN, "GenMarker.lean"), EX.render_marker(mk)):
            changed.append("Generated/GenMarker.lean")
        ctx.extra["marker_order"] = {"removed_in_initialize_infrastructure": mk["in_infra"],
                                     "removed_in_initialize_emissions": mk["in_emis"],
                                     "written_after_files": mk["marker_after_files"]}
    except (Exception, SystemExit) as e:   # noqa: BLE001
        ctx.broke("extractor: marker order (initialize_infrastructure.py / initialize_emissions.py)", f"{type(e).__name__}: {e}")
    try:
        sn = EX.read_sim_number()
        if EX._write_if_changed(os.path.join(EX.LEAN_GEN, "SimNumber.lean"), EX.render_sim_number(sn)):
            changed.append("Generated/SimNumber.lean")
        ctx.extra["simulation_number_expression"] = {"debug": sn["debug"]["src"], "pool": sn["pool"]["src"]}
    except (Exception, SystemExit) as e:   # noqa: BLE001
        ctx.broke("extractor: simulation number expression (simulation_manager.py)", f"{type(e).__name__}: {e}")
    try:
        st, ch = GS.regenerate()
        changed += ch
        ctx.extra["cross_case_state_table"] = {k: [list(x) if isinstance(x, tuple) else x for x in v] for k, v in st.items()}
    except (Exception, SystemExit) as e:   # noqa: BLE001
        ctx.broke("extractor: cross-case state table", f"{type(e).__name__}: {e}")
    try:
        fps = code_fingerprints()
    except (Exception, SystemExit) as e:   # noqa: BLE001
        ctx.broke("extractor: fingerprints of the modelled functions", f"{type(e).__name__}: {e}")
    if u is None:
        from harness.adapters import gen as G
        u = fallback_units(G)
    else:
        fps["unit_converter.gas_convert(body)"] = u["fingerprint"]
    if s is not None:
        fps["preseed.gen_seed_emis"] = s["fingerprint"]
        fps["initialize_emissions.initialize_emissions"] = s["index"]["fingerprint"]
    ctx.extra["extracted"] = {"regenerated_files": changed, "fingerprints": fps,
                              "seed_range": [s["low"], s["high"]] if s else None,
                              "seed_index": {"fresh_loop": s["index"]["fresh"]["index_src"],
                                             "extension_loop": s["index"]["extend"]["index_src"]} if s else None,
                              "seconds_per_year": str(u["tables"]["increments"].get("second"))}
    drift = sorted(k for k, v in fps.items() if FINGERPRINTS.get(k) != v)
    if drift:
        ctx.note("modelled code changed since the model was written (fingerprint drift): " + ", ".join(drift)
                 + " — correspondence runs with a larger budget")
    UNITDEFS = unit_defs(u)
    SEEDINFO = s
    return u, s, drift


FINGERPRINTS = {
    "unit_converter.gas_convert(body)": "83b77d8bfcfda6e5",
    "preseed.gen_seed_emis": "d82b330d7d58044e",
    "initialize_emissions.initialize_emissions": "0db423934c7d1584",
    "sources.Source.generate_emissions": "80d6dd6e4ca5ee7a",
    "emissions_source_processing.EmissionsSource.unit_conversion": "ef375a8e15527598",
    "emissions_source_processing.EmissionsSourceSample": "369d58f8a0f3fcf0",
    "emissions_source_processing.EmissionsSourceDist.get_a_rate": "1c206a336f38d3be",
}


def run(ctx):
    global RATES
    ctx.rule = ("generation: (duration 0..5, multi, pre-sim, N 1..8, p in {0,.1,.3,.5,.8,1}, numpy seed, kind) random-dense "
                "small + large (duration <= 500, N <= 900), Bernoulli outcomes recorded from the real run; converter: all "
                "in-metric x increment pairs x fixed+random quantities (exact) + random full-argument calls incl. unknown "
                "names and zero divisors; rate sources: random populations written in all 56 units through generated "
                "emissions files; seeds: n_sim in {1,2,5,30,100,300,random}, growth and shrink of the seed file; histories of 2-5 runs (fresh, extension N->M incl. N=1, shrink-then-raise, later fresh run) on one generator folder with np.random.seed recorded; "
                "non-trivial = at least one emission / successful conversion / drawn rate, distinct by qualitative shape")
    u, s, drift = setup(ctx)
    if drift and ctx.quick:
        # DESIGN 2.3 step 1: deeper correspondence when the modelled code changed (bounded so that the
        # quick tier stays a quick tier)
        ctx.pick = lambda quick, thorough: min(thorough, 2 * quick)   # noqa: E731
    core.lean_stage(ctx, MODULE, FILE, drivers=["drv_gen"])
    from harness.adapters import gen as G
    M = Model(ctx)
    tmp = tempfile.mkdtemp(prefix="c16_")
    try:
        def part(name, fn):
            try:
                fn()
            except core.InfraError:
                raise
            except (Exception, SystemExit) as e:   # noqa: BLE001  an unexpected shape of the code: broken obligation, search continues
                import traceback as _tb
                ctx.broke(f"check part '{name}' could not be driven on the current code", _tb.format_exc())
                ctx.count("part-crashed:" + name)

        part("tables", lambda: check_tables(ctx, G, M, u, s))
        part("converter", lambda: run_converter(ctx, G, M, u))
        part("unit_conversion(exact)", lambda: run_unit_conversion_exact(ctx, G, M, u))
        part("rate sources", lambda: run_rate_sources(ctx, G, M, u, tmp))
        folder = os.path.join(tmp, "seed_rates")
        os.makedirs(folder)
        write_unit_file(G, folder, {"samples": [1.0, 2.0, 3.5], "cap": 3.0, "mu": 0.0, "sigma": 1.0, "dcap": 2.0},
                        "gram", "second", 1.0)
        RATES = {"r": G.load_rate_sources(folder)["smp"]}
        part("generation", lambda: run_generation(ctx, G, M, tmp))
        part("seeds", lambda: run_seeds(ctx, G, M, tmp))
        part("histories", lambda: run_histories(ctx, G, M, tmp))
        part("same-process history", lambda: run_same_process(ctx, G, M, tmp, G.load_rate_sources(folder)))
        part("file shapes", lambda: run_shapes(ctx, G, M, tmp))
        part("non-SI table", lambda: check_nonsi_table(ctx, u))
        part("production rates", lambda: run_bad_production_rates(ctx, G))
        part("simulation numbers", lambda: run_sim_numbers(ctx, G, M))
        part("set-up histories with kill points", lambda: run_setup_histories(ctx, G, M, tmp))
        part("per-level overrides through the intake", lambda: run_granular_overrides(ctx, G, tmp))
        part("whole run", lambda: run_wholerun(ctx, G, tmp))
    finally:
        shutil.rmtree(tmp, ignore_errors=True)
    ctx.assumptions.append("float results of the rate-source classes compared with the exact model inside a relative "
                           "rounding envelope of 2^-40; gas_convert itself compared exactly on rationals")
    ctx.assumptions.append("physical equality of rates judged at relative 1e-9; pound, cubic feet, week, month, year as "
                           "defined by the table, mscf = 1000 cubic feet")


# ------------------------------------------------------------------------------------------------
def replay(ctx, data):
    global RATES
    inp = data.get("input", {})
    kind = inp.get("kind")
    if kind is None:
        print("replay: broken obligation / correspondence:", data.get("broken_obligations"),
              data.get("correspondence_disagreements"))
        return 1
    u, s, _ = setup(ctx)
    from harness.adapters import gen as G
    tmp = tempfile.mkdtemp(prefix="c16r_")
    try:
        folder = os.path.join(tmp, "rates")
        os.makedirs(folder)
        pop0 = {"samples": [0.5, 1.0, 2.5, 7.25], "cap": 3.0, "mu": 0.0, "sigma": 1.0, "dcap": 3.0}
        write_unit_file(G, folder, pop0, "gram", "second", 1.0)
        rs = G.load_rate_sources(folder)
        RATES = {"r": rs["smp"]}
        if kind == "gen-case":
            c = tuple(inp["case"])
            out = G.run_generate(c[0], c[1], c[2], c[3], c[4], c[5], rs, rate_key="smp", repairable=c[6], persistent=c[7],
                                 sim_start=case_start(c))
            print("period start:", case_start(c) or G.SIM_START, "calendar dates:", out["dates"])
            calendar_oracle(ctx, c, out)
            one_year_twin(ctx, G, c, out, rs)
            print("pre draws:", out["pre"], "sim draws:", out["sim"])
            print("pending list (start, id):", [(a, b) for (a, b, _, _) in out["ems"]])
            gen_oracle(ctx, c, out, pop0["cap"], [min(x, pop0["cap"]) for x in pop0["samples"]])
        elif kind == "unit-case":
            secs, grams, m3 = UNITDEFS
            pop, metric, increment = inp["population"], inp["metric"], inp["increment"]
            mk = u["tables"]["in_metrics"][metric]["type"]
            refm = "gram" if mk == "mass" else "cubic meter"
            res = {}
            for tag, (m, i) in {"ref": (refm, "second"), "unit": (metric, increment)}.items():
                f = float(unit_factor(secs, grams, m3, mk, m, i))
                fo = os.path.join(tmp, tag)
                os.makedirs(fo)
                write_unit_file(G, fo, pop, m, i, f)
                res[tag] = draw_rates(G, G.load_rate_sources(fo), inp["np_seed"], inp["k"])
            for name in ("smp", "dst"):
                print(name, "reference", res["ref"][name][0][:4], "| written in", metric, "/", increment, res["unit"][name][0][:4])
                worst = max(rel_diff(a, b) for a, b in zip(res["unit"][name][0], res["ref"][name][0]))
                if worst > SAME:
                    ctx.violate(classify_unit_violation(metric, increment,
                                                        list(zip(res["unit"][name][0], res["ref"][name][0]))),
                                "different g/s rates", inp)
        elif kind == "scenario-unit-case":
            secs, grams, m3 = UNITDEFS
            c = inp["case"]
            f = float(unit_factor(secs, grams, m3, "mass", inp["metric"], inp["increment"]))
            fo = os.path.join(tmp, "unit")
            os.makedirs(fo)
            write_unit_file(G, fo, inp["population"], inp["metric"], inp["increment"], f)
            a = G.run_generate(*c[:6], rs, rate_key=inp["source"])
            b = G.run_generate(*c[:6], G.load_rate_sources(fo), rate_key=inp["source"])
            print("g/s file     :", a["ems"][:4])
            print("other-unit file:", b["ems"][:4])
            if [(x[0], x[1]) for x in a["ems"]] != [(x[0], x[1]) for x in b["ems"]]:
                ctx.violate("C16:scenario-differs-by-unit:dates", "dates differ", inp)
            elif any(rel_diff(x[3], y[3]) > SAME for x, y in zip(a["ems"], b["ems"])):
                ctx.violate(classify_unit_violation(inp["metric"], inp["increment"],
                                                    [(y[3], x[3]) for x, y in zip(a["ems"], b["ems"])]),
                            "rates differ", inp)
        elif kind == "seed-case":
            M = Model(ctx)
            seed_case(ctx, G, M, tmp, "r", inp["first_n"], inp["np_seed"], inp.get("grow_to"))
        elif kind == "history-case":
            M = Model(ctx)
            steps = [tuple(x) for x in inp["steps"]]
            gd = os.path.join(tmp, "hist", "generator")
            os.makedirs(os.path.dirname(gd))
            res = G.run_history(steps, gd, SPECS, RATES, 60, True, inp["np_seed"], reload=inp.get("reload", False))
            for st in res:
                print("run n=%d %s: seed file %s, (simulation, seed applied) %s" % (
                    st["n"], "fresh" if st["fresh"] else "non-fresh", st["seed_file"], st["trace"]))
            history_oracle(ctx, M, steps, inp["np_seed"], res, inp.get("reload", False))
        elif kind == "history-files-case":
            specs = [(pp, m, i) for pp, m, i in inp["specs"]]
            files_history_case(ctx, G, tmp, "r", specs, inp["np_seed"], inp["k"])
        elif kind == "history-source-case":
            import random as _r
            for sd in range(40):
                source_history_case(ctx, G, rs, _r.Random(sd))
        elif kind == "shared-input-case":
            shared_input_checks(ctx, G, tmp)
        elif kind == "shapes-case":
            folder2 = os.path.join(tmp, "shape")
            os.makedirs(folder2)
            G.write_emissions_file(folder2, inp["columns"])
            srcs = G.load_rate_sources(folder2)
            for name, src in sorted(srcs.items()):
                print(repr(name), type(src).__name__, getattr(src, "_samples", None), src._max_emis_rate)
            import random as _r
            M = Model(ctx)
            for sd in range(60):
                shapes_case(ctx, G, M, tmp, f"rs{sd}", _r.Random(sd))
        elif kind == "table-entry":
            check_nonsi_table(ctx, u)
        elif kind == "bad-rate-case":
            run_bad_production_rates(ctx, G)
        elif kind == "override-case":
            override_case(ctx, G, tmp, "r", inp["cfg"], _ov_from_json(inp["overrides"]), inp.get("what", "?"))
        elif kind == "setup-history-case":
            M = Model(ctx)
            runs = [(inp["configs"][ci], k) for ci, k in zip(inp["config_of_run"], inp["kills"])]
            res = G.run_setup_history(os.path.join(tmp, "shr"), runs) if os.makedirs(os.path.join(tmp, "shr")) is None else None
            for (c, k), r in zip(runs, res):
                print(f"run kill={k} pre_sim={c['pre_sim_emissions']} period={c['start']}..{c['end']} n_sims={c['n_sims']}: "
                      f"hash_file_exists={r['hash_file_exists']} generated={r['generated']} marker={r['marker']}")
            shutil.rmtree(os.path.join(tmp, "shr"))
            setup_history_case(ctx, G, M, tmp, "r", runs, inp.get("what_differs", "?"))
        elif kind == "sim-numbers-case":
            nums = G.run_manager_numbers(inp["n"], inp["debug"])
            print("batches:", G.real_batches(inp["n"]), "numbers run:", nums)
            if nums != list(range(inp["n"])):
                ctx.violate("C16:replicates:simulation-numbers:" + ("debug" if inp["debug"] else "pool"),
                            "not every requested simulation number is run exactly once", inp)
        elif kind == "wholerun-case":
            # the seeds of a whole run come from the unseeded global generator: the configuration is re-run,
            # the scenario may differ from the recorded one
            run_wholerun(ctx, G, tmp, replay=inp)
        elif kind == "scenario-case":
            seeds = inp.get("seeds")
            if seeds is None:
                seeds = [0] * inp["n_sim"]
            fps = scenario_case(ctx, G, tmp, "r", seeds, inp["preseed"], inp["np_seed"], inp.get("n_days", 60))
            print("distinct scenarios:", len(set(fps)), "of", len(fps))
        else:
            print("replay: unknown input kind", kind)
            return 2
    finally:
        shutil.rmtree(tmp, ignore_errors=True)
    for v in ctx.violations:
        print("oracle:", v["signature"], "-", v["what"])
    return 1 if ctx.violations else 0
