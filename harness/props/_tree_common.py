"""Shared by C18 / C19: generators of parameter trees built from the repo's real default files,
single-key corruptions, the path-wise specification oracle ("defaults with exactly the user leaves
replaced"), and helpers for talking to the Lean tree drivers."""
from __future__ import annotations

import copy

from harness.adapters import tree as T

PH_INT, PH_FLOAT, PH_STR = T.PLACEHOLDERS
STR_POOL = ["alpha", "P_none", "x y", "é-ü", "0", "", "true", "Nonesuch", "M OGI", "a.b", "#c",
            "k: v", " lead", "site", "component", "recent", "4.0", "two  spaces", "q\"uote", "back\\slash"]
# names: underscores, digits, prefixes of each other, names that look like keys / levels / markers /
# other types (LESSONS 3).  None of them is reserved (none / null / nan) or a type placeholder.
NAME_POOL = ["P_none", "P_OGI", "P air", "prog-é", "Alpha", "B2", "nul", "nanx", "No ne", "p.q",
             "P", "P_", "P_O", "P_OGI_FU", "2", "10", "1.0", "true", "programs", "methods", "outputs",
             "default_parameters", "version", "kept", "Logs", "NA", "_", "p_default.yml"]
METHOD_POOL = ["OGI", "OGI_FU", "Air craft", "M-é", "fixed", "m1", "NANO", "none_", "x.y",
               "O", "OG", "OGI_", "OGI_FU_2", "7", "0.5", "false", "methods", "method_labels",
               "quantification_parameters", "sensor", "kept", "NA", "mobile", "m_default_mobile.yml"]
RESERVED_SAMPLES = ["none", "None", "NONE", "null", "Null", "nan", "NaN", "NAN", "nOnE"]
OMIT = {
    "simulation_settings": ["programs"],
    "virtual_world": [],
    "programs": ["methods"],
    "methods": ["default_parameters", "quantification_parameters"],
    "outputs": [],
}
SPECIAL = {"parameter_level", "version", "program_name", "method_name", "method_labels", "deployment_type",
           "default_parameters"}


# ----------------------------------------------------------------------------------------------
# tree helpers
# ----------------------------------------------------------------------------------------------
def leaves(tree, prefix=()):
    """(path, value) of every non-dict value below a dict"""
    for k, v in tree.items():
        if isinstance(v, dict):
            yield from leaves(v, prefix + (k,))
        else:
            yield prefix + (k,), v


def dict_nodes(tree, prefix=()):
    """paths of every dict node (the root is ())"""
    yield prefix
    for k, v in tree.items():
        if isinstance(v, dict):
            yield from dict_nodes(v, prefix + (k,))


def get_path(tree, path):
    for k in path:
        tree = tree[k]
    return tree


def set_path(tree, path, val):
    for k in path[:-1]:
        tree = tree.setdefault(k, {})
    tree[path[-1]] = val


def has_placeholder(x):
    if isinstance(x, str):
        return x in T.PLACEHOLDERS
    if isinstance(x, dict):
        return any(has_placeholder(v) for v in x.values())
    if isinstance(x, (list, tuple)):
        return any(has_placeholder(v) for v in x)
    return False


def has_placeholder_key(x):
    """a type placeholder used as a dictionary key, at any depth"""
    if isinstance(x, dict):
        return any((isinstance(k, str) and k in T.PLACEHOLDERS) or has_placeholder_key(v) for k, v in x.items())
    if isinstance(x, (list, tuple)):
        return any(has_placeholder_key(v) for v in x)
    return False




def spec_strip(x, top=True):
    """specification of the placeholder clause: what a tree looks like once no placeholder is left
    (a placeholder becomes None, a one-element list holding a placeholder becomes [])"""
    if isinstance(x, dict):
        return {k: spec_strip(v, False) for k, v in x.items()}
    if isinstance(x, list):
        if not top and len(x) == 1 and isinstance(x[0], str) and x[0] in T.PLACEHOLDERS:
            return []
        return [spec_strip(v, False) for v in x]
    if isinstance(x, str) and x in T.PLACEHOLDERS:
        return None
    return x


def spec_merge(default, user, new_ok=()):
    """the specification of intake for one level: the defaults with exactly the user's leaves
    replaced, path by path.  Returns None when the user tree names a path the defaults lack."""
    exp = copy.deepcopy(default)
    for path, val in leaves(user):
        node = exp
        for k in path[:-1]:
            if not isinstance(node, dict) or k not in node:
                return None
            node = node[k]
        if not isinstance(node, dict):
            return None
        if path[-1] not in node and not (len(path) == 1 and path[-1] in new_ok):
            return None
        node[path[-1]] = copy.deepcopy(val)
    return exp


# ----------------------------------------------------------------------------------------------
# valid values / user subsets
# ----------------------------------------------------------------------------------------------
def rand_float(rng):
    v = rng.choice([0.0, 0.5, 1.0, 28.0, 0.0065, 1e-7, 2.5e10, 0.125, -40.0, 3.0,
                    rng.randint(0, 64) / 8, round(rng.uniform(-5, 5), 3)])
    return 0.0 if v == 0 else v   # no negative zero: the model's exact decimals have one zero


def rand_int(rng):
    return rng.choice([0, 1, 2, -3, 7, 365, 2023, 10 ** 12, rng.randint(-50, 500)])


def rand_scalar(rng):
    return rng.choice([None, True, False, rand_int(rng), rand_float(rng), rng.choice(STR_POOL)])


def valid_value(rng, d):
    """a user value that the type check must accept for the default leaf d"""
    if isinstance(d, bool):
        return rng.random() < 0.5
    if isinstance(d, int):
        return rand_int(rng)
    if isinstance(d, float):
        return rand_int(rng) if rng.random() < 0.25 else rand_float(rng)
    if isinstance(d, str):
        if d == PH_INT:
            return d if rng.random() < 0.1 else rand_int(rng)
        if d == PH_FLOAT:
            r = rng.random()
            return d if r < 0.1 else (rand_int(rng) if r < 0.35 else rand_float(rng))
        return rng.choice(STR_POOL + [PH_STR])
    if isinstance(d, list):
        n = rng.choice([0, 1, 1, 2, 3])
        if not d:
            return [rand_scalar(rng) for _ in range(n)]
        return [valid_value(rng, d[0]) for _ in range(n)]
    if isinstance(d, dict):
        return user_subset(rng, d, 0.5)
    return None


def user_subset(rng, dtree, p, skip=()):
    """a random sub-dictionary of the overridable keys of dtree with valid values (random key order)"""
    keys = [k for k in dtree if k not in skip]
    rng.shuffle(keys)
    out = {}
    for k in keys:
        if rng.random() >= p:
            continue
        v = dtree[k]
        if isinstance(v, dict):
            sub = user_subset(rng, v, rng.choice([0.2, 0.5, 0.9]))
            if sub or rng.random() < 0.15:
                out[k] = sub
        else:
            out[k] = valid_value(rng, v)
    return out


# ----------------------------------------------------------------------------------------------
# wrong types
# ----------------------------------------------------------------------------------------------
def kind_of(d):
    if isinstance(d, bool):
        return "bool"
    if isinstance(d, int):
        return "int"
    if isinstance(d, float):
        return "float"
    if isinstance(d, str):
        return {PH_INT: "ph_int", PH_FLOAT: "ph_float"}.get(d, "str")
    if isinstance(d, list):
        return "list"
    if isinstance(d, dict):
        return "dict"
    return "none"


WRONG_SAMPLES = {
    "bool": True, "int": 7, "float": 2.5, "str": "wrong", "none": None, "list": [], "dict": {},
}


def wrong_values(d):
    """(label, value) of every wrongly typed value for the default d (one representative per type;
    for lists also a well-typed list holding one wrongly typed element)"""
    k = kind_of(d)
    ok = {
        "bool": {"bool"}, "int": {"int"}, "float": {"float", "int"}, "str": {"str"},
        "ph_int": {"int"}, "ph_float": {"int", "float"}, "list": {"list"}, "dict": {"dict"},
        "none": {"none"},
    }[k]
    out = []
    for t, v in WRONG_SAMPLES.items():
        if t in ok:
            continue
        if t == "list":
            v = [1]
        if t == "dict":
            v = {"zz": 1}
        out.append((t, copy.deepcopy(v)))
    if k == "list" and d:
        for (t, v) in wrong_values(d[0]):
            out.append(("list-of-" + t, [v]))
            if kind_of(d[0]) not in ("list", "dict"):
                out.append(("list-of-ok-then-" + t, [copy.deepcopy(d[0]) if kind_of(d[0]) not in ("ph_int", "ph_float") else 1, v]))
    return out


# ----------------------------------------------------------------------------------------------
# random generic trees (for the component correspondences beyond the real defaults)
# ----------------------------------------------------------------------------------------------
KEYS = ["a", "b", "c", "k k", "é", "programs", "methods", "default_parameters", "quantification_parameters"]


def rand_tree(rng, depth, placeholders=True):
    r = rng.random()
    if depth <= 0 or r < 0.45:
        c = [None, True, False, rand_int(rng), rand_float(rng), rng.choice(STR_POOL)]
        if placeholders:
            c += [PH_INT, PH_FLOAT, PH_STR, PH_INT]
        return rng.choice(c)
    if r < 0.65:
        return [rand_tree(rng, depth - 1, placeholders) for _ in range(rng.choice([0, 1, 1, 2, 3]))]
    ks = rng.sample(KEYS, rng.choice([0, 1, 2, 3, 4]))
    return {k: rand_tree(rng, depth - 1, placeholders) for k in ks}


def mutate_tree(rng, t, depth=3):
    """a tree related to t: same shape with some values / keys changed (so that checks mostly pass)"""
    r = rng.random()
    if isinstance(t, dict):
        out = {}
        ks = list(t)
        rng.shuffle(ks)
        for k in ks:
            if rng.random() < 0.7:
                out[k] = mutate_tree(rng, t[k], depth - 1)
        if r < 0.12:
            out[rng.choice(KEYS)] = rand_tree(rng, 1)
        return out
    if isinstance(t, list):
        if r < 0.1:
            return rand_tree(rng, 1)
        base = t[0] if t else rand_tree(rng, 0)
        return [mutate_tree(rng, base, depth - 1) for _ in range(rng.choice([0, 1, 2, 3]))]
    if r < 0.12:
        return rand_tree(rng, 1)
    if isinstance(t, str) and t in T.PLACEHOLDERS:
        return valid_value(rng, t) if r < 0.8 else rng.choice(STR_POOL)
    return valid_value(rng, t)


# ----------------------------------------------------------------------------------------------
# name-aware unknown keys (LESSONS 3: names equal to / contained in markers and keywords)
# ----------------------------------------------------------------------------------------------
def substrings(w):
    return {w[i:j] for i in range(len(w)) for j in range(i + 1, len(w) + 1)}


def vocabulary(defs):
    """every string the intake code path uses as a key, level name or omit key: level names, omit keys,
    special keys, and every key of every default tree"""
    words = {"simulation_settings", "virtual_world", "programs", "methods", "outputs"} | set(SPECIAL)
    for om in OMIT.values():
        words |= set(om)

    def keys(t):
        if isinstance(t, dict):
            for k, v in t.items():
                if isinstance(k, str):
                    words.add(k)
                keys(v)

    for t in defs.values():
        keys(t)
    return words


def derived_unknown_names(rng, defs, level_omit, budget):
    """unknown-key candidates derived from the vocabulary:
      * EVERY substring (prefixes, suffixes, infixes, single characters) of every omit key and level
        name, plus case variants of those words and the empty string - always all of them for the omit
        keys of the level at hand, the rest up to `budget` (None = all);
      * prefixes / suffixes / case variants of a sample of the other keys.
    The caller filters out names that are keys of the default dictionary at the node."""
    core_words = {"programs", "methods", "default_parameters", "quantification_parameters",
                  "simulation_settings", "virtual_world", "outputs", "parameter_level", "version"}
    must = {""}
    for w in level_omit:
        subs = substrings(w)
        if len(w) > 10 and budget is not None and budget < 100:
            # long omit keys in the quick tier: all prefixes, suffixes, single characters + 30 infixes
            keep = {w[:i] for i in range(1, len(w) + 1)} | {w[i:] for i in range(len(w))} | set(w)
            subs = keep | set(rng.sample(sorted(subs - keep), min(30, len(subs - keep))))
        must |= subs | {w.upper(), w.capitalize(), w + "s", w + "_", "_" + w, " " + w}
    more = set()
    for w in core_words:
        more |= substrings(w) | {w.upper(), w.capitalize(), w[:-1], w + "s"}
    voc = sorted(vocabulary(defs) - core_words)
    for w in (voc if budget is None else rng.sample(voc, min(len(voc), 12))):
        more |= {w[: max(1, len(w) // 2)], w[len(w) // 2:], w[:-1], w[1:], w.upper(), w.capitalize(), w + "s"}
    more -= must
    more = sorted(more)
    if budget is not None and len(more) > budget:
        more = rng.sample(more, budget)
    return sorted(must) + more
