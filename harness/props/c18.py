"""C18 — parameter intake: user values override defaults, everything else stays default.

Lean: Props/C18.lean over Model/Tree.lean (retainUpdate, checkTypes, removePlaceholders,
validateNames, intake).
Tie: the REAL check_types, InputManager.retain_update / remove_type_placeholders / validate_names
and InputManager.read_and_validate_parameters (end to end on generated YAML files in a temp dir) are
run on the same trees as the compiled model (drv_tree); outcomes (tree or rejection kind) are diffed.
Oracle (on the implementation's own outcomes, independent of the model): path-wise frame condition
against the repo's default files, file-order independence, rejection of every single-key corruption,
methods installed with the defaults of their own deployment type, no placeholder left.
"""
from __future__ import annotations

import ast
import copy
import itertools
import os

from harness import core, shim

# the adapters import the repo's intake modules: if that fails (an unexpected shape of the code) the
# check reports a broken obligation instead of an infrastructure error (LESSONS 7)
try:
    from harness.adapters import tree as T
    from harness.props import _tree_common as G
    IMPORT_ERROR = None
except Exception:  # noqa: BLE001
    import traceback as _tb
    T = G = None
    IMPORT_ERROR = _tb.format_exc()

MANIFEST_ENTRY = {
    "text": "Lean theorems over an executable model of the intake (retain_update, check_types, remove_type_placeholders, validate_names, handle_parameter_versioning, parse_parameters): merge_frame (the merged tree holds the user's value on every user leaf path, the default's value on every other leaf path, and every dictionary keeps the default's key list), merge_comm / merge_comm_decidable (two updates that agree wherever both reach - real files share parameter_level / version - commute, so the result does not depend on file order; hypotheses evaluated on every generated pair), writes_swap / files_of_different_levels_swap (accepted virtual_world / outputs / programs / methods files writing different slots can be swapped: same state up to key order), checkTypes_iff with conforms_dict / conforms_list / typeOk_spec (acceptance is exactly: every non-omit key known and every value typed, at any depth, with the code's int-for-float and placeholder rules), accepts_known_typed / rejects_unknown_key / rejects_wrong_type (path-wise), intake_ok_inv with routed_file_checked, sim_settings_checked_and_merged, program_checked_and_merged, section_checked_and_merged, methods_installed (every routed file and every installed method passed check_types and was merged onto its own defaults), intake_frame, no_placeholder_left, reserved_names_rejected; C18_counterexample shows the full-strength statement false because omit keys are exempt at every depth and duplicate level files are last-wins (known findings). The model is tied on every run to the real functions and to InputManager.read_and_validate_parameters end to end on generated YAML / JSON files built from the repo's own default files (random subsets of overridable keys at every level, all file orders for <= 4 files, every single-key corruption, version-gate combinations, placeholder names; key order compared too), and the property's clauses are evaluated directly on the implementation's results.",
    "design_ref": "DESIGN.md 5.18, 4.4",
    "note": "trusted: Lean kernel + propext/Classical.choice/Quot.sound; the hand-written model (tied by sampled/exhaustive correspondence, not proof); harness adapters and the path-wise specification oracle; PyYAML load/dump; one file per single-instance level (virtual_world, outputs) and distinct program / method names are assumed for order independence (duplicates are a recorded finding); version strings restricted to plain 'M.N' forms",
    "technique": "Lean 4 structural-induction proofs over JSON-like trees + differential correspondence with the real intake functions + direct oracle",
}

MODULE = "LdarModel.Props.C18"
FILE = "LdarModel/Props/C18.lean"

SIG_OMIT = "C18:accepted:omit-key"
SIG_DUP = "C18:order:duplicate-level-file"
SIG_VER = "C18:order:version-gate-after-minor-mismatch"
SIG_PHKEY = "C18:placeholder-left:dictionary-key"

LEVEL_DEF = {"simulation_settings": "simulation_settings", "virtual_world": "virtual_world",
             "programs": "programs", "outputs": "outputs"}


# ----------------------------------------------------------------------------------------------
# constants the model hard-codes, re-read from the repo on every run
# ----------------------------------------------------------------------------------------------
def check_constants(ctx):
    tbl = T.constants_table()
    want = {
        "placeholders": ["_placeholder_int_", "_placeholder_float_", "_placeholder_str_"],
        "def_files": {"simulation_settings": "simulation_settings_default.yml",
                      "virtual_world": "virtual_world_default.yml", "programs": "p_default.yml",
                      "mobile": "m_default_mobile.yml", "stationary": "m_default_stationary.yml",
                      "outputs": "outputs_default.yml"},
        "default_key": "default_parameters",
        "default_path": "./src/default_parameters/{}",
        "levels": ["simulation_settings", "virtual_world", "programs", "methods", "outputs"],
        "keys": ["parameter_level", "version", "program_name", "method_labels", "method_name",
                 "deployment_type", "quantification_parameters"],
        "deployment": ["mobile", "stationary"],
    }
    ctx.obligations.append("table:intake-constants")
    if tbl != want:
        ctx.broke("table:intake-constants", f"repo constants {tbl} differ from the model's {want}")
    else:
        ctx.discharged.append("table:intake-constants")
    # reserved names and omit lists, read from the source text
    src = open(os.path.join(shim.REPO_SRC, "file_processing", "input_processing", "input_manager.py")).read()
    tree = ast.parse(src)
    reserved = None
    for node in ast.walk(tree):
        if isinstance(node, ast.Assign) and any(isinstance(t, ast.Name) and t.id == "invalid_names" for t in node.targets):
            reserved = sorted(ast.literal_eval(node.value))
    ctx.obligations.append("table:reserved-names")
    if reserved != ["nan", "none", "null"]:
        ctx.broke("table:reserved-names", f"validate_names.invalid_names = {reserved}")
    else:
        ctx.discharged.append("table:reserved-names")
    from constants.general_const import Version_Constants as vc
    ctx.obligations.append("table:version")
    if (vc.CURRENT_MAJOR_VERSION, vc.CURRENT_MINOR_VERSION, vc.CURRENT_FULL_VERSION) != ("4", "0", "4.0"):
        ctx.broke("table:version", "version constants differ from the model's 4 / 0 / 4.0")
    else:
        ctx.discharged.append("table:version")


def lean(lines):
    return core.LeanDriver("drv_tree").run(lines)


# ----------------------------------------------------------------------------------------------
# component correspondences
# ----------------------------------------------------------------------------------------------
def insert_at(rng, d, key, val):
    """dict with (key,val) inserted at a random position of the key order"""
    items = [(k, v) for k, v in d.items() if k != key]
    i = rng.randint(0, len(items))
    items.insert(i, (key, val))
    return dict(items)


def with_path(rng, tree, path, val):
    """copy of tree with tree[path] = val (intermediate dicts created, key order randomised)"""
    t = copy.deepcopy(tree)
    node = t
    for k in path[:-1]:
        if not isinstance(node.get(k), dict):
            new = insert_at(rng, node, k, {})
            node.clear()
            node.update(new)
        node = node[k]
    new = insert_at(rng, node, path[-1], val)
    node.clear()
    node.update(new)
    return t


def level_defaults(defs):
    """(level name, default tree, omit keys) for the six default files"""
    df = T.DEF_FILES
    return [
        ("simulation_settings", defs[df["simulation_settings"]], G.OMIT["simulation_settings"]),
        ("virtual_world", defs[df["virtual_world"]], G.OMIT["virtual_world"]),
        ("programs", defs[df["programs"]], G.OMIT["programs"]),
        ("methods/mobile", defs[df["mobile"]], G.OMIT["methods"]),
        ("methods/stationary", defs[df["stationary"]], G.OMIT["methods"]),
        ("outputs", defs[df["outputs"]], G.OMIT["outputs"]),
    ]


def under_omit(path, omit):
    return any(k in omit for k in path)


def comp_check(ctx, defs):
    """check_types: real vs model on (a) every single-key corruption of a valid user tree for every
    default file, (b) random valid subsets, (c) random generic tree pairs; oracle: corruptions are
    rejected, valid subsets accepted"""
    rng = ctx.rng
    jobs = []  # (omit, default, test, expect, meta)
    for (lvl, d, omit) in level_defaults(defs):
        reps = ctx.pick(1, 6)
        for rep in range(reps):
            base = G.user_subset(rng, d, rng.choice([0.3, 0.6, 0.9]))
            jobs.append((omit, d, base, "ok", {"level": lvl, "class": "valid-subset"}))
            # unknown key at every dictionary node
            plain = ["zz_unknown"] + sorted(set(G.OMIT["programs"] + G.OMIT["methods"] + G.OMIT["simulation_settings"]))
            # name-aware stream: substrings / case variants / neighbours of every key, level name and omit key
            derived = [x for x in G.derived_unknown_names(rng, defs, omit, ctx.pick(40, 200)) if x not in plain] if rep == 0 else []
            for node in G.dict_nodes(d):
                for name in plain + derived:
                    if name in get_or_empty(d, node):
                        continue
                    if not node and name in omit and name != "quantification_parameters":
                        continue  # top-level `programs` / `methods` / `default_parameters`: exempt by design
                    small = name in derived
                    t = with_path(rng, {} if small else base, node + (name,), rng.choice([1, "v", {"q": 1}, [2]]))
                    exempt = name in omit or under_omit(node, omit)   # an omitted key as a WHOLE, nothing else
                    jobs.append((omit, d, t, "known" if exempt else "reject",
                                 {"level": lvl, "class": "unknown-key:derived-name" if small else "unknown-key",
                                  "path": list(node + (name,)), "omit_key": name in omit}))
            # every wrong type at every leaf and every dictionary node
            paths = [p for p, _ in G.leaves(d)] + [p for p in G.dict_nodes(d) if p]
            for p in paths:
                dv = G.get_path(d, p)
                for (label, wv) in G.wrong_values(dv):
                    t = with_path(rng, base, p, wv)
                    exempt = under_omit(p, omit)
                    jobs.append((omit, d, t, "known" if exempt else "reject",
                                 {"level": lvl, "class": f"wrong-type:{G.kind_of(dv)}<-{label}", "path": list(p)}))
    # random valid subsets
    for _ in range(ctx.pick(300, 6000)):
        (lvl, d, omit) = rng.choice(level_defaults(defs))
        jobs.append((omit, d, G.user_subset(rng, d, rng.random()), "ok", {"level": lvl, "class": "valid-subset"}))
    # generic pairs
    for _ in range(ctx.pick(1500, 30000)):
        d = G.rand_tree(rng, 3)
        t = G.mutate_tree(rng, d) if rng.random() < 0.8 else G.rand_tree(rng, 3)
        om = rng.choice([[], [], ["programs"], ["default_parameters", "quantification_parameters"], ["a"]])
        jobs.append((om, d, t, None, {"level": "generic", "class": "generic"}))
    lines = ["check " + T.to_line([om, d, t]) for (om, d, t, _, _) in jobs]
    model = lean(lines)
    for (om, d, t, expect, meta), ml in zip(jobs, model):
        r = T.real_check(real_omit(meta["level"], om) if meta["level"] != "generic" else om, d, t)
        il = "ok" if r[0] == "ok" else "reject:" + r[1]
        ctx.evaluations += 1
        ctx.count("check:" + il)
        inp = {"op": "check", "omit": om, "default": d, "test": t, "meta": meta}
        if il != ml:
            ctx.disagree("checkTypes", inp, ml, il)
        if expect == "ok" and r[0] != "ok":
            ctx.violate("C18:valid-rejected:check_types", "a well-typed subset of the default keys is rejected", inp)
        if expect == "reject" and r[0] == "ok":
            ctx.violate("C18:accepted:" + meta["class"].split("<-")[0] + ":" + meta["level"].split("/")[0],
                        "check_types accepts a single-key corruption (" + meta["class"] + ")", inp)
        if expect == "known" and r[0] == "ok":
            ctx.violate(SIG_OMIT, "corruption below / named like an omit key is accepted", inp)
            ctx.count("known:omit-key")
        if expect is not None:
            ctx.nontrivial.add(("check", meta["level"], meta["class"], len(meta.get("path", [])), il))
        elif il != "ok" or (isinstance(t, (dict, list)) and t):
            ctx.nontrivial.add(("check-generic", il, G.kind_of(d), G.kind_of(t)))
    ctx.traces += len(jobs)
    ctx.sample({"component": "check_types", "cases": len(jobs), "example": {"omit": jobs[1][0], "test": jobs[1][2], "impl": model[1]}})


def get_or_empty(tree, path):
    try:
        v = G.get_path(tree, path)
        return v if isinstance(v, dict) else {}
    except (KeyError, TypeError):
        return {}


def comp_merge(ctx, defs):
    """retain_update: real vs model; oracle: path-wise frame condition on the real result"""
    rng = ctx.rng
    jobs = []
    lv = level_defaults(defs)
    for _ in range(ctx.pick(600, 12000)):
        (lvl, d, omit) = rng.choice(lv)
        jobs.append((d, G.user_subset(rng, d, rng.random()), {"level": lvl, "class": "valid"}))
    for _ in range(ctx.pick(1200, 30000)):
        d = G.rand_tree(rng, 3)
        if not isinstance(d, dict):
            d = {"a": d}
        u = G.mutate_tree(rng, d) if rng.random() < 0.85 else G.rand_tree(rng, 3)
        if not isinstance(u, dict):
            u = {"b": u}
        jobs.append((d, u, {"level": "generic", "class": "generic"}))
    # pairs of disjoint updates: both orders (merge_comm)
    comm = []
    for _ in range(ctx.pick(300, 6000)):
        (lvl, d, omit) = rng.choice(lv)
        paths = [p for p, _ in G.leaves(d)]
        rng.shuffle(paths)
        k = rng.randint(0, len(paths))
        a, b = {}, {}
        for i, p in enumerate(paths[: rng.randint(0, len(paths))]):
            G.set_path(a if i < k // 2 or rng.random() < 0.5 else b, p, G.valid_value(rng, G.get_path(d, p)))
        # make them disjoint by leaf path
        for p, _ in list(G.leaves(a)):
            try:
                G.get_path(b, p)
                node = b
                for kk in p[:-1]:
                    node = node[kk]
                del node[p[-1]]
            except (KeyError, TypeError):
                pass
        # real files of one level both carry parameter_level (and often version), with equal values
        for shared in ("parameter_level", "version"):
            if shared in d and rng.random() < 0.7:
                a[shared] = d[shared]
                b[shared] = d[shared]
        comm.append((d, a, b, lvl))
    lines = ["merge " + T.to_line([d, u]) for (d, u, _) in jobs]
    for (d, a, b, _) in comm:
        lines.append("hyp " + T.to_line([d, a, b]))
    model = lean(lines)
    hyp = model[len(jobs):]
    ctx.extra.setdefault("hypothesis_hit_rate", {})[
        "merge_comm_decidable hypotheses (wf, both accepted by checkTypes [], agreeB) on generated update pairs of one level"] = [
        sum(1 for x in hyp if x == "1"), len(hyp)]
    ctx.count("comm-pairs-sharing-a-leaf", sum(1 for (d, a, b, _) in comm if set(a) & set(b)))
    for (d, u, meta), ml in zip(jobs, model):
        r = T.real_merge(d, u)
        il = T.show(r)
        mlc = ml if ml.startswith("reject:") else T.canon(__import__("json").loads(ml))
        ctx.evaluations += 1
        inp = {"op": "merge", "default": d, "user": u, "meta": meta}
        if il != mlc:
            ctx.disagree("retainUpdate", inp, mlc[:400], il[:400])
        ctx.count("merge:" + ("ok" if r[0] == "ok" else il))
        if meta["class"] == "valid":
            exp = G.spec_merge(d, u)
            if r[0] != "ok" or T.canon(exp) != il:
                ctx.violate("C18:frame:retain_update:" + meta["level"].split("/")[0],
                            "retain_update(defaults, user) is not the defaults with exactly the user leaves replaced", inp)
            ctx.nontrivial.add(("merge", meta["level"], min(len(list(G.leaves(u))), 12)))
        else:
            exp = G.spec_merge(d, u)
            if r[0] == "ok" and exp is not None and T.canon(exp) != il:
                ctx.violate("C18:frame:retain_update:generic",
                            "retain_update on a key-compatible update differs from path-wise replacement", inp)
            ctx.nontrivial.add(("merge-generic", il[:18] if r[0] != "ok" else "ok", min(len(u), 4)))
    # commutation on the real code (both orders) and model agreement for the first step
    for (d, a, b, lvl) in comm:
        r1 = T.real_merge(d, a)
        r12 = T.real_merge(r1[1], b) if r1[0] == "ok" else r1
        r2 = T.real_merge(d, b)
        r21 = T.real_merge(r2[1], a) if r2[0] == "ok" else r2
        ctx.evaluations += 1
        if T.show(r12) != T.show(r21):
            ctx.violate("C18:order:retain_update", "two updates with disjoint leaf paths do not commute",
                        {"op": "comm", "default": d, "a": a, "b": b})
        ctx.nontrivial.add(("comm", lvl, min(len(list(G.leaves(a))), 6), min(len(list(G.leaves(b))), 6)))
    ctx.traces += len(jobs) + len(comm)


def comp_strip(ctx, defs):
    rng = ctx.rng
    trees = [d for (_, d, _) in level_defaults(defs)]
    for _ in range(ctx.pick(800, 20000)):
        t = G.rand_tree(rng, 4)
        trees.append(t if isinstance(t, (dict, list)) else {"a": t, "b": [t], "c": [t, t]})
    for (_, d, _) in level_defaults(defs):
        for _ in range(ctx.pick(5, 50)):
            trees.append(G.spec_merge(d, G.user_subset(rng, d, rng.random())))
    model = lean(["strip " + T.to_line(t) for t in trees])
    import json
    for t, ml in zip(trees, model):
        r = T.real_strip(t)
        il = T.show(r)
        ctx.evaluations += 1
        if il != T.canon(json.loads(ml)):
            ctx.disagree("removePlaceholders", {"op": "strip", "tree": t}, ml[:400], il[:400])
        if r[0] == "ok":
            if G.has_placeholder(r[1]):
                ctx.violate("C18:placeholder-left:remove_type_placeholders", "a type placeholder survives remove_type_placeholders",
                            {"op": "strip", "tree": t})
            if T.canon(G.spec_strip(t)) != il:
                ctx.violate("C18:frame:remove_type_placeholders", "remove_type_placeholders changed something that is not a placeholder",
                            {"op": "strip", "tree": t})
        ctx.nontrivial.add(("strip", G.has_placeholder(t), il == T.canon(t)))
        ctx.count("strip:" + ("changed" if il != T.canon(t) else "same"))
    ctx.traces += len(trees)


def comp_names(ctx):
    rng = ctx.rng
    jobs = []
    for _ in range(ctx.pick(400, 8000)):
        progs = {}
        for _ in range(rng.choice([1, 1, 2, 3])):
            nm = rng.choice(G.NAME_POOL + G.RESERVED_SAMPLES[: rng.choice([0, 0, 0, 9])])
            labels = [rng.choice(G.METHOD_POOL + G.RESERVED_SAMPLES[: rng.choice([0, 0, 0, 9])])
                      for _ in range(rng.choice([0, 1, 2, 3]))]
            progs[nm] = {"program_name": nm, "method_labels": labels}
        jobs.append({"programs": progs, "x": 1})
    model = lean(["names " + T.to_line(j) for j in jobs])
    for j, ml in zip(jobs, model):
        r = T.real_names(j)
        il = "ok" if r[0] == "ok" else "reject:" + r[1]
        ctx.evaluations += 1
        if il != ml:
            ctx.disagree("validateNames", {"op": "names", "sim": j}, ml, il)
        bad = any(n.lower() in ("none", "null", "nan") for n in j["programs"]) or any(
            m.lower() in ("none", "null", "nan") for p in j["programs"].values() for m in p["method_labels"])
        if bad and r[0] == "ok":
            ctx.violate("C18:accepted:reserved-name:validate_names", "a reserved program / method name passes validate_names",
                        {"op": "names", "sim": j})
        if not bad and r[0] != "ok":
            ctx.violate("C18:valid-rejected:validate_names", "legal names rejected", {"op": "names", "sim": j})
        ctx.nontrivial.add(("names", bad, il))
        ctx.count("names:" + il)
    ctx.traces += len(jobs)


# ----------------------------------------------------------------------------------------------
# end to end
# ----------------------------------------------------------------------------------------------
def shuffled(rng, d):
    items = list(d.items())
    rng.shuffle(items)
    return dict(items)


def gen_scenario(rng, defs, max_files=None):
    """a valid set of parameter files (dicts) + what identifies each"""
    df = T.DEF_FILES
    n_prog = rng.choice([1, 1, 2, 3])
    n_meth = rng.choice([0, 1, 2, 3])
    want_sim = rng.random() < 0.85
    want_vw = rng.random() < 0.85
    want_out = rng.random() < 0.5
    split_sim = want_sim and rng.random() < 0.25
    if max_files is not None:
        n_prog = 1 if max_files <= 3 else rng.choice([1, 2])
        n_meth = rng.choice([0, 1]) if max_files >= 2 else 0
        budget = max_files - n_prog - n_meth
        opts = [x for x in ("sim", "vw", "out") if rng.random() < 0.8]
        rng.shuffle(opts)
        opts = opts[: max(budget, 0)]
        want_sim, want_vw, want_out, split_sim = "sim" in opts, "vw" in opts, "out" in opts, False
    mnames = rng.sample(G.METHOD_POOL, n_meth)
    pnames = rng.sample(G.NAME_POOL, n_prog)
    files = []
    for nm in mnames:
        dep = rng.choice(["mobile", "stationary"])
        dfile = df[dep]
        f = {}
        if rng.random() < 0.2:
            dfile = df[rng.choice(["mobile", "stationary"])] if rng.random() < 0.5 else dfile
            f["default_parameters"] = dfile
        f.update(G.user_subset(rng, defs[dfile], rng.choice([0.1, 0.4, 0.8]), skip=G.SPECIAL))
        f.update({"parameter_level": "methods", "method_name": nm, "deployment_type": dep})
        if rng.random() < 0.5:
            f["version"] = "4.0"
        files.append(("method", nm, shuffled(rng, f)))
    for nm in pnames:
        f = G.user_subset(rng, defs[df["programs"]], rng.choice([0.2, 0.6]), skip=G.SPECIAL)
        labels = [m for m in mnames if rng.random() < 0.6]
        if labels and rng.random() < 0.1:
            labels.append(labels[0])
        f.update({"parameter_level": "programs", "program_name": nm})
        if labels or rng.random() < 0.6:
            f["method_labels"] = labels
        if rng.random() < 0.5:
            f["version"] = "4.0"
        files.append(("program", nm, shuffled(rng, f)))
    if want_sim:
        f = G.user_subset(rng, defs[df["simulation_settings"]], rng.choice([0.3, 0.7]), skip=G.SPECIAL)
        if split_sim:
            ks = list(f)
            a = {k: f[k] for k in ks[::2]}
            b = {k: f[k] for k in ks[1::2]}
            a["parameter_level"] = b["parameter_level"] = "simulation_settings"
            files.append(("sim", "a", shuffled(rng, a)))
            files.append(("sim", "b", shuffled(rng, b)))
        else:
            f["parameter_level"] = "simulation_settings"
            if rng.random() < 0.5:
                f["version"] = "4.0"
            files.append(("sim", "", shuffled(rng, f)))
    if want_vw:
        f = G.user_subset(rng, defs[df["virtual_world"]], rng.choice([0.2, 0.5, 0.9]), skip=G.SPECIAL)
        f["parameter_level"] = "virtual_world"
        files.append(("vw", "", shuffled(rng, f)))
    if want_out:
        f = G.user_subset(rng, defs[df["outputs"]], rng.choice([0.1, 0.5]), skip=G.SPECIAL)
        f["parameter_level"] = "outputs"
        files.append(("out", "", shuffled(rng, f)))
    rng.shuffle(files)
    return files


def expected_result(defs, files):
    """the specification: defaults with exactly the user leaves replaced, level by level"""
    df = T.DEF_FILES
    exp = copy.deepcopy(defs[df["simulation_settings"]])
    pool = {}
    for (kind, nm, f) in files:
        if kind == "method":
            pool[nm] = f
    for (kind, nm, f) in files:
        if kind == "sim":
            exp = G.spec_merge(exp, f)
    for (kind, nm, f) in files:
        if kind == "vw":
            exp["virtual_world"] = G.spec_merge(defs[df["virtual_world"]], f)
    out_file = {"parameter_level": "outputs"}
    for (kind, nm, f) in files:
        if kind == "out":
            out_file = f
    exp["outputs"] = G.spec_merge(defs[df["outputs"]], out_file)
    progs = {}
    for (kind, nm, f) in files:
        if kind == "program":
            p = G.spec_merge(defs[df["programs"]], f)
            p["methods"] = {}
            for lab in p["method_labels"]:
                m = pool[lab]
                dfile = m.get("default_parameters", df[m["deployment_type"]])
                p["methods"][lab] = G.spec_merge(defs[dfile], m, new_ok=("default_parameters",))
            progs[nm] = p
    exp["programs"] = progs
    return G.spec_strip(exp)


def first_diff(a, b, path=()):
    if type(a) is not type(b):
        return path
    if isinstance(a, dict):
        for k in sorted(set(a) | set(b), key=str):
            if k not in a or k not in b:
                return path + (k,)
            d = first_diff(a[k], b[k], path + (k,))
            if d is not None:
                return d
        return None
    if isinstance(a, list):
        if len(a) != len(b):
            return path
        for i, (x, y) in enumerate(zip(a, b)):
            d = first_diff(x, y, path + (i,))
            if d is not None:
                return d
        return None
    return None if a == b else path


def corruptions(rng, defs, files, full):
    """single-key corruptions of a valid scenario: (class, expectation, files')"""
    df = T.DEF_FILES
    out = []
    referenced = set()
    for (kind, nm, f) in files:
        if kind == "program":
            referenced |= set(f.get("method_labels", []))
    for i, (kind, nm, f) in enumerate(files):
        if kind == "method":
            if nm not in referenced:
                continue
            d = defs[f.get("default_parameters", df[f["deployment_type"]])]
            omit = G.OMIT["methods"]
        else:
            d = defs[df[{"sim": "simulation_settings", "vw": "virtual_world", "program": "programs", "out": "outputs"}[kind]]]
            omit = G.OMIT[{"sim": "simulation_settings", "vw": "virtual_world", "program": "programs", "out": "outputs"}[kind]]

        def put(path, val, cls, expect="reject"):
            g = with_path(rng, f, path, val)
            fs = list(files)
            fs[i] = (kind, nm, g)
            out.append((cls, expect, fs))

        nodes = list(G.dict_nodes(d))
        derived = [x for x in G.derived_unknown_names(rng, defs, omit, 12) if x not in omit and x != "zz_unknown"]
        # keep the end-to-end sweep affordable: about 150 derived names per file, spread over its nodes
        # (the component sweep has all of them at every node)
        per_node = max(8, 150 // max(1, len(nodes)))
        for node in (nodes if full else rng.sample(nodes, min(2, len(nodes)))):
            mine = rng.sample(derived, min(len(derived), per_node if full else 3))
            for name in ["zz_unknown"] + list(omit) + mine:
                if name in get_or_empty(d, node) or (kind == "method" and name == "default_parameters" and not node):
                    continue
                if kind == "sim" and name == "programs":
                    continue  # `programs` in a simulation-settings file has its own (crashing) branch
                if kind == "program" and name == "methods" and not node:
                    continue  # overwritten by the install stage
                exempt = name in omit or under_omit(node, omit)
                put(node + (name,), rng.choice([1, "v", [2]]), f"unknown-key:{kind}", "known" if exempt else "reject")
        paths = [p for p, _ in G.leaves(d)] + [p for p in G.dict_nodes(d) if p]
        for p in (paths if full else rng.sample(paths, min(3, len(paths)))):
            dv = G.get_path(d, p)
            wvs = G.wrong_values(dv)
            for (label, wv) in (wvs if full else rng.sample(wvs, min(2, len(wvs)))):
                exempt = under_omit(p, omit)
                put(p, wv, f"wrong-type:{kind}:{G.kind_of(dv)}<-{label}", "known" if exempt else "reject")
    # structural corruptions
    progs = [i for i, (k, _, _) in enumerate(files) if k == "program"]
    for i in progs:
        (kind, nm, f) = files[i]
        g = dict(f)
        g["method_labels"] = list(f.get("method_labels", [])) + ["no_such_method"]
        fs = list(files)
        fs[i] = (kind, nm, g)
        out.append(("missing-method", "reject", fs))
        for bad in rng.sample(G.RESERVED_SAMPLES, 2 if not full else len(G.RESERVED_SAMPLES)):
            g = dict(f)
            g["program_name"] = bad
            fs = list(files)
            fs[i] = (kind, bad, g)
            out.append(("reserved-name:program", "reject", fs))
    for i, (kind, nm, f) in enumerate(files):
        if kind == "method" and nm in referenced:
            for bad in rng.sample(G.RESERVED_SAMPLES, 2 if not full else len(G.RESERVED_SAMPLES)):
                g = dict(f)
                g["method_name"] = bad
                fs = []
                for (k2, n2, f2) in files:
                    if k2 == "program":
                        f2 = dict(f2)
                        f2["method_labels"] = [bad if x == nm else x for x in f2.get("method_labels", [])]
                    fs.append((k2, n2, f2))
                fs[i] = (kind, bad, g)
                out.append(("reserved-name:method", "reject", fs))
            g = dict(f)
            g["deployment_type"] = rng.choice(["orbital", "Mobile", ""])
            fs = list(files)
            fs[i] = (kind, nm, g)
            if "default_parameters" not in f:
                out.append(("bad-deployment-type", "reject", fs))
    out.append(("no-programs", "reject", [x for x in files if x[0] != "program"]))
    # (an unreferenced method file is never validated: it does not reach the parameters at all)
    j = rng.choice([i for i, (k, n, _) in enumerate(files) if k != "method" or n in referenced])
    (kind, nm, f) = files[j]
    g = {k: v for k, v in f.items() if k != "parameter_level"}
    fs = list(files)
    fs[j] = (kind, nm, g)
    out.append(("missing-level", "reject", fs))
    g = dict(f)
    g["parameter_level"] = rng.choice(["program", "Outputs", 3, None])
    fs = list(files)
    fs[j] = (kind, nm, g)
    out.append(("unknown-level", "reject", fs))
    for ver, cls in [("4", "version:major-only"), ("3.2", "version:legacy"), ("5.0", "version:newer"), (4.0, "version:float")]:
        g = dict(f)
        g["version"] = ver
        fs = list(files)
        fs[j] = (kind, nm, g)
        out.append((cls, "reject", fs))
    return out


class E2E:
    def __init__(self, ctx, defs):
        self.ctx = ctx
        self.defs = defs
        self.scratch = T.Scratch()
        self.jobs = []   # (loaded trees in given order, real outcome, meta)
        self.hyp_jobs = []  # [default, file a, file b] of two simulation-settings files of one scenario

    def run_real(self, files, meta):
        # now and then one of the files is a .json file (the other format read_parameter_file takes)
        as_json = ()
        if self.ctx.rng.random() < 0.15:
            as_json = (self.ctx.rng.randrange(len(files)),)
            self.ctx.count("file-format:json")
        paths, seen = self.scratch.write([f for (_, _, f) in files], as_json=as_json)
        r = T.real_intake_paths(paths)
        self.scratch.drop_last()
        self.ctx.evaluations += 1
        self.jobs.append((seen, r, meta))
        return r

    def finish(self):
        ctx = self.ctx
        import json
        lines = ["defs " + T.to_line(self.defs)] + ["intake " + T.to_line(seen) for (seen, _, _) in self.jobs]
        model = lean(lines)[1:]
        for (seen, r, meta), ml in zip(self.jobs, model):
            il = T.show(r)
            mlc = ml if ml.startswith("reject:") or ml == "bad-op" else T.canon(json.loads(ml))
            if il != mlc:
                ctx.disagree("intake", {"op": "intake", "files": seen, "meta": meta}, mlc[:600], il[:600])
            elif r[0] == "ok":
                # order-preserving comparison: the model's insertion-order logic (setKey positions,
                # order of `programs` / `methods`, which depends on the file order) against Python's
                ordered_impl = T.to_line(r[1])
                ordered_model = T.to_line(json.loads(ml))
                ctx.count("intake:key-order-compared")
                if ordered_impl != ordered_model:
                    ctx.disagree("intake:key-order", {"op": "intake", "files": seen, "meta": meta},
                                 ordered_model[:600], ordered_impl[:600])
            ctx.count("intake:" + ("ok" if r[0] == "ok" else il))
        ctx.traces += len(self.jobs)
        if self.hyp_jobs:
            hyp = lean(["hyp " + T.to_line(j) for j in self.hyp_jobs])
            ctx.extra.setdefault("hypothesis_hit_rate", {})[
                "merge_comm_decidable hypotheses on the pairs of simulation-settings files of end-to-end scenarios"] = [
                sum(1 for x in hyp if x == "1"), len(hyp)]
        self.scratch.close()


def orders(rng, n, cap):
    if n <= 4:
        return list(itertools.permutations(range(n)))
    out = {tuple(range(n)), tuple(reversed(range(n)))}
    while len(out) < cap:
        p = list(range(n))
        rng.shuffle(p)
        out.add(tuple(p))
    return sorted(out)


def as_input(files, order=None, cls=None):
    return {"op": "intake", "files": [list(x) for x in files], "order": list(order) if order else None, "class": cls}


def oracle_valid(ctx, defs, files, results, tag=""):
    """results: list of (order, outcome) of the real intake for a valid scenario"""
    exp = expected_result(defs, files)
    ce = T.canon(exp)
    first = None
    for (order, r) in results:
        inp = as_input(files, order, "valid")
        if r[0] != "ok":
            ctx.violate(f"C18:valid-rejected:{r[1]}", "a valid set of parameter files is rejected (" + r[2][:120] + ")", inp)
            continue
        if G.has_placeholder(r[1]):
            ctx.violate("C18:placeholder-left", "a type placeholder reaches the simulation parameters", inp)
        for pn, p in r[1].get("programs", {}).items():
            labs = set(p.get("method_labels") or [])
            if set(p.get("methods", {})) != labs:
                ctx.violate("C18:methods-installed", "the methods installed in a program are not its method_labels", inp)
        c = T.canon(r[1])
        if c != ce:
            d = first_diff(exp, r[1]) or ()
            lvl = d[0] if d and d[0] in ("virtual_world", "outputs", "programs") else "simulation_settings"
            if len(d) >= 4 and d[0] == "programs" and d[2] == "methods":
                lvl = "methods"
            ctx.violate(f"C18:frame:{lvl}", f"result differs from defaults-with-user-leaves-replaced at {list(d)}", inp)
        if first is None:
            first = (order, c)
        elif c != first[1]:
            ctx.violate("C18:order-dependent", f"orders {list(first[0])} and {list(order)} give different parameters", inp)


def e2e(ctx, defs):
    rng = ctx.rng
    run = E2E(ctx, defs)
    try:
        # (1) valid scenarios, all orders for <= 4 files
        for k in range(ctx.pick(40, 500)):
            mf = rng.choice([1, 2, 3, 4, 4, None, None])
            files = gen_scenario(rng, defs, mf)
            results = []
            for order in orders(rng, len(files), ctx.pick(5, 12)):
                fs = [files[i] for i in order]
                r = run.run_real(fs, {"class": "valid", "n": len(files)})
                results.append((order, r))
            oracle_valid(ctx, defs, files, results)
            sims = [f for (kk, _, f) in files if kk == "sim"]
            if len(sims) == 2:
                run.hyp_jobs.append([defs[T.DEF_FILES["simulation_settings"]], sims[0], sims[1]])
            kinds = sorted(k for (k, _, _) in files)
            ctx.nontrivial.add(("valid", tuple(kinds), any("default_parameters" in f for (_, _, f) in files)))
            if k < 2:
                ctx.sample({"component": "intake", "files": [f for (_, _, f) in files][:3], "orders": len(results),
                            "impl": results[0][1][0]})
        # (2) single-key corruptions: one full sweep + sampled ones in random orders
        sweeps = ctx.pick(1, 6)
        for k in range(ctx.pick(12, 150)):
            files = gen_scenario(rng, defs, rng.choice([3, 4, None]))
            # the sweep needs at least one referenced method
            if k < sweeps:
                for _ in range(50):
                    if any(kk == "method" for (kk, _, _) in files) and any(
                            f.get("method_labels") for (kk, _, f) in files if kk == "program"):
                        break
                    files = gen_scenario(rng, defs, None)
            base = run.run_real(files, {"class": "valid", "n": len(files)})
            if base[0] != "ok":
                ctx.violate(f"C18:valid-rejected:{base[1]}", "a valid set of parameter files is rejected", as_input(files))
                continue
            for (cls, expect, fs) in corruptions(rng, defs, files, full=(k < sweeps)):
                perm = list(range(len(fs)))
                if k >= sweeps:
                    rng.shuffle(perm)
                fs2 = [fs[i] for i in perm]
                r = run.run_real(fs2, {"class": cls, "expect": expect})
                ctx.nontrivial.add(("corrupt", cls.split("<-")[0], r[1] if r[0] != "ok" else "ok"))
                if r[0] == "ok":
                    if expect == "known":
                        ctx.violate(SIG_OMIT, "corruption below / named like an omit key is accepted end to end", as_input(fs2, None, cls))
                        ctx.count("known:omit-key")
                    else:
                        ctx.violate("C18:accepted:" + cls.split("<-")[0], f"single-key corruption accepted ({cls})", as_input(fs2, None, cls))
        # (3) duplicate single-instance level files (recorded finding): both orders
        for k in range(ctx.pick(6, 60)):
            files = gen_scenario(rng, defs, rng.choice([3, 4]))
            lvl = rng.choice(["vw", "out"])
            dname = T.DEF_FILES["virtual_world" if lvl == "vw" else "outputs"]
            plevel = "virtual_world" if lvl == "vw" else "outputs"
            files = [x for x in files if x[0] != lvl]
            lv = [p for p, v in G.leaves(defs[dname]) if p[0] not in G.SPECIAL]
            pa, pb = rng.sample(lv, 2)
            a, b = {"parameter_level": plevel}, {"parameter_level": plevel}
            G.set_path(a, pa, G.valid_value(rng, G.get_path(defs[dname], pa)))
            G.set_path(b, pb, G.valid_value(rng, G.get_path(defs[dname], pb)))
            fa = files + [(lvl, "a", a), (lvl, "b", b)]
            fb = files + [(lvl, "b", b), (lvl, "a", a)]
            ra = run.run_real(fa, {"class": "duplicate-level"})
            rb = run.run_real(fb, {"class": "duplicate-level"})
            if T.show(ra) != T.show(rb):
                ctx.violate(SIG_DUP, "two files of one single-instance level: the later one replaces the earlier one",
                            as_input(fa, None, "duplicate-level"))
                ctx.count("known:duplicate-level")
            ctx.nontrivial.add(("duplicate-level", lvl, T.show(ra) != T.show(rb)))
        # (4) version gate: a file whose version must be refused (newer / legacy / major-only) together with a
        #     file carrying a minor-mismatch or unparsable version, in every order
        for k in range(ctx.pick(8, 80)):
            files = gen_scenario(rng, defs, rng.choice([2, 3, 4]))
            referenced = set()
            for (kind, nm, f) in files:
                if kind == "program":
                    referenced |= set(f.get("method_labels", []))
            idx = [i for i, (kk, nm, _) in enumerate(files) if kk != "method" or nm in referenced]
            if len(idx) < 2:
                continue
            ia, ib = rng.sample(idx, 2)
            minor = rng.choice(["4.1", "abc", "4.0.1", "4.7"])
            bad = rng.choice(["5.0", "3.2", "4", "6.1"])
            fs = [(kk, nm, dict(f)) for (kk, nm, f) in files]
            fs[ia][2]["version"] = minor
            only_minor = run.run_real(fs, {"class": "version:minor-only"})
            ctx.count("version:minor-or-garbage-only:" + ("accepted" if only_minor[0] == "ok" else "rejected"))
            fs[ib][2]["version"] = bad
            accepted, rejected = [], []
            for order in orders(rng, len(fs), ctx.pick(5, 12)):
                r = run.run_real([fs[i] for i in order], {"class": "version-gate"})
                (accepted if r[0] == "ok" else rejected).append(order)
            ctx.nontrivial.add(("version-gate", minor, bad, bool(accepted), bool(rejected)))
            if accepted:
                ctx.violate(SIG_VER, f"a file with version {bad!r} is accepted when a file with version {minor!r} comes earlier "
                            f"(rejected in {len(rejected)} of {len(accepted) + len(rejected)} orders)",
                            as_input(fs, accepted[0], "version-gate"))
                ctx.count("known:version-gate")
        # (5) a type placeholder as program / method name ends up as a dictionary key
        for k in range(ctx.pick(6, 40)):
            files = gen_scenario(rng, defs, rng.choice([3, 4, None]))
            ph = rng.choice(T.PLACEHOLDERS)
            progs = [i for i, (kk, _, _) in enumerate(files) if kk == "program"]
            meths = [i for i, (kk, nm, _) in enumerate(files) if kk == "method"]
            fs = [(kk, nm, dict(f)) for (kk, nm, f) in files]
            if meths and rng.random() < 0.5:
                i = rng.choice(meths)
                old = fs[i][1]
                fs[i] = ("method", ph, dict(fs[i][2], method_name=ph))
                for j in progs:
                    if "method_labels" in fs[j][2]:
                        fs[j][2]["method_labels"] = [ph if x == old else x for x in fs[j][2]["method_labels"]]
                what = "method"
            else:
                i = rng.choice(progs)
                fs[i] = ("program", ph, dict(fs[i][2], program_name=ph))
                what = "program"
            r = run.run_real(fs, {"class": "placeholder-key"})
            ctx.nontrivial.add(("placeholder-key", what, ph, r[0] if r[0] == "ok" else r[1]))
            if r[0] == "ok" and (G.has_placeholder_key(r[1]) or G.has_placeholder(r[1])):
                ctx.violate(SIG_PHKEY if G.has_placeholder_key(r[1]) else "C18:placeholder-left",
                            f"a {what} named like a type placeholder is accepted and the placeholder reaches the parameters as a dictionary key",
                            as_input(fs, None, "placeholder-key"))
                ctx.count("known:placeholder-key")
        # (6) same-process history
        history(ctx, defs, run)
        # (7) names equal up to case / whitespace / unicode form (LESSONS 3)
        near_names(ctx, defs, run)
    finally:
        run.finish()


def check_omit_table(ctx):
    """table obligation on the call sites of check_types: every `omit_keys` argument is a list / tuple
    DISPLAY of strings (membership `i not in omit_keys` is then equality with an element, as the model's
    `List.contains`), never a bare string or another expression, and its value is the omit list the
    model uses for that level.  Returns the evaluated objects per level: the component sweep hands
    exactly these to the real check_types, so a call site that passes something else is confronted with
    every derived unknown key."""
    ctx.obligations.append("table:omit-keys-call-sites")
    try:
        rows = T.omit_call_sites()
    except Exception as e:  # noqa: BLE001
        ctx.broke("table:omit-keys-call-sites", f"cannot read the check_types call sites: {e!r}")
        return {}
    with_kw = [r for r in rows if r[1] is not None]
    levels = ["simulation_settings", "programs", "methods"]
    real = {}
    problems = []
    if len(rows) != 5 or len(with_kw) != 3:
        problems.append(f"{len(rows)} check_types calls, {len(with_kw)} with omit_keys (expected 5 / 3)")
    for lvl, (line, src, node, val) in zip(levels, with_kw):
        real[lvl] = val
        if not (node.startswith("List[") or node.startswith("Tuple[")):
            problems.append(f"line {line}: omit_keys={src} is a {node}, not a list/tuple display")
        if not isinstance(val, (list, tuple)) or not all(isinstance(x, str) for x in val):
            problems.append(f"line {line}: omit_keys={src} evaluates to {val!r} ({type(val).__name__}), not a list/tuple of strings")
        elif list(val) != G.OMIT[lvl]:
            problems.append(f"line {line}: omit_keys={src} evaluates to {list(val)!r}, the model omits {G.OMIT[lvl]!r}")
    if problems:
        ctx.broke("table:omit-keys-call-sites", "; ".join(problems))
    else:
        ctx.discharged.append("table:omit-keys-call-sites")
    ctx.extra["omit_keys_call_sites"] = [[r[0], r[1], r[2], repr(r[3])] for r in rows]
    return real


REAL_OMIT = {}   # level -> the object the real call site passes as omit_keys (filled by check_omit_table)


def real_omit(lvl, intended):
    """what the real intake passes for this level: the call site's own object; no argument for the
    virtual_world / outputs calls"""
    key = lvl.split("/")[0]
    if key in ("virtual_world", "outputs"):
        return None
    return REAL_OMIT.get(key, intended)


C18_SOURCES = ["file_processing/input_processing/input_manager.py", "utils/check_parameter_types.py",
               "initialization/versioning.py"]


def check_state_table(ctx):
    """class- / module-level mutable containers, caches and copy hooks of the intake modules (LESSONS 1):
    the modelled code has none, so the model's "no history between cases" is justified; a new one
    re-opens the obligation"""
    ctx.obligations.append("table:intake-no-cross-case-state")
    try:
        rows = T.mutable_state_table(C18_SOURCES)
    except Exception as e:  # noqa: BLE001
        ctx.broke("table:intake-no-cross-case-state", f"cannot scan the intake sources: {e!r}")
        return
    if rows:
        ctx.broke("table:intake-no-cross-case-state",
                  "the intake modules now hold class-/module-level mutable state, caches or copy hooks: " + "; ".join(rows))
    else:
        ctx.discharged.append("table:intake-no-cross-case-state")


def colliding_pair(rng, defs):
    """two valid scenarios with the SAME file kinds, program names and method names but different values"""
    a = gen_scenario(rng, defs, rng.choice([3, 4, None]))
    df = T.DEF_FILES
    b = []
    for (kind, nm, f) in a:
        level = {"sim": "simulation_settings", "vw": "virtual_world", "program": "programs", "out": "outputs"}.get(kind)
        if kind == "method":
            dfile = f.get("default_parameters", df[f["deployment_type"]])
            g = G.user_subset(rng, defs[dfile], rng.choice([0.2, 0.6]), skip=G.SPECIAL)
            for k in ("parameter_level", "method_name", "deployment_type", "default_parameters"):
                if k in f:
                    g[k] = f[k]
        else:
            g = G.user_subset(rng, defs[df[level]], rng.choice([0.2, 0.6]), skip=G.SPECIAL)
            for k in ("parameter_level", "program_name", "method_labels"):
                if k in f:
                    g[k] = f[k]
        b.append((kind, nm, shuffled(rng, g)))
    return a, b


def history(ctx, defs, run):
    """same-process history (LESSONS 1): scenarios with colliding names and different values run as
    A, B, A, B and B, A; every result must be the one the scenario has on its own (specification from
    the files alone; model without history; for some cases a fresh interpreter); one InputManager
    reading the same files twice must return the same parameters"""
    rng = ctx.rng
    for k in range(ctx.pick(10, 80)):
        a, b = colliding_pair(rng, defs)
        seq = [("A", a), ("B", b), ("A", a), ("B", b)] if k % 2 == 0 else [("B", b), ("A", a), ("B", b), ("A", a)]
        seen = {}
        for tag, files in seq:
            r = run.run_real(files, {"class": "history", "n": len(files)})
            oracle_valid(ctx, defs, files, [(tuple(range(len(files))), r)])
            c = T.show(r)
            if tag in seen and seen[tag] != c:
                ctx.violate("C18:history:result-depends-on-earlier-intakes",
                            "the same files read again in the same process give different parameters after another intake with the same names",
                            as_input(files, None, "valid"))
            seen[tag] = c
        ctx.nontrivial.add(("history", len(a), k % 2))
        if k < ctx.pick(2, 8):
            alone = T.intake_alone([f for (_, _, f) in a])
            ctx.evaluations += 1
            ctx.count("history:fresh-interpreter")
            # the fresh interpreter writes its own YAML: compare on the canonical outcome
            if alone != seen["A"]:
                ctx.violate("C18:history:differs-from-fresh-process",
                            "an intake run after thousands of others in this process differs from the same intake in a fresh interpreter",
                            as_input(a, None, "valid"))
    # one manager object, the same files twice
    from file_processing.input_processing.input_manager import InputManager
    import contextlib
    import io
    for k in range(ctx.pick(6, 40)):
        files = gen_scenario(rng, defs, rng.choice([2, 3, 4]))
        paths, _ = run.scratch.write([f for (_, _, f) in files])

        def twice():
            with T.in_repo(), contextlib.redirect_stdout(io.StringIO()):
                m = InputManager()
                r1 = m.read_and_validate_parameters(list(paths))
                r2 = m.read_and_validate_parameters(list(paths))
            return [r1, r2]

        r = T.guarded(twice)
        run.scratch.drop_last()
        ctx.evaluations += 1
        if r[0] == "ok" and T.canon(r[1][0]) != T.canon(r[1][1]):
            ctx.violate("C18:history:same-manager-same-files", "one InputManager reading the same files twice returns different parameters",
                        as_input(files, None, "valid"))
        ctx.count("history:same-manager-twice:" + r[0])


def name_variants(nm):
    """names that a sloppy comparison would identify with `nm`: other case, surrounding blanks, unicode
    compatibility forms - all DIFFERENT strings, none of them reserved"""
    out = [nm.lower(), nm.upper(), nm.swapcase(), nm.capitalize(), nm.title(), nm + " ", " " + nm, nm + "\t",
           nm.replace("fi", "\ufb01"), "".join(chr(ord(c) + 0xFEE0) if "!" <= c <= "~" else c for c in nm[:1]) + nm[1:],
           nm.replace("e", "e\u0301") if "e" in nm else nm + "\u00a0"]
    seen, res = {nm}, []
    for v in out:
        if v not in seen and v.strip().lower() not in ("none", "null", "nan") and v not in T.PLACEHOLDERS:
            seen.add(v)
            res.append(v)
    return res


def near_names(ctx, defs, run):
    """labels, method names and program names that differ from an existing name only by case / blanks /
    unicode form.  Oracle unchanged: a label is served by the file whose method_name EQUALS it - a near
    miss is a missing method; two files with near-equal names are two methods / programs, each label
    resolves to exactly its own file in every file order."""
    rng = ctx.rng
    df = T.DEF_FILES
    for k in range(ctx.pick(14, 80)):
        for _ in range(60):
            files = gen_scenario(rng, defs, rng.choice([2, 3]))
            meths = [(i, nm) for i, (kk, nm, _) in enumerate(files) if kk == "method" and any(c.isalpha() for c in nm)]
            progs = [i for i, (kk, _, f) in enumerate(files) if kk == "program"]
            refs = [(pi, mi, nm) for pi in progs for (mi, nm) in meths if nm in files[pi][2].get("method_labels", [])]
            if refs:
                break
        else:
            continue
        pi, mi, nm = rng.choice(refs)
        var = rng.choice(name_variants(nm))
        mode = k % 3
        if mode == 0:
            # (a) the label is a near miss of the only supplied method: a missing method, in every order
            fs = [(kk, n2, dict(f)) for (kk, n2, f) in files]
            fs[pi][2]["method_labels"] = [var if x == nm else x for x in fs[pi][2]["method_labels"]]
            accepted = []
            for order in orders(rng, len(fs), ctx.pick(5, 12)):
                r = run.run_real([fs[i] for i in order], {"class": "near-name:label", "expect": "reject"})
                if r[0] == "ok":
                    accepted.append(order)
            if accepted:
                ctx.violate("C18:accepted:missing-method:near-name-label",
                            f"label {var!r} is served although only a method named {nm!r} is supplied (names differ by case / blanks / unicode form)",
                            as_input(fs, accepted[0], "near-name:label"))
            ctx.nontrivial.add(("near-name", "label", var == nm.lower(), bool(accepted)))
        elif mode == 1:
            # (b) a second method whose name is a near twin of the first, other values; both or one referenced
            (_, _, f) = files[mi]
            dep = rng.choice(["mobile", "stationary"])
            g = G.user_subset(rng, defs[df[dep]], rng.choice([0.3, 0.7]), skip=G.SPECIAL)
            g.update({"parameter_level": "methods", "method_name": var, "deployment_type": dep})
            fs = [(kk, n2, dict(ff)) for (kk, n2, ff) in files] + [("method", var, shuffled(rng, g))]
            if rng.random() < 0.5:
                fs[pi][2]["method_labels"] = list(fs[pi][2]["method_labels"]) + [var]
            results = []
            for order in orders(rng, len(fs), ctx.pick(8, 24)):
                results.append((order, run.run_real([fs[i] for i in order], {"class": "valid", "n": len(fs)})))
            oracle_valid(ctx, defs, fs, results)
            ctx.nontrivial.add(("near-name", "twin-methods", len(fs), var in fs[pi][2]["method_labels"]))
        else:
            # (c) a second program whose name is a near twin of the first / of the baseline name
            (_, pn, f) = files[pi]
            pvar = rng.choice(name_variants(pn) or [pn + " "])
            g = G.user_subset(rng, defs[df["programs"]], 0.6, skip=G.SPECIAL)
            g.update({"parameter_level": "programs", "program_name": pvar, "method_labels": [nm] if rng.random() < 0.5 else []})
            fs = [(kk, n2, dict(ff)) for (kk, n2, ff) in files] + [("program", pvar, shuffled(rng, g))]
            for j, (kk, n2, ff) in enumerate(fs):
                if kk == "sim":
                    ff["baseline_program"] = rng.choice([pn, pvar])
            results = []
            for order in orders(rng, len(fs), ctx.pick(8, 24)):
                results.append((order, run.run_real([fs[i] for i in order], {"class": "valid", "n": len(fs)})))
            oracle_valid(ctx, defs, fs, results)
            ctx.nontrivial.add(("near-name", "twin-programs", len(fs)))


def stage(ctx, name, fn, *a):
    """an unexpected crash of a stage is a broken obligation; the other stages still run (LESSONS 7)"""
    try:
        fn(*a)
    except core.InfraError:
        raise
    except Exception:  # noqa: BLE001
        import traceback
        ctx.broke(f"stage {name} crashed", traceback.format_exc())


def run(ctx):
    ctx.rule = ("cases = (a) check_types on every single-key corruption (unknown key at every dictionary node, "
                "every wrong type at every leaf / section) of a random valid subset of each of the six real default files, "
                "random valid subsets, random generic tree pairs; (b) retain_update on valid subsets, generic pairs and "
                "pairs of disjoint updates in both orders; (c) remove_type_placeholders / validate_names on real and random "
                "trees; (d) read_and_validate_parameters end to end on generated YAML file sets (1-3 programs, 0-3 methods, "
                "optional simulation-settings / virtual-world / outputs files, all orders for <= 4 files, random orders "
                "beyond), their single-key corruptions, duplicate level files. non-trivial = distinct (component, level, "
                "corruption class, depth, outcome) / (file kinds, uses default_parameters) keys")
    core.lean_stage(ctx, MODULE, FILE, drivers=["drv_tree"])
    if IMPORT_ERROR is not None:
        ctx.obligations.append("import of the intake modules")
        ctx.broke("import of the intake modules", IMPORT_ERROR)
        return
    stage(ctx, "constants", check_constants, ctx)
    stage(ctx, "state-table", check_state_table, ctx)
    try:
        REAL_OMIT.clear()
        REAL_OMIT.update(check_omit_table(ctx))
    except Exception as e:  # noqa: BLE001
        ctx.broke("table:omit-keys-call-sites", repr(e))
    try:
        defs = T.load_defaults()
    except Exception as e:  # noqa: BLE001
        ctx.broke("default parameter files", f"cannot load src/default_parameters: {e!r}")
        return
    stage(ctx, "check_types", comp_check, ctx, defs)
    stage(ctx, "retain_update", comp_merge, ctx, defs)
    stage(ctx, "remove_type_placeholders", comp_strip, ctx, defs)
    stage(ctx, "validate_names", comp_names, ctx)
    stage(ctx, "end-to-end", e2e, ctx, defs)
    for (fn, arg, before, after) in T.INPUT_MUTATIONS[:20]:
        ctx.violate(f"C18:history:input-modified:{fn}:{arg}",
                    f"{fn} modifies its argument `{arg}` (shared between calls): {before[:120]} -> {after[:120]}",
                    {"op": "mutation", "function": fn, "argument": arg, "before": before, "after": after})
    ctx.count("input-mutation-checks", 1)
    ctx.assumptions.append("order independence is claimed for file sets with at most one virtual_world / outputs file and distinct program and method names")
    ctx.assumptions.append("YAML files are written with yaml.safe_dump and read back with the InputManager's own loader; the model receives exactly what that loader returns")


def replay(ctx, data):
    inp = data.get("input", {})
    op = inp.get("op")
    if IMPORT_ERROR is not None:
        print("replay: the intake modules cannot be imported:", IMPORT_ERROR[-400:])
        return 1
    if op == "mutation":
        print("replay:", inp["function"], "modified its argument", inp["argument"], ":", inp["before"][:200], "->", inp["after"][:200])
        return 1
    defs = T.load_defaults()
    if op == "check":
        # the omit_keys object of the real call site of that level (what the intake really passes)
        om = inp["omit"]
        lvl = (inp.get("meta") or {}).get("level", "generic")
        if lvl != "generic":
            try:
                with_kw = [r for r in T.omit_call_sites() if r[1] is not None]
                REAL_OMIT.update(dict(zip(["simulation_settings", "programs", "methods"], [r[3] for r in with_kw])))
            except Exception as e:  # noqa: BLE001
                print("replay: cannot read the call sites:", e)
            om = real_omit(lvl, om)
        print("omit_keys as the call site passes them:", repr(om))
        r = T.real_check(om, inp["default"], inp["test"])
        print("check_types ->", r)
        bad = r[0] == "ok"
        print("oracle:", "corruption ACCEPTED" if bad else "rejected")
        return 1 if bad else 0
    if op == "merge":
        r = T.real_merge(inp["default"], inp["user"])
        exp = G.spec_merge(inp["default"], inp["user"])
        bad = r[0] != "ok" or T.canon(exp) != T.canon(r[1])
        print("retain_update ->", T.show(r)[:800])
        print("specification ->", T.canon(exp)[:800])
        return 1 if bad else 0
    if op == "strip":
        r = T.real_strip(inp["tree"])
        bad = r[0] != "ok" or G.has_placeholder(r[1]) or T.canon(G.spec_strip(inp["tree"])) != T.canon(r[1])
        print("remove_type_placeholders ->", T.show(r)[:800])
        return 1 if bad else 0
    if op == "names":
        r = T.real_names(inp["sim"])
        print("validate_names ->", r)
        return 1
    if op == "comm":
        d, a, b = inp["default"], inp["a"], inp["b"]
        r1 = T.real_merge(T.real_merge(d, a)[1], b)
        r2 = T.real_merge(T.real_merge(d, b)[1], a)
        print("a then b:", T.show(r1)[:600])
        print("b then a:", T.show(r2)[:600])
        return 1 if T.show(r1) != T.show(r2) else 0
    if op == "intake":
        files = [tuple(x) for x in inp["files"]]
        sc = T.Scratch()
        try:
            order = inp.get("order") or list(range(len(files)))
            fs = [files[i] for i in order] if inp.get("order") else files
            paths, _ = sc.write([f for (_, _, f) in fs])
            r = T.real_intake_paths(paths)
            print("read_and_validate_parameters ->", T.show(r)[:1500])
            cls = inp.get("class")
            if cls == "valid":
                # the stored order first, then (file sets of <= 4: all) other orders, as the check does:
                # an order dependence needs two orders to show
                results = [(tuple(order), r)]
                others = list(itertools.permutations(range(len(files)))) if len(files) <= 4 else \
                    [tuple(range(len(files))), tuple(reversed(range(len(files))))]
                for o in others:
                    if tuple(o) != tuple(order):
                        p2, _ = sc.write([files[i][2] for i in o])
                        results.append((tuple(o), T.real_intake_paths(p2)))
                oracle_valid(ctx, defs, files, results)
                for v in ctx.violations:
                    print("oracle:", v["signature"], "-", v["what"])
                return 1 if ctx.violations else 0
            if cls == "placeholder-key":
                bad = r[0] == "ok" and (G.has_placeholder_key(r[1]) or G.has_placeholder(r[1]))
                print("oracle:", "placeholder reaches the parameters" if bad else "no placeholder in the result")
                return 1 if bad else 0
            if cls == "duplicate-level":
                paths, _ = sc.write([f for (_, _, f) in fs[:-2] + [fs[-1], fs[-2]]])
                r2 = T.real_intake_paths(paths)
                print("other order ->", T.show(r2)[:1500])
                return 1 if T.show(r) != T.show(r2) else 0
            print("oracle:", "corruption ACCEPTED" if r[0] == "ok" else "rejected")
            return 1 if r[0] == "ok" else 0
        finally:
            sc.close()
    print("replay: broken obligation / correspondence:", data.get("broken_obligations"), data.get("correspondence_disagreements"))
    return 1
