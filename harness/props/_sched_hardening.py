"""Hardening stages shared by C06 / C07 (audit/LESSONS.md items 1, 3, 4, 7):
  * same-process history: pairs of cases whose keys collide (same method name, same site ids, same dict keys)
    but whose values differ, run alone and after the other one, in both orders — the traces must be identical
    (and each is also compared with the model, which has no cross-case state);
  * several real schedules / methods built from ONE list of site objects: equal planners, input deep-equal
    before / after;
  * a table of class-level / module-level mutable containers, caches and copy hooks of the modelled classes,
    read from the source on every run (anything unexpected is a broken obligation);
  * names and shapes: site ids with underscores, digits, prefixes of each other, marker-like names, unsorted
    numbers; method names likewise;
  * adapter failures become broken obligations, never an infrastructure error.
"""
from __future__ import annotations

import ast
import copy
import json
import os
import traceback

from harness import shim

MODELLED = [
    "scheduling/generic_schedule.py", "scheduling/mobile_schedule.py", "scheduling/stationary_schedule.py",
    "scheduling/follow_up_mobile_schedule.py", "scheduling/workplan.py", "scheduling/survey_planner.py",
    "scheduling/scheduled_survey_planner.py", "scheduling/follow_up_survey_planner.py",
    "scheduling/schedule_dataclasses.py", "utils/queue.py", "programs/method.py",
    "programs/component_level_method.py",
]

# what the unchanged tree holds: (file, owner, name) of every class-/module-level mutable container, cache
# decorator and copy hook in the modelled files.  Constants (ints, strings, tuples of those) are not listed.
EXPECTED_SHARED_STATE = set()

METHOD_NAMES = ["M", "OGI_FU", "a_1", "M1", "M10", "kept", "NA", "Logs", "method name"]


def site_name_maps(rng, n):
    """index -> real site id; the model keeps the indices"""
    kind = rng.choice(["plain", "plain", "prefix", "underscore", "unsorted", "marker", "lexi"])
    if kind == "plain":
        return None
    if kind == "prefix":
        names = ["S1", "S10", "S100", "S1_0", "S11", "S", "S1a", "S01", "S_1", "S2", "S20", "S3"]
    elif kind == "underscore":
        names = ["a_b", "a_b_c", "a__b", "_a", "a_", "b_1", "b_10", "b_2", "c", "c_", "_", "__"]
    elif kind == "unsorted":
        names = [str(x) for x in rng.sample(range(1, 5000), 12)]
    elif kind == "marker":
        names = ["kept", "NA", "None", "nan", "Logs", "_placeholder_str_", "0", "-1", "site", "True", "1e3", "x y"]
    else:
        names = ["10", "9", "100", "1", "2", "20", "3", "30", "4", "40", "5", "50"]
    names = names[:]
    rng.shuffle(names)
    return {str(i + 1): names[i] for i in range(n)} if n <= len(names) else None


def decorate(rng, case):
    """give a generated case arbitrary real names (the model-side lines are unchanged)"""
    m = site_name_maps(rng, len(case["sites"]))
    if m:
        case["site_names"] = m
    if rng.random() < 0.5:
        case["method_name"] = rng.choice(METHOD_NAMES)
    return case


# ------------------------------------------------------------------------------------------------
# robust driving of the adapter
# ------------------------------------------------------------------------------------------------
def drive(ctx, prop, fn, case, *a, **k):
    """run an adapter entry point; any exception / SystemExit of the code under test outside the simulated
    days (construction of methods, schedules, planners) becomes a broken obligation with the case attached"""
    try:
        return fn(case, *a, **k)
    except BaseException as e:  # noqa: BLE001 - includes SystemExit raised by the code under test
        if isinstance(e, KeyboardInterrupt):
            raise
        ctx.broke(f"{prop}: the real scheduling classes could not be driven ({type(e).__name__})",
                  json.dumps({k_: v for k_, v in case.items() if k_ not in ("forced", "weather")}, default=str)[:1500]
                  + "\n" + traceback.format_exc()[-1500:])
        ctx.count("adapter_failures")
        return None


# ------------------------------------------------------------------------------------------------
# 1a. same-process history
# ------------------------------------------------------------------------------------------------
def _run(case, A):
    c = copy.deepcopy(case)
    if c["kind"] == "followup":
        return None, A.run_followup(c)
    return A.run_routine(c, forced=c.get("forced"))


def history_stage(ctx, prop, pairs):
    """pairs of cases with colliding keys and differing values; each is run alone, then after the other"""
    from harness.adapters import sched as A

    for (a, b) in pairs:
        try:
            alone_a = _run(a, A)
            alone_b = _run(b, A)
            after_b = _run(a, A)      # a after b
            _run(a, A)
            after_a = _run(b, A)      # b after a
        except BaseException as e:  # noqa: BLE001
            if isinstance(e, KeyboardInterrupt):
                raise
            ctx.broke(f"{prop}: history stage could not drive the real classes ({type(e).__name__})",
                      traceback.format_exc()[-1500:])
            continue
        for name, x, y, case, other in (("A after B", alone_a, after_b, a, b), ("B after A", alone_b, after_a, b, a)):
            ctx.evaluations += 1
            ctx.count("history_pairs_checked")
            if json.dumps(x, default=str, sort_keys=True) != json.dumps(y, default=str, sort_keys=True):
                day = next((k for k, (r1, r2) in enumerate(zip(x[1], y[1])) if r1 != r2), None)
                ctx.violate(prop + ":history:result-depends-on-earlier-case",
                            f"the same case gives a different trace when another case with the same method name / "
                            f"site ids was run before it in this process ({name}, first differing day {day})",
                            {"case": case, "earlier_case": other, "history": True})


def colliding_pairs(rng, gen, n):
    """two independent draws forced onto the same names / ids / sizes"""
    out = []
    for _ in range(n):
        a, b = gen(rng), gen(rng)
        k = min(len(a["sites"]), len(b["sites"]))
        for c in (a, b):
            c["sites"] = c["sites"][:k]
            for i, s in enumerate(c["sites"]):
                s["id"] = i + 1
            if isinstance(c.get("weather"), list):
                c["weather"] = [w if not isinstance(w, list) else w[:k] for w in c["weather"]]
            if c.get("forced"):
                c["forced"] = [f for f in c["forced"] if f[1] <= k]
            if c.get("ops"):
                c["ops"] = [[op for op in day if (op[2] if op[0] == "add" else op[1]) <= k] for day in c["ops"]]
            c.pop("site_names", None)
            if isinstance(c.get("T"), list):     # sampled travel times are random draws, not history
                c["T"] = int(c["T"][0])
        names = site_name_maps(rng, k)
        mname = rng.choice(METHOD_NAMES)
        for c in (a, b):
            if names:
                c["site_names"] = names
            c["method_name"] = mname
        out.append((a, b))
    return out


# ------------------------------------------------------------------------------------------------
# 1b. several objects from one input
# ------------------------------------------------------------------------------------------------
def shared_input_stage(ctx, prop, cases):
    from harness.adapters import sched as A

    for case in cases:
        r = drive(ctx, prop, A.shared_input_check, copy.deepcopy(case))
        if r is None:
            continue
        s1, s2, changed = r
        ctx.evaluations += 1
        ctx.count("shared_input_cases")
        if s1 != s2:
            ctx.violate(prop + ":history:second-schedule-from-same-sites-differs",
                        "two schedules built from the same site objects hold different planners",
                        {"case": case, "first": s1, "second": s2})
        real = []
        for (sid, attr, before, after) in changed:
            # the plan generator sorts the month list it is handed in place: the same set of months
            if attr == "_deployment_months" and all(sorted(v) == after[k_] for k_, v in before.items()):
                ctx.count("shared_input_months_sorted_in_place")
                continue
            real.append([sid, attr, before, after])
        if real:
            ctx.violate(prop + ":history:construction-mutates-shared-input",
                        f"building schedules changed the site objects they were built from: {real[:3]}",
                        {"case": case, "changed": real[:6]})


# ------------------------------------------------------------------------------------------------
# 1c. table of shared mutable state in the modelled classes (read from the source on every run)
# ------------------------------------------------------------------------------------------------
_MUTABLE_CALLS = {"list", "dict", "set", "defaultdict", "OrderedDict", "deque", "Counter", "SortedList"}
_HARMLESS_CALLS = {"field", "TypeVar", "getLogger", "namedtuple", "frozenset", "tuple", "int", "float", "str",
                   "date", "timedelta", "Enum"}
_CACHE_DECOS = {"lru_cache", "cache", "cached_property"}
_COPY_HOOKS = {"__deepcopy__", "__copy__", "__reduce__", "__reduce_ex__", "__getstate__", "__setstate__"}


def _is_mutable(node):
    if isinstance(node, (ast.List, ast.Dict, ast.Set, ast.ListComp, ast.DictComp, ast.SetComp)):
        return True
    if isinstance(node, ast.Call):
        # any object constructed at class / module level is shared by all instances and all cases; only
        # constructors known to give immutable / per-instance things are exempt
        f = node.func
        name = f.id if isinstance(f, ast.Name) else (f.attr if isinstance(f, ast.Attribute) else None)
        return name not in _HARMLESS_CALLS
    return False


def scan_shared_state():
    """(file, owner, name, kind) for every module-/class-level mutable container, cache decorator and copy
    hook in the modelled files"""
    found, missing = set(), []
    for rel in MODELLED:
        path = os.path.join(shim.REPO_SRC, rel)
        if not os.path.exists(path):
            missing.append(rel)
            continue
        tree = ast.parse(open(path).read())

        def visit(body, owner):
            for node in body:
                targets, value = [], None
                if isinstance(node, ast.Assign):
                    targets, value = node.targets, node.value
                elif isinstance(node, ast.AnnAssign) and node.value is not None:
                    targets, value = [node.target], node.value
                if value is not None and _is_mutable(value):
                    for t in targets:
                        if isinstance(t, ast.Name):
                            found.add((rel, owner, t.id, "container"))
                if isinstance(node, (ast.FunctionDef, ast.AsyncFunctionDef)):
                    if node.name in _COPY_HOOKS:
                        found.add((rel, owner, node.name, "copy-hook"))
                    for dec in node.decorator_list:
                        d = dec.func if isinstance(dec, ast.Call) else dec
                        nm = d.id if isinstance(d, ast.Name) else (d.attr if isinstance(d, ast.Attribute) else None)
                        if nm in _CACHE_DECOS:
                            found.add((rel, owner, node.name, "cache"))
                    # mutable default arguments are shared between calls
                    for dflt in list(node.args.defaults) + [d_ for d_ in node.args.kw_defaults if d_ is not None]:
                        if _is_mutable(dflt):
                            found.add((rel, owner, node.name, "mutable-default"))
                if isinstance(node, ast.ClassDef):
                    visit(node.body, node.name)

        visit(tree.body, "<module>")
    return found, missing


def shared_state_table(ctx, prop):
    """obligation: the modelled classes keep no state outside their instances (so a history of cases cannot
    matter).  Returns True when the table is as expected."""
    name = f"{prop}: table of class-/module-level mutable state of the scheduling classes"
    ctx.obligations.append(name)
    try:
        found, missing = scan_shared_state()
    except SyntaxError as e:
        ctx.broke(name, f"source does not parse: {e}")
        return False
    ctx.extra["shared_state_table"] = sorted(map(list, found))
    extra = {(f, o, n) for (f, o, n, _k) in found} - EXPECTED_SHARED_STATE
    if missing:
        ctx.broke(name, f"modelled files missing: {missing}")
        return False
    if extra:
        ctx.broke(name, "state shared between instances / cases that the model does not have: "
                  + json.dumps(sorted(map(list, found))))
        return False
    ctx.discharged.append(name)
    return True
